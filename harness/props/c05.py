"""C05 -- likelihood classes are the named normalised densities; gradients; cost.

Theorems: coq/theories/Properties/C05.v about RealModel/Likelihoods.v (value = sum of
ln pdf_named for Gaussian / Cauchy / logistic; gradient = derivative of the value for
any differentiable forward model; cost = -value; Cauchy and logistic pdfs normalised).

Tie to the code (DESIGN 2.2): the real GaussianLikelihood / CauchyLikelihood /
LogisticLikelihood objects are built on generated data (n <= 6, scales 1e-6..1e6,
residuals up to +-700 sigma, linear and quadratic forward models with explicit
Jacobians); __call__, gradient, cost, cost_gradient are run and for every returned
number y the goal
        Rabs (model inputs - y) <= tol
is proved inside Coq by coq-interval on the unfolded model (inputs and y exact
rationals of the doubles).  tol = 1e-9 * (sum of the magnitudes of the terms that are
added) + 1e-13: far above double rounding, far below any change of formula.

Constructor stage / dtype of the inputs (RealModel/LikelihoodsTyped.v, Properties/C05Typed.v):
the base class stores array(y_data) / array(uncertainties) WITHOUT forcing a dtype, so the
constants pre-computed by the constructors depend on how the user typed the numbers.  A second
family of cases therefore hands the data and the uncertainties over the way users do: lists /
tuples of Python ints, int8..int64 / uint8..uint64 arrays, Python scalars (n = 1), float lists,
lists mixing ints and floats, float32 / longdouble arrays, (n,1) / (1,n) arrays, strided views,
read-only arrays.  Their goals go through the two-stage model (`gauss_call (gauss_init ys ss) fs`
with `SInt k` / `SFlt q` elements), which the C05_typed_* theorems tie to the same textbook sum.
float32 uncertainties are computed by numpy in single precision (that is the dtype the user
chose): tolerance 4e-6 instead of 1e-9 for those cases only.

Container stage / shape of the inputs (RealModel/LikelihoodsShaped.v, Properties/C05Shaped.v): the
base class squeezes array(y_data) and array(uncertainties) independently and only rejects what still
has more than one dimension afterwards, so a row (1,n) sliced out of an image, a column (n,1), a
keepdims result (1,1,n), a nested list [[...]], a 0-d array ... are valid inputs, and
GaussianLikelihood counts its data points (n_data, for the -0.5*log(2*pi)*n_data part of the
normalisation) on the squeezed array.  A third family of cases hands the data and the uncertainties
over in every such container (stratified: every class meets the row-like ones with n > 1 in every
run); the shape numpy gives the container and its row-major elements go into the goals
`gauss_call (gauss_init_nd (Build_ndarr [1;n] [...]) (Build_ndarr [n;1] [...])) fs`, together with
one goal per case that the model's constructor checks accept the input (`base_accepts`, `nd_wf`).
The C05_shaped_* theorems tie that model to the same textbook sum.

Failing-input search: for a value goal that does not check, the *textbook* density sum
(sum_logpdf <named pdf>, not the code-shaped formula) is evaluated by interval against
the implementation's number; for a gradient goal, central differences of the
implementation's own value in an exact rational step.
"""
from __future__ import annotations

import json
import math
import warnings
from fractions import Fraction

import numpy as np

from lib import common as C
from lib import interval as I

PROP = "C05"
THEOREMS = ["C05_gauss_is_sum_logpdf", "C05_cauchy_is_sum_logpdf", "C05_logistic_is_sum_logpdf",
            "C05_logaddexp_form",
            "C05_gauss_gradient_is_derivative", "C05_cauchy_gradient_is_derivative",
            "C05_logistic_gradient_is_derivative",
            "C05_cost_is_negative", "C05_cost_gradient_is_derivative",
            "C05_cauchy_pdf_normalised", "C05_logistic_pdf_normalised", "C05_normalised_total"]

TYPED_THEOREMS = ["C05_typed_gauss_is_sum_logpdf", "C05_typed_cauchy_is_sum_logpdf",
                  "C05_typed_logistic_is_sum_logpdf",
                  "C05_typed_gauss_gradient_is_derivative", "C05_typed_cauchy_gradient_is_derivative",
                  "C05_typed_logistic_gradient_is_derivative", "C05_typed_representation_independent",
                  "C05_samedtype_reciprocal_of_int_is_zero", "C05_samedtype_reciprocal_gauss_refuted",
                  "C05_samedtype_reciprocal_cauchy_refuted"]

SHAPED_THEOREMS = ["C05_shaped_count_is_number_of_data",
                   "C05_shaped_gauss_is_sum_logpdf", "C05_shaped_cauchy_is_sum_logpdf",
                   "C05_shaped_logistic_is_sum_logpdf",
                   "C05_shaped_gauss_gradient_is_derivative", "C05_shaped_cauchy_gradient_is_derivative",
                   "C05_shaped_logistic_gradient_is_derivative", "C05_shaped_container_independent",
                   "C05_leading_count_ok_when_first_axis_is_long", "C05_leading_count_refuted_on_rows",
                   "C05_leading_count_gauss_refuted"]

PREAMBLE = """From Coq Require Import Reals List ZArith.
From Interval Require Import Tactic.
From IT Require Import RealModel.Likelihoods RealModel.LikelihoodsTyped RealModel.LikelihoodsShaped.
Import ListNotations.
Open Scope R_scope.
Ltac c05_unfold := cbv [gauss_loglike gauss_normalisation gauss_z gauss_gradient gauss_dLdF
  cauchy_loglike cauchy_normalisation cauchy_z cauchy_gradient cauchy_dLdF
  logistic_loglike logistic_normalisation logistic_z logistic_scale logistic_gradient logistic_dLdF
  logaddexp vecmat cost cost_gradient sum_logpdf gauss_pdf cauchy_pdf logistic_pdf
  gauss_call gauss_grad gauss_init gauss_init_with gs_y gs_inv_sigma gs_inv_sigma_sqr gs_norm
  cauchy_call cauchy_grad cauchy_init cauchy_init_with cs_y cs_inv_gamma cs_norm
  logistic_call logistic_grad logistic_init ls_y ls_inv_scale ls_norm sval true_recip
  gauss_init_nd gauss_init_nd_with cauchy_init_nd logistic_init_nd count_size
  nd_wf base_accepts nd_size nd_ndim nd_squeeze nd_shape nd_data shape_size squeeze_shape
  filter negb andb Nat.eqb Nat.leb Nat.mul Nat.add
  sumR map2 map3 map fold_right nth length INR].
"""
UNFOLD = "c05_unfold."
CLASSES = {"gauss": "GaussianLikelihood", "cauchy": "CauchyLikelihood", "logistic": "LogisticLikelihood"}
TEXTBOOK = {"gauss": "gauss_pdf", "cauchy": "cauchy_pdf",
            "logistic": "(fun mu s y => logistic_pdf mu (logistic_scale s) y)"}
REL = Fraction(1, 10 ** 9)
REL32 = Fraction(4, 10 ** 6)      # uncertainties given as float32: numpy computes inv_sigma, log(sigma) in single precision
ABS = Fraction(1, 10 ** 13)

# ---------------------------------------------------------------- how the user hands the numbers over
INT_KINDS = ["pylist_int", "pytuple_int", "int64", "int32", "uint32", "uint64", "int16", "uint16",
             "int8", "uint8", "int64_column"]
FLOAT_KINDS = ["float64", "pylist_float", "mixed_list", "float32", "longdouble", "column", "row",
               "strided", "readonly"]
SCALAR_KINDS = {"pyscalar_int": "int", "pyscalar_float": "float"}


# containers of the third family: kind = "<container>/<element type>".  The shape is NOT tabulated
# here: it is read off numpy.array(<the object>) when the goals are written (shape_and_elements).
ROW_CONTAINERS = ["row", "keepdims3", "row4", "mid3", "image_row", "fortran_row", "transposed_col",
                  "atleast_2d", "nested_row", "tuple_row"]          # leading axis 1, the data along a later one
OTHER_CONTAINERS = ["flat", "column", "col3", "image_col", "nested_col"]
SINGLE_CONTAINERS = ["zero_d", "one_one", "pyscalar"]               # n = 1 only
PY_CONTAINERS = ("nested_row", "tuple_row", "nested_col", "pyscalar")
SHAPED_INT = ("int64", "uint8", "pyint")


def is_shaped(kind):
    return kind is not None and "/" in kind


def family(kind):
    if is_shaped(kind):
        return "int" if kind.split("/")[1] in SHAPED_INT else "float"
    return "int" if kind in INT_KINDS or kind == "pyscalar_int" else "float"


def materialise_shaped(values, kind):
    cont, et = kind.split("/")
    n = len(values)
    vals = [int(v) for v in values] if et in SHAPED_INT else [float(v) for v in values]
    if cont == "nested_row":
        return [vals]
    if cont == "tuple_row":
        return (tuple(vals),)
    if cont == "nested_col":
        return [[v] for v in vals]
    if cont == "pyscalar":
        return vals[0]
    a = np.array(vals, dtype={"pyint": "int64", "pyfloat": "float64"}.get(et, et))
    if cont == "flat":
        return a
    if cont == "row":
        return a.reshape(1, n)
    if cont == "column":
        return a.reshape(n, 1)
    if cont == "keepdims3":                 # e.g. a reduction over two axes with keepdims=True
        return a.reshape(1, 1, n)
    if cont == "row4":
        return a.reshape(1, 1, 1, n)
    if cont == "mid3":
        return a.reshape(1, n, 1)
    if cont == "col3":
        return a.reshape(n, 1, 1)
    if cont == "image_row":                 # one row of an image, kept two-dimensional
        return np.vstack([a[::-1], a, a])[1:2, :]
    if cont == "image_col":                 # one column of an image: a non-contiguous (n,1) view
        return np.column_stack([a[::-1], a, a])[:, 1:2]
    if cont == "fortran_row":
        return np.asfortranarray(a.reshape(1, n))
    if cont == "transposed_col":
        return a.reshape(n, 1).T
    if cont == "atleast_2d":
        return np.atleast_2d(a)
    if cont == "zero_d":
        return a.reshape(())
    if cont == "one_one":
        return a.reshape(1, 1)
    raise ValueError(kind)


def shape_and_elements(values, kind):
    """What numpy.array(obj) -- the first thing the constructor does -- makes of the object that is
    handed over: (shape, elements in row-major order)."""
    a = np.array(materialise(values, kind))
    return [int(d) for d in a.shape], [float(v) for v in a.ravel(order="C")]


def int_range(kind):
    if kind in ("pylist_int", "pytuple_int", "int64_column", "pyscalar_int"):
        kind = "int64"
    ii = np.iinfo(kind)
    return int(ii.min), int(ii.max)


def materialise(values, kind):
    """The object passed to the constructor.  `values` are the exact numbers (floats)."""
    if is_shaped(kind):
        return materialise_shaped(values, kind)
    if kind == "float64":
        return np.array(values, dtype=float)
    if kind == "pylist_int":
        return [int(v) for v in values]
    if kind == "pytuple_int":
        return tuple(int(v) for v in values)
    if kind == "pyscalar_int":
        return int(values[0])
    if kind == "pyscalar_float":
        return float(values[0])
    if kind == "int64_column":
        return np.array([int(v) for v in values], dtype=np.int64).reshape(-1, 1)
    if kind in INT_KINDS:
        return np.array([int(v) for v in values], dtype=kind)
    if kind == "pylist_float":
        return [float(v) for v in values]
    if kind == "mixed_list":      # whole numbers typed without the decimal point
        return [int(v) if float(v).is_integer() else float(v) for v in values]
    if kind in ("float32", "longdouble"):
        return np.array(values, dtype=kind)
    if kind == "column":
        return np.array(values, dtype=float).reshape(-1, 1)
    if kind == "row":
        return np.array(values, dtype=float).reshape(1, -1)
    if kind == "strided":
        big = np.full(2 * len(values), np.nan)
        big[::2] = values
        return big[::2]
    if kind == "readonly":
        a = np.array(values, dtype=float)
        a.setflags(write=False)
        return a
    raise ValueError(kind)


# ---------------------------------------------------------------- forward models
def forward(m, theta):
    th = np.asarray(theta, dtype=float)
    a, B = np.array(m["a"], dtype=float), np.array(m["B"], dtype=float)
    f = a + B @ th
    if m["kind"] == "quadratic":
        f = f + np.array(m["Cq"], dtype=float) @ (th * th)
    return f


def jacobian(m, theta):
    th = np.asarray(theta, dtype=float)
    J = np.array(m["B"], dtype=float)
    if m["kind"] == "quadratic":
        J = J + 2.0 * np.array(m["Cq"], dtype=float) * th[None, :]
    return J


def build(case):
    import inference.likelihoods as L
    cls = getattr(L, CLASSES[case["cls"]])
    m = case["model"]
    return cls(materialise(case["y"], case.get("y_kind", "float64")),
               materialise(case["sigma"], case.get("s_kind", "float64")),
               forward_model=lambda t: forward(m, t), forward_model_jacobian=lambda t: jacobian(m, t))


def run_impl(case):
    try:
        with warnings.catch_warnings(), np.errstate(all="ignore"):
            warnings.simplefilter("ignore")
            obj = build(case)
            # history dimension: the same parameter array is first used at another point (value and
            # gradient), then updated in place (as an optimiser or sampler does) and used again
            th = np.array(case["theta"], dtype=float) + 0.125
            obj(th)
            obj.gradient(th)
            th[:] = np.array(case["theta"], dtype=float)
            val = obj(th)
            grad = np.asarray(obj.gradient(th), dtype=float)
            cst = obj.cost(th)
            cgrad = np.asarray(obj.cost_gradient(th), dtype=float)
    except Exception as e:
        return {"status": "exception", "error": repr(e)}
    p = len(case["theta"])
    if grad.shape != (p,) or cgrad.shape != (p,) or np.ndim(val) != 0 or np.ndim(cst) != 0:
        return {"status": "shape", "error": f"shapes value {np.shape(val)} gradient {grad.shape} cost_gradient {cgrad.shape}"}
    nums = [float(val), float(cst)] + [float(x) for x in grad] + [float(x) for x in cgrad]
    if not all(math.isfinite(x) for x in nums):
        return {"status": "nonfinite", "error": f"non-finite output {nums}"}
    return {"status": "ok", "value": float(val), "cost": float(cst),
            "grad": [float(x) for x in grad], "cgrad": [float(x) for x in cgrad]}


# ---------------------------------------------------------------- generation
def log_uniform(r, lo, hi):
    return 10.0 ** r.uniform(lo, hi)


def gen_case(r, k):
    cls = ["gauss", "cauchy", "logistic"][k % 3]
    n = r.choice([1, 2, 3, 4, 5, 6])
    p = r.choice([1, 2, 3])
    kind = r.choice(["linear", "quadratic"])
    smode = r.choice(["common", "mixed", "mixed", "tiny", "huge"])
    if smode == "common":
        s0 = log_uniform(r, -6, 6)
        sigma = [s0] * n
    elif smode == "tiny":
        sigma = [log_uniform(r, -6, -4) for _ in range(n)]
    elif smode == "huge":
        sigma = [log_uniform(r, 4, 6) for _ in range(n)]
    else:
        sigma = [log_uniform(r, -6, 6) for _ in range(n)]
    theta = [r.choice([-1, 1]) * log_uniform(r, -2, 1) for _ in range(p)]
    m = {"kind": kind,
         "a": [r.uniform(-5, 5) for _ in range(n)],
         "B": [[r.uniform(-3, 3) for _ in range(p)] for _ in range(n)]}
    if kind == "quadratic":
        m["Cq"] = [[r.uniform(-2, 2) for _ in range(p)] for _ in range(n)]
    f = forward(m, theta)
    rmode = r.choice(["small", "small", "moderate", "huge", "huge+", "huge-", "zero", "mixed"])
    res = []
    for i in range(n):
        md = rmode if rmode != "mixed" else r.choice(["small", "moderate", "huge", "zero"])
        if md == "small":
            z = r.gauss(0, 1.5)
        elif md == "moderate":
            z = r.choice([-1, 1]) * r.uniform(3, 40)
        elif md == "huge":
            z = r.choice([-1, 1]) * r.uniform(100, 700)
        elif md == "huge+":
            z = r.uniform(300, 700)
        elif md == "huge-":
            z = -r.uniform(300, 700)
        else:
            z = 0.0
        res.append(z)
    y = [float(f[i] + res[i] * sigma[i]) for i in range(n)]
    return {"cls": cls, "y": y, "sigma": [float(s) for s in sigma], "theta": [float(t) for t in theta],
            "model": m, "smode": smode, "rmode": rmode}


def gen_typed_case(r, k):
    """A case whose data / uncertainties reach the constructor in a user-typed representation
    (integer lists / arrays of every width, Python scalars, float32, columns, views ...)."""
    cls = ["gauss", "cauchy", "logistic"][k % 3]
    n = r.choice([1, 2, 3, 4, 5, 6])
    p = r.choice([1, 2, 3])
    kind = r.choice(["linear", "quadratic"])
    # ---- uncertainties
    if r.random() < 0.7:
        s_kind = r.choice(INT_KINDS + (["pyscalar_int"] * 2 if n == 1 else []))
        smode = r.choice(["int small", "int small", "int mid", "int large"])
        top = {"int small": 9, "int mid": 120, "int large": 10 ** 6}[smode]
        top = min(top, int_range(s_kind)[1])
        sigma = [float(r.randint(1, top)) for _ in range(n)]
        if smode == "int small" and r.random() < 0.25:
            sigma = [1.0] * n
            smode = "int all ones"
    else:
        s_kind = r.choice(FLOAT_KINDS + (["pyscalar_float"] * 2 if n == 1 else []))
        smode = "float"
        sigma = [log_uniform(r, -4, 4) for _ in range(n)]
        if s_kind == "mixed_list":
            sigma = [float(r.randint(1, 9)) if r.random() < 0.6 else s for s in sigma]
            if all(s.is_integer() for s in sigma):
                sigma[r.randrange(n)] = r.choice([0.5, 1.5, 2.5, 0.25])
        if s_kind == "float32":
            sigma = [float(np.float32(s)) for s in sigma]
    theta = [r.choice([-1, 1]) * log_uniform(r, -2, 1) for _ in range(p)]
    m = {"kind": kind,
         "a": [r.uniform(-5, 5) for _ in range(n)],
         "B": [[r.uniform(-3, 3) for _ in range(p)] for _ in range(n)]}
    if kind == "quadratic":
        m["Cq"] = [[r.uniform(-2, 2) for _ in range(p)] for _ in range(n)]
    f = forward(m, theta)
    rmode = r.choice(["small", "small", "moderate", "huge", "mixed"])
    yreal = []
    for i in range(n):
        md = rmode if rmode != "mixed" else r.choice(["small", "moderate", "huge"])
        if md == "small":
            z = r.gauss(0, 1.5)
        elif md == "moderate":
            z = r.choice([-1, 1]) * r.uniform(3, 40)
        else:
            z = r.choice([-1, 1]) * r.uniform(100, 700)
        yreal.append(float(f[i] + z * sigma[i]))
    # ---- data
    if r.random() < 0.4:
        y = [float(round(v)) for v in yreal]
        fits = [kd for kd in INT_KINDS + (["pyscalar_int"] if n == 1 else [])
                if int_range(kd)[0] <= min(y) and max(y) <= int_range(kd)[1]]
        y_kind = r.choice(fits)
    else:
        y_kind = r.choice(FLOAT_KINDS + (["pyscalar_float"] if n == 1 else []))
        y = list(yreal)
        if y_kind == "mixed_list":
            y = [float(round(v)) if r.random() < 0.6 else v for v in y]
            if all(v.is_integer() for v in y):
                y[r.randrange(n)] += 0.5
        if y_kind == "float32":
            y = [float(np.float32(v)) for v in y]
    return {"cls": cls, "y": y, "sigma": sigma, "theta": [float(t) for t in theta], "model": m,
            "smode": smode, "rmode": rmode, "y_kind": y_kind, "s_kind": s_kind}


def shaped_schedule(r, n_shaped):
    """Which container the DATA of shaped case k arrives in: per class a shuffled cycle over all the
    containers in which the row-like ones come first, so that every class meets every row-like
    container with n > 1 as early as possible (12 cases per class in the quick tier: all 10 row-like
    ones and 2 of the others)."""
    per_class = []
    for _ in range(3):
        rows, others = list(ROW_CONTAINERS), list(OTHER_CONTAINERS)
        r.shuffle(rows)
        r.shuffle(others)
        per_class.append(rows + others)
    return [per_class[k % 3][(k // 3) % len(per_class[k % 3])] for k in range(n_shaped)]


def gen_shaped_case(r, k, y_cont):
    """A case whose data arrive in the container `y_cont` (a shape numpy squeezes to 1-D / 0-D) and
    whose uncertainties arrive in an independently drawn one."""
    cls = ["gauss", "cauchy", "logistic"][k % 3]
    n = r.choice([2, 2, 3, 3, 4, 5, 6, 1])
    p = r.choice([1, 2])
    kind = r.choice(["linear", "quadratic"])
    if n == 1 and r.random() < 0.5:
        y_cont = r.choice(SINGLE_CONTAINERS)
    s_cont = r.choice(ROW_CONTAINERS + OTHER_CONTAINERS + ["flat"] * 5 + (SINGLE_CONTAINERS * 2 if n == 1 else []))
    # ---- uncertainties
    if r.random() < 0.4:
        s_et = "pyint" if s_cont in PY_CONTAINERS else r.choice(["int64", "uint8"])
        smode = r.choice(["int small", "int mid"])
        sigma = [float(r.randint(1, 9 if smode == "int small" else 120)) for _ in range(n)]
    else:
        s_et = "pyfloat" if s_cont in PY_CONTAINERS else "float64"
        smode = "float"
        sigma = [log_uniform(r, -4, 4) for _ in range(n)]
    theta = [r.choice([-1, 1]) * log_uniform(r, -2, 1) for _ in range(p)]
    m = {"kind": kind,
         "a": [r.uniform(-5, 5) for _ in range(n)],
         "B": [[r.uniform(-3, 3) for _ in range(p)] for _ in range(n)]}
    if kind == "quadratic":
        m["Cq"] = [[r.uniform(-2, 2) for _ in range(p)] for _ in range(n)]
    f = forward(m, theta)
    rmode = r.choice(["small", "small", "moderate", "huge", "mixed"])
    y = []
    for i in range(n):
        md = rmode if rmode != "mixed" else r.choice(["small", "moderate", "huge"])
        if md == "small":
            z = r.gauss(0, 1.5)
        elif md == "moderate":
            z = r.choice([-1, 1]) * r.uniform(3, 40)
        else:
            z = r.choice([-1, 1]) * r.uniform(100, 700)
        y.append(float(f[i] + z * sigma[i]))
    # ---- data
    if r.random() < 0.3:
        y = [float(round(v)) for v in y]
        y_et = "pyint" if y_cont in PY_CONTAINERS else "int64"
    else:
        y_et = "pyfloat" if y_cont in PY_CONTAINERS else "float64"
    return {"cls": cls, "y": y, "sigma": sigma, "theta": [float(t) for t in theta], "model": m,
            "smode": smode, "rmode": rmode, "y_kind": f"{y_cont}/{y_et}", "s_kind": f"{s_cont}/{s_et}"}


# ---------------------------------------------------------------- tolerances (magnitude of the summed terms)
def magnitudes(case):
    """(magnitude of the terms of the value, per-parameter magnitude of the terms of the
    gradient).  Float arithmetic; used only to scale the tolerance."""
    y, s = np.array(case["y"]), np.array(case["sigma"])
    f, J = forward(case["model"], case["theta"]), np.abs(jacobian(case["model"], case["theta"]))
    with np.errstate(all="ignore"):
        if case["cls"] == "gauss":
            z = (y - f) / s
            mv = 0.5 * np.sum(z * z) + np.sum(np.abs(np.log(s))) + len(y)
            d = np.abs(y - f) / (s * s)
        elif case["cls"] == "cauchy":
            z = (y - f) / s
            mv = np.sum(np.log1p(z * z)) + np.sum(np.abs(np.log(np.pi * s)))
            d = 2 * np.abs(z) / (s * (1 + z * z))
        else:
            sc = s * (math.sqrt(3) / math.pi)
            z = (y - f) / sc
            mv = np.sum(np.abs(z)) + 2 * np.sum(np.logaddexp(0.0, z)) + np.sum(np.abs(np.log(sc)))
            d = 1.0 / sc
    mg = d @ J
    if case.get("s_kind") == "float32":
        # single-precision log(sigma) / log(pi*gamma): absolute error ~6e-8 per point even where the log is ~0
        mv = mv + len(y)
    return float(mv), [float(x) for x in np.atleast_1d(mg)]


def tol_for(mag, observed, case=None):
    m = max(Fraction(mag), abs(C.frac(observed)))
    rel = REL32 if case is not None and case.get("s_kind") == "float32" else REL
    return rel * m + ABS


# ---------------------------------------------------------------- Coq terms
def rlist(xs):
    return C.clist([C.cR(x) for x in xs])


def coq_inputs(case):
    f = forward(case["model"], case["theta"])
    J = jacobian(case["model"], case["theta"])
    ys, ss, fs = rlist(case["y"]), rlist(case["sigma"]), rlist(f)
    Jt = C.clist([rlist(row) for row in J])
    return ys, ss, fs, Jt


def slist(xs, kind):
    """list of `scalar`: SInt k for an integer-dtype input, SFlt q for a float one."""
    if family(kind) == "int":
        return C.clist([f"SInt ({int(x)})%Z" for x in xs])
    return C.clist([f"SFlt {C.cR(x)}" for x in xs])


def typed_goals_for(k, case, out):
    """Goals of a case with user-typed inputs: through the constructor-stage model."""
    _, _, fs, Jt = coq_inputs(case)
    ys, ss = slist(case["y"], case["y_kind"]), slist(case["sigma"], case["s_kind"])
    c = case["cls"]
    mv, mg = magnitudes(case)
    st = f"({c}_init {ys} {ss})"
    gs = [(f"t{k}_value", I.goal_abs_close(f"{c}_call {st} {fs}", out["value"],
                                           tol_for(mv, out["value"], case)), None)]
    for j in range(len(case["theta"])):
        gs.append((f"t{k}_grad{j}", I.goal_abs_close(f"{c}_grad {st} {fs} {Jt} {j}%nat", out["grad"][j],
                                                     tol_for(mg[j], out["grad"][j], case)), None))
    return gs


def ndarr(values, kind):
    """Coq `ndarr` of the object that is handed over: the shape numpy gives it and its elements in
    row-major order (they must be the case's numbers: a container never changes them)."""
    shape, elems = shape_and_elements(values, kind)
    if elems != [float(v) for v in values]:
        raise AssertionError(f"container {kind} does not hold the case's numbers in order")
    return f"(Build_ndarr {C.clist([str(d) for d in shape])}%nat {slist(values, kind)})", shape


def shaped_goals_for(k, case, out):
    """Goals of a case whose inputs arrive in a (possibly) multi-dimensional container: through the
    container-stage model.  The first goal is that the model's constructor accepts the input (the
    implementation did: it returned numbers)."""
    _, _, fs, Jt = coq_inputs(case)
    ya, _ = ndarr(case["y"], case["y_kind"])
    sa, _ = ndarr(case["sigma"], case["s_kind"])
    c = case["cls"]
    mv, mg = magnitudes(case)
    st = f"({c}_init_nd {ya} {sa})"
    gs = [(f"s{k}_accepted", f"nd_wf {ya} /\\ nd_wf {sa} /\\ base_accepts {ya} {sa} = true",
           "(repeat split; reflexivity)"),
          (f"s{k}_value", I.goal_abs_close(f"{c}_call {st} {fs}", out["value"],
                                           tol_for(mv, out["value"], case)), None)]
    for j in range(len(case["theta"])):
        gs.append((f"s{k}_grad{j}", I.goal_abs_close(f"{c}_grad {st} {fs} {Jt} {j}%nat", out["grad"][j],
                                                     tol_for(mg[j], out["grad"][j], case)), None))
    return gs


def goals_for(k, case, out):
    """list of (goal id, statement, tactic) for one case."""
    ys, ss, fs, Jt = coq_inputs(case)
    c = case["cls"]
    mv, mg = magnitudes(case)
    gs = []
    val = f"{c}_loglike {ys} {ss} {fs}"
    gs.append((f"c{k}_value", I.goal_abs_close(val, out["value"], tol_for(mv, out["value"])), None))
    gs.append((f"c{k}_cost", I.goal_abs_close(f"cost ({val})", out["cost"], tol_for(mv, out["cost"])), None))
    for j in range(len(case["theta"])):
        g = f"{c}_gradient {ys} {ss} {fs} {Jt} {j}%nat"
        gs.append((f"c{k}_grad{j}", I.goal_abs_close(g, out["grad"][j], tol_for(mg[j], out["grad"][j])), None))
        cg = f"cost_gradient ({c}_gradient {ys} {ss} {fs} {Jt}) {j}%nat"
        gs.append((f"c{k}_cgrad{j}", I.goal_abs_close(cg, out["cgrad"][j], tol_for(mg[j], out["cgrad"][j])), None))
    return gs


# ---------------------------------------------------------------- property oracle
def oracle_value(tag, case, out):
    """Is the implementation's value the textbook density sum?  (interval goal on
    sum_logpdf <named pdf>; independent of the code-shaped formula).  True = property holds."""
    ys, ss, fs, _ = coq_inputs(case)
    mv, _ = magnitudes(case)
    stmt = I.goal_abs_close(f"sum_logpdf {TEXTBOOK[case['cls']]} {ys} {ss} {fs}", out["value"],
                            10 * tol_for(mv, out["value"], case))
    failed, broken = I.check_goals(PROP, f"oracle_{tag}", [("o", stmt, None)], preamble=PREAMBLE, unfold=UNFOLD)
    if broken:
        return None
    return not failed


def oracle_gradient(case, out):
    """Central differences of the implementation's own value in an exact (dyadic) step.
    Returns list of (j, fd, grad) that visibly disagree."""
    bad = []
    th0 = [Fraction(t) for t in case["theta"]]
    _, mg = magnitudes(case)
    for j in range(len(th0)):
        best = None
        for e in (20, 26, 14):
            h = Fraction(1, 2 ** e) * max(abs(th0[j]), Fraction(1, 64))
            vals = []
            for sgn in (1, -1):
                th = list(th0)
                th[j] = th0[j] + sgn * h
                o = run_impl(dict(case, theta=[float(t) for t in th]))
                if o["status"] != "ok":
                    vals = None
                    break
                vals.append(Fraction(o["value"]))
            if vals is None:
                continue
            fd = (vals[0] - vals[1]) / (2 * h)
            err = abs(float(fd) - out["grad"][j])
            if best is None or err < best[0]:
                best = (err, float(fd))
        if best is None:
            continue
        scale = max(abs(out["grad"][j]), abs(best[1]), mg[j] * 1e-3, 1e-300)
        if best[0] > 2e-2 * scale:
            bad.append((j, best[1], out["grad"][j]))
    return bad


def given(case):
    if "y_kind" not in case:
        return ""
    return f" [data given as {case['y_kind']}, uncertainties as {case['s_kind']}]"


def describe(case):
    d = {"cls": case["cls"], "y_hex": [float(v).hex() for v in case["y"]],
         "sigma_hex": [float(v).hex() for v in case["sigma"]],
         "theta_hex": [float(v).hex() for v in case["theta"]],
         "model": {"kind": case["model"]["kind"],
                   "a_hex": [float(v).hex() for v in case["model"]["a"]],
                   "B_hex": [[float(v).hex() for v in row] for row in case["model"]["B"]]},
         "y": case["y"], "sigma": case["sigma"], "theta": case["theta"]}
    if "y_kind" in case:
        d["data_given_as"], d["uncertainties_given_as"] = case["y_kind"], case["s_kind"]
    if case["model"]["kind"] == "quadratic":
        d["model"]["Cq_hex"] = [[float(v).hex() for v in row] for row in case["model"]["Cq"]]
    return d


def undescribe(d):
    fh = float.fromhex
    m = {"kind": d["model"]["kind"], "a": [fh(v) for v in d["model"]["a_hex"]],
         "B": [[fh(v) for v in row] for row in d["model"]["B_hex"]]}
    if m["kind"] == "quadratic":
        m["Cq"] = [[fh(v) for v in row] for row in d["model"]["Cq_hex"]]
    c = {"cls": d["cls"], "y": [fh(v) for v in d["y_hex"]], "sigma": [fh(v) for v in d["sigma_hex"]],
         "theta": [fh(v) for v in d["theta_hex"]], "model": m}
    if "data_given_as" in d:
        c["y_kind"], c["s_kind"] = d["data_given_as"], d["uncertainties_given_as"]
    return c


def shrink(case, fails):
    """Drop data points while the property still fails."""
    n = len(case["y"])
    idx = list(range(n))

    def sub(ix):
        m = dict(case["model"])
        for key in ("a", "B", "Cq"):
            if key in m:
                m[key] = [m[key][i] for i in ix]
        return dict(case, y=[case["y"][i] for i in ix], sigma=[case["sigma"][i] for i in ix], model=m)
    ix = C.shrink_list(idx, lambda ix: len(ix) >= 1 and fails(sub(ix)), min_len=1, budget=6)
    return sub(ix)


# ---------------------------------------------------------------- the run
def run(rep: C.Report, tier: str) -> int:
    r = C.rng_for(PROP, "cases")
    rt = C.rng_for(PROP, "typed")
    n_cases = 90 if tier == "quick" else 900
    n_typed = 48 if tier == "quick" else 480
    rs = C.rng_for(PROP, "shaped")
    n_shaped = 36 if tier == "quick" else 360
    schedule = shaped_schedule(rs, n_shaped)
    C.clean_gen(PROP)
    C.prove_and_audit(rep, PROP, THEOREMS)
    try:      # supplementary theorems (the Gaussian pdf is normalised)
        _a = C.coq_audit("C05_gaussnorm", ['GaussNorm_gauss_integral_limit', 'GaussNorm_std_normal_total', 'GaussNorm_gauss_pdf_normalised', 'GaussNorm_gauss_pdf_total', 'GaussNorm_gauss_cdf'], "IT.Properties.GaussNorm")
        rep.obligation(True, 5)
        rep.coverage["gaussnorm_audit"] = _a
    except C.ProofFailure as _e:
        rep.obligation(False, 5)
        rep.violation("C05/proof", f"proof obligation no longer checks: {_e.what}",
                      {"theorem_or_correspondence": _e.what, "log": _e.log[-1000:]}, False)
    try:      # constructor stage: the dtype of the data / uncertainties does not matter
        _a = C.coq_audit("C05_typed", TYPED_THEOREMS, "IT.Properties.C05Typed")
        rep.obligation(True, len(TYPED_THEOREMS))
        rep.coverage["typed_audit"] = _a
    except C.ProofFailure as _e:
        rep.obligation(False, len(TYPED_THEOREMS))
        rep.violation("C05/proof", f"proof obligation no longer checks: {_e.what}",
                      {"theorem_or_correspondence": _e.what, "log": _e.log[-1000:]}, False)

    try:      # container stage: the shape in which the data / uncertainties are handed over does not matter
        _a = C.coq_audit("C05_shaped", SHAPED_THEOREMS, "IT.Properties.C05Shaped")
        rep.obligation(True, len(SHAPED_THEOREMS))
        rep.coverage["shaped_audit"] = _a
    except C.ProofFailure as _e:
        rep.obligation(False, len(SHAPED_THEOREMS))
        rep.violation("C05/proof", f"proof obligation no longer checks: {_e.what}",
                      {"theorem_or_correspondence": _e.what, "log": _e.log[-1000:]}, False)

    cases, outs, goals, owner = [], [], [], {}
    for k in range(n_cases + n_typed + n_shaped):
        typed = n_cases <= k < n_cases + n_typed
        shaped = k >= n_cases + n_typed
        if shaped:
            case = gen_shaped_case(rs, k - n_cases - n_typed, schedule[k - n_cases - n_typed])
        else:
            case = gen_typed_case(rt, k) if typed else gen_case(r, k)
        out = run_impl(case)
        cases.append(case)
        outs.append(out)
        rep.count("class=" + case["cls"])
        rep.count("model=" + case["model"]["kind"])
        rep.count("sigma=" + case["smode"])
        rep.count("residual=" + case["rmode"])
        rep.count(f"n={len(case['y'])}")
        rep.count(f"params={len(case['theta'])}")
        rep.count("data given as=" + case.get("y_kind", "float64"))
        rep.count("uncertainties given as=" + case.get("s_kind", "float64"))
        if typed and family(case["s_kind"]) == "int" and max(case["sigma"]) > 1:
            rep.count("integer uncertainties, some > 1")
        rep.case((case["cls"], case["y"], case["sigma"], case["theta"], case["model"],
                  case.get("y_kind"), case.get("s_kind")), nontrivial=True)
        if shaped:
            y_shape = shape_and_elements(case["y"], case["y_kind"])[0]
            s_shape = shape_and_elements(case["sigma"], case["s_kind"])[0]
            rep.count("data container=" + case["y_kind"].split("/")[0])
            rep.count("uncertainties container=" + case["s_kind"].split("/")[0])
            rep.count("data shape ndim=%d" % len(y_shape))
            if len(case["y"]) > 1 and y_shape[0] == 1:
                rep.count(f"row-like data (leading axis 1) with n > 1, class={case['cls']}")
            if len(case["y"]) > 1 and s_shape and s_shape[0] == 1:
                rep.count("row-like uncertainties (leading axis 1) with n > 1")
            if y_shape != s_shape:
                rep.count("data and uncertainties in containers of different shape")
        if k < 3 or n_cases <= k < n_cases + 3 or n_cases + n_typed <= k < n_cases + n_typed + 3:
            rep.sample({"class": case["cls"], "y": case["y"], "sigma": case["sigma"], "theta": case["theta"],
                        "forward_model": case["model"]["kind"], "data_given_as": case.get("y_kind", "float64"),
                        "uncertainties_given_as": case.get("s_kind", "float64"), "impl": out})
        if out["status"] != "ok":
            rep.violation("C05/exception", f"{CLASSES[case['cls']]} failed on a valid input{given(case)}: "
                          f"{out.get('error')}", {"case": describe(case)}, True)
            continue
        # cost / cost_gradient must be the exact negatives (sign flip is exact in doubles)
        if out["cost"] != -out["value"] or any(a != -b for a, b in zip(out["cgrad"], out["grad"])):
            rep.violation("C05/cost", "cost / cost_gradient is not the exact negative of value / gradient",
                          {"case": describe(case), "impl": out}, True)
        # overflow branch of exp(-z) in the logistic gradient, logaddexp tails
        if case["cls"] == "logistic":
            sc = np.array(case["sigma"]) * (math.sqrt(3) / math.pi)
            z = (np.array(case["y"]) - forward(case["model"], case["theta"])) / sc
            if (z < -709.8).any():
                rep.count("branch=logistic exp(-z) overflows")
            if (z > 709.8).any():
                rep.count("branch=logistic exp(z) overflows in logaddexp")
        for g in (shaped_goals_for(k, case, out) if shaped else
                  typed_goals_for(k, case, out) if typed else goals_for(k, case, out)):
            goals.append(g)
            owner[g[0]] = k

    failed, broken = I.check_goals(PROP, "goals", goals, preamble=PREAMBLE, unfold=UNFOLD,
                                   chunk=40, jobs=14)
    rep.obligation(True, len(goals) - len(failed))
    rep.obligation(False, len(failed))
    rep.coverage["interval_goals"] = len(goals)
    rep.coverage["interval_goals_failed"] = len(failed)
    for b in broken:
        rep.violation("C05/correspondence-run", "a goal file did not run",
                      {"theorem_or_correspondence": "coq/gen/C05 goal file", "log": b}, False)

    # failing-input search
    seen = set()
    value_state = {}      # case index -> True (value is the named density) / False (violation reported) / None

    def examine_value(k):
        if k in value_state:
            return value_state[k]
        case, out = cases[k], outs[k]
        ok = oracle_value(f"{k}", case, out)
        value_state[k] = ok
        if ok is False:
            def fails(c):
                o = run_impl(c)
                return o["status"] == "ok" and oracle_value("shrink", c, o) is False
            small = shrink(case, fails)
            rep.violation("C05/value", f"{CLASSES[case['cls']]}.__call__ is not the sum of the log of the "
                          f"named density (returned {out['value']!r}){given(case)}",
                          {"case": describe(small), "impl": run_impl(small)}, True)
        return ok

    for gid, log in failed:
        k = owner[gid]
        what = gid.split("_", 1)[1]
        group = "value" if what in ("value", "cost") else "gradient"
        if (k, group) in seen or len(seen) >= 4:
            continue
        seen.add((k, group))
        case, out = cases[k], outs[k]
        if what == "accepted":
            rep.violation("C05/correspondence",
                          f"the implementation accepted an input that the model's constructor checks reject "
                          f"(goal {gid}){given(case)}",
                          {"theorem_or_correspondence": f"RealModel.LikelihoodsShaped (base_accepts / nd_wf) vs "
                           f"likelihoods.py, goal {gid}", "case": describe(case), "impl": out, "log": log[-400:]}, False)
            continue
        if what in ("value", "cost"):
            if examine_value(k) is False:
                continue
        else:
            bad = oracle_gradient(case, out)
            if bad:
                j, fd, g = bad[0]
                rep.violation("C05/gradient", f"{CLASSES[case['cls']]}.gradient entry {j} is {g!r} but central "
                              f"differences of the value give {fd!r}{given(case)}",
                              {"case": describe(case), "impl": out}, True)
                continue
            # the gradient agrees with differences of the implementation's own value: is that value the
            # named density at all?  (a chunk of goals stops after 6 failures, so the value goal of this
            # case may not have been evaluated.)  If not, that is the finding -- reported once, with the input.
            if examine_value(k) is False:
                rep.count("gradient disagreement on a case whose value violation is reported")
                seen.add((k, "value"))
                continue
        rep.violation("C05/correspondence",
                      f"model and implementation disagree on {what} (goal {gid}), but the property was not seen to fail",
                      {"theorem_or_correspondence": f"RealModel.Likelihoods ({case['cls']}) vs likelihoods.py, goal {gid}",
                       "case": describe(case), "impl": out, "log": log[-400:]}, False)

    rep.assumptions = [
        "the forward model's predictions and Jacobian are inputs of the model (they are the user's); the "
        "gradient theorem assumes the supplied Jacobian is the true one",
        "Gaussian normalisation (int exp(-x^2/2) = sqrt(2 pi)) is a named classical fact, not proved here",
        "the logistic distribution with scale s has standard deviation s*pi/sqrt(3) (definition of the named distribution)",
        "tolerance of each goal: 1e-9 * (sum of magnitudes of the added terms) + 1e-13 (4e-6 instead of 1e-9 "
        "when the uncertainties are given as a float32 array: numpy then works in single precision)",
        "an element of an integer-dtype input is modelled by its integer, of a float-dtype input by its exact "
        "rational; numpy's `1.0 / a`, `log(a)`, `a * float`, `a - float_array` are taken to be the real "
        "functions of that value (checked on every typed case by the goals themselves)",
        "a container is modelled by the shape numpy.array() reports for it and its elements in row-major order "
        "(read off numpy on every shaped case; the elements are asserted to be the case's numbers); squeeze() "
        "keeps the elements and their order",
    ]
    return rep.finish(
        level="proof",
        checker_cmd="make -C /verif/coq (coqc 8.16.1) + coqc on coq/gen/C05/*.v (coq-interval `interval with (i_prec 90)`)",
        trusted_base=C.KERNEL_TB + [
            "axioms (Coq Reals / Coquelicot): ClassicalDedekindReals.sig_forall_dec, sig_not_dec, "
            "FunctionalExtensionality.functional_extensionality_dep, Classical_Prop.classic",
            "coq-interval (reflexive; primitive 63-bit integers / floats of the kernel)"],
        rule="three likelihood classes round-robin; n 1..6 data points; 1..3 parameters; linear / quadratic forward "
             "models with explicit Jacobians; sigma log-uniform 1e-6..1e6 (common / mixed / all tiny / all huge); "
             "residuals N(0,1.5), 3..40, 100..700 sigma of either or fixed sign, exactly 0, mixed; plus a second "
             "family (48 quick / 480 thorough) whose data / uncertainties reach the constructor as the user typed "
             "them: 70% integer uncertainties (1..9, 1..120, 1..1e6; lists / tuples of Python ints, int8..int64, "
             "uint8..uint64, (n,1) int64, Python int when n = 1), 30% float ones (float64, float list, list mixing "
             "ints and floats, float32, longdouble, (n,1), (1,n), strided view, read-only, Python float when "
             "n = 1), data 40% integers in a dtype that holds them / 60% the float variants; plus a third family "
             "(36 quick / 360 thorough) whose data arrive in a container numpy squeezes to 1-D / 0-D -- per class a "
             "shuffled cycle, row-like ones first: row (1,n), (1,1,n), (1,1,1,n), (1,n,1), img[k:k+1,:], Fortran-ordered "
             "row, (n,1).T, atleast_2d, [[...]], ((...),); then flat, (n,1), (n,1,1), img[:,k:k+1], [[a],[b],...]; 0-d / "
             "(1,1) / Python scalar for half of the n = 1 cases -- n from {2,2,3,3,4,5,6,1}, 1..2 parameters, the "
             "uncertainties in an independently drawn container (flat 6/20), elements float64 / Python float (60-70%) or "
             "int64 / uint8 / Python int; goals through the container-stage model with the shape numpy reports; every "
             "case is non-trivial; distinct = distinct (class, data, sigma, theta, model, representations)")


def replay(path):
    d = json.load(open(path))
    rp = d["replay"]
    if "case" not in rp:
        print("replay names a broken theorem / correspondence:", rp.get("theorem_or_correspondence"))
        return 1
    case = undescribe(rp["case"])
    out = run_impl(case)
    print("implementation returns:", out)
    if out["status"] != "ok":
        return 1
    rc = 0
    ok = oracle_value("replay", case, out)
    print("value equals the textbook density sum (interval):", ok)
    if ok is False:
        rc = 1
    bad = oracle_gradient(case, out)
    print("gradient entries contradicted by central differences:", bad)
    if bad:
        rc = 1
    if out["cost"] != -out["value"] or any(a != -b for a, b in zip(out["cgrad"], out["grad"])):
        print("cost / cost_gradient are not the exact negatives")
        rc = 1
    return rc
