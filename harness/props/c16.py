"""C16 -- GP derivative predictions are the derivatives of the GP prediction.

Theorems: coq/theories/Properties/C16.v (matrix half: Matrix/Derivatives.v at MathComp
matrices, any realFieldType, any sizes) and Properties/C16Analysis.v (analysis half:
RealModel/SeGradient.v, Coquelicot is_derive, any dimension / number of points).

Tie to the code (DESIGN 2.3 + 2.2).  For every generated configuration the real
GpRegressor (SquaredExponential kernel -- the only covariance function implementing
gradient_terms --, each of the three mean functions, d = 1..3, single and batched
queries) is constructed and gradient() / spatial_derivatives() are called.  The
arrays the implementation itself builds (self.K_xx, self.L, self.alpha, K_qx and the
kernel's gradient_terms A, R for each query point) and every output are written as
exact rationals to coq/gen/C16/cases_*.v, where the SAME model text instantiated at
ListOps is evaluated by vm_compute and compared entry by entry inside Coq
(Matrix/DerivativesCheck.v, nine obligations per case, tolerance 1e-7 * scale).
The mean function's spatial gradient is computed BY THE MODEL from the
hyper-parameters, never read from the implementation.  The kernel terms A, R, K_qx
are tied to the formulas the analysis theorems are about by coq-interval goals.

Every case is history-aware: gradient / spatial_derivatives / __call__ are first used with
other hyper-parameters and other query points held in arrays that are then overwritten in
place; the compared calls use those same array objects.

Property oracle (used on every disagreement, and as a second opinion [R] on a slice of
agreeing cases): five-point central differences of the implementation's own __call__
(mean and sigma^2) with an exact dyadic step, tolerance 1e-5 relative; symmetry /
eigenvalues of the gradient covariance; closed form diag(R) - G (K_xx+S)^-1 G^T in
exact rationals.
"""
from __future__ import annotations

import json
import math
import os
import warnings

os.environ.setdefault("OMP_NUM_THREADS", "1")        # tiny matrices: BLAS threads only burn CPU
os.environ.setdefault("OPENBLAS_NUM_THREADS", "1")
from fractions import Fraction

import numpy as np

from lib import common as C
from lib import interval as IV
from lib import matrix as MX

PROP = "C16"
THEOREMS = ["C16_grad_mean_closed", "C16_grad_mean_entry", "C16_grad_cov_closed", "C16_grad_cov_psd",
            "C16_dvar_closed", "C16_closed_model", "C16_mean_function_gradients",
            "C16_grad_cov_pinned_entries", "C16_grad_cov_asym_refuted",
            "C16_grad_mean_pinned_diff", "C16_dmean_linear_refuted",
            "C16_se_cross_derivative", "C16_se_prior_gradient_cov", "C16_mean_function_derivatives",
            "C16_dmean_is_derivative", "C16_dmean_is_derivative_library_means",
            "C16_dvar_is_derivative", "C16_generic_kernel",
            "C16_grad_cov_asym_refuted_witness", "C16_dmean_linear_refuted_witness"]

HEADER = MX.HEADER.format(mods="Matrix.GpModel Matrix.Derivatives Matrix.DerivativesCheck")
N_OBL = 9
OBLIGATION_NAMES = {
    0: "model could not be evaluated (an inverse failed its run-time verification)",
    1: "self.L is not a lower-triangular factor of self.K_xx",
    2: "self.alpha differs from L^-T L^-1 (y - mu)",
    3: "gradient() mean differs from the model (kernel part + derivative of the mean function)",
    4: "gradient() covariance differs from the model diag(R) - Q^T Q",
    5: "spatial_derivatives() mean gradient differs from the model",
    6: "spatial_derivatives() variance gradient differs from the model",
    7: "an output differs from the closed form (G A^-1 (y-mu) + dm/dq, diag(R) - G A^-1 G^T, -2 G A^-1 K_xq)",
    8: "gradient() covariance is not symmetric or a variance is outside [0, R_i]",
    20: "(gradient mean agrees with the PINNED model without the mean-function term, D14)",
    21: "(gradient covariance agrees with the PINNED model R - Q^T Q with R broadcast as a row, D15)",
}
MEANS = ["const", "linear", "quadratic"]
COND_MAX = 1e4
H = Fraction(1, 2 ** 8)            # finite-difference step (exact in double on the 1/64 grid)

PREAMBLE = """From Coq Require Import Reals List.
From Interval Require Import Tactic.
From IT Require Import Model.Slices RealModel.Kernels RealModel.Means RealModel.SeGradient.
Import ListNotations.
Open Scope R_scope.
Ltac kcbv := cbv -[Rplus Rminus Rmult Ropp Rdiv Rinv exp ln pow IZR Rabs Rle].
"""


def GP():
    from inference.gp import GpRegressor
    return GpRegressor


def SE():
    from inference.gp import SquaredExponential
    return SquaredExponential


# ---------------------------------------------------------------- generation
def grid(r, lo, hi, q=64):
    return r.randint(int(lo * q), int(hi * q)) / q


def gen_case(r, k, tier):
    mean = MEANS[k % 3]
    d = [1, 2, 3, 2, 1, 3, 2][(k // 3) % 7]
    n = r.choice([2, 3, 3, 4, 4, 5, 5, 6])
    b = [1, 1, 2, 3, 4][(k // 2) % 5]
    err_kind = ["y_err", "none", "y_err"][(k // 5) % 3]
    while True:
        x = np.array([[grid(r, 0, 4) for _ in range(d)] for _ in range(n)], dtype=float)
        dist = min(np.abs(x[i] - x[j]).max() for i in range(n) for j in range(i))
        if dist >= 0.25:
            break
    y = np.array([grid(r, -3, 3, 256) for _ in range(n)], dtype=float)
    pts = []
    for _ in range(b):
        u = r.random()
        if u < 0.15:
            pts.append(list(x[r.randrange(n)]))            # exactly a training point
        elif u < 0.25:
            pts.append([grid(r, 5, 7) for _ in range(d)])  # outside the data
        else:
            pts.append([grid(r, -0.5, 4.5) for _ in range(d)])
    forms = ["2d", "2d", "list"] + (["1d"] if d == 1 else []) + (["flat"] if b == 1 else [])
    case = {"n": n, "d": d, "b": b, "x": MX.hexlist(x), "y": MX.hexlist(y), "mean": mean,
            "points": MX.hexlist(np.array(pts, dtype=float)), "p_form": r.choice(forms),
            "x_form": r.choice(["2d", "2d", "list"] + (["1d"] if d == 1 else []))}
    e = np.array([grid(r, 0.15, 0.7, 256) for _ in range(n)], dtype=float)
    case["err"] = ({"kind": "none", "values": []} if err_kind == "none"
                   else {"kind": "y_err", "values": MX.hexlist(e)})
    for attempt in range(300):
        lo = 0.4 if attempt < 150 else 0.25
        hp = MX.mean_hyperpars(r, mean, d) + [math.log(r.uniform(0.5, 3.0))] + \
            [math.log(r.uniform(lo, 2.5 if err_kind != "none" else 1.2)) for _ in range(d)]
        case["hyperpars"] = MX.hexlist(hp)
        A = data_cov_float(case)
        if np.all(np.isfinite(A)) and np.linalg.cond(A) <= COND_MAX:
            case["cond"] = float(np.linalg.cond(A))
            return case
        if attempt % 30 == 29:
            x = x * 1.5
            case["x"] = MX.hexlist(x)
            case["points"] = MX.hexlist(np.array(pts, dtype=float) * (1.5 ** ((attempt + 1) // 30)))
    raise RuntimeError("could not condition a case")


def n_mean_params(mean, d):
    return {"const": 1, "linear": 1 + d, "quadratic": 1 + 2 * d}[mean]


def data_cov_float(case):
    n, d = case["n"], case["d"]
    x = MX.unhex(case["x"], (n, d))
    hp = MX.unhex(case["hyperpars"])
    cov = SE()()
    cov.pass_spatial_data(x)
    K = cov.build_covariance(hp[n_mean_params(case["mean"], d):])
    if case["err"]["kind"] == "y_err":
        K = K + np.diag(MX.unhex(case["err"]["values"]) ** 2)
    return K


# ---------------------------------------------------------------- running the code
def build(case):
    n, d = case["n"], case["d"]
    x = MX.unhex(case["x"], (n, d))
    y = MX.unhex(case["y"])
    xin = x.reshape(-1) if case["x_form"] == "1d" else ([row for row in x] if case["x_form"] == "list" else x)
    kw = {}
    if case["err"]["kind"] == "y_err":
        kw["y_err"] = MX.unhex(case["err"]["values"])
    return GP()(xin, y, hyperpars=MX.unhex(case["hyperpars"]), kernel=SE()(), mean=MX.make_mean(case["mean"]), **kw)


def query_arg(case):
    b, d = case["b"], case["d"]
    p = MX.unhex(case["points"], (b, d))
    f = case["p_form"]
    if f == "1d":
        return p.reshape(-1), p
    if f == "flat":                      # a single point given as a 1-D array of its d coordinates
        return p[0].copy(), p
    if f == "list":
        return [list(row) for row in p], p
    return p, p


def run_impl(case):
    out = {"status": "ok"}
    stage = "constructor"
    n, d, b = case["n"], case["d"], case["b"]
    try:
        with warnings.catch_warnings():
            warnings.simplefilter("ignore")
            gp = build(case)
            parg, p = query_arg(case)
            # history: the methods are first used with other hyper-parameters and other query
            # points held in arrays that are then overwritten IN PLACE; the compared calls use
            # those same objects (anything cached by identity / under the caller's array is stale)
            stage = "warm-up calls with other hyper-parameters and query points"
            theta0 = np.array(MX.unhex(case["hyperpars"]), dtype=float)
            buf = theta0 + 0.25
            qwarm = (np.array(parg, dtype=float) + 0.375) if isinstance(parg, np.ndarray) else \
                [[v + 0.375 for v in row] for row in parg]
            try:
                gp.set_hyperparameters(buf)
                gp(qwarm)
                gp.gradient(qwarm)
                gp.spatial_derivatives(qwarm)
            except np.linalg.LinAlgError:
                pass                      # the perturbed values need not be well conditioned
            buf[:] = theta0
            gp.set_hyperparameters(buf)
            if isinstance(parg, np.ndarray):
                qwarm[...] = parg
                parg = qwarm
            stage = "gradient"
            gm, gc = gp.gradient(parg)
            stage = "spatial_derivatives"
            dm, dv = gp.spatial_derivatives(parg)
            if isinstance(parg, np.ndarray) and not np.array_equal(np.asarray(parg).reshape(p.shape), p):
                return {"status": "mutated", "stage": "query points",
                        "error": "gradient()/spatial_derivatives() modified the caller's query array"}
            stage = "reading the kernel terms"
            chp = gp.cov_hyperpars
            gm, gc, dm, dv = (np.asarray(a, dtype=float) for a in (gm, gc, dm, dv))
            want = {"gradient mean": (gm, (b, d)), "gradient covariance": (gc, (b, d, d)),
                    "spatial_derivatives mean": (dm, (b, d)), "spatial_derivatives variance": (dv, (b, d))}
            for name, (a, full) in want.items():
                sq = np.empty(full).squeeze().shape
                if a.shape != sq:
                    return {"status": "shape", "stage": name,
                            "error": f"{name} has shape {a.shape}, expected {sq} (= squeeze of {full})"}
            Kqx, As, Rs = [], [], []
            for q in p:
                Kqx.append(np.array(gp.cov(q[None, :], gp.x, chp), dtype=float).reshape(-1))
                A_, R_ = gp.cov.gradient_terms(q, gp.x, chp)
                As.append(np.array(A_, dtype=float))
                Rs.append(np.array(R_, dtype=float).reshape(-1))
            out.update(gp=gp, p=p,
                       K_xx=np.array(gp.K_xx, dtype=float), L=np.array(gp.L, dtype=float),
                       alpha=np.array(gp.alpha, dtype=float).reshape(-1),
                       y=np.array(gp.y, dtype=float).reshape(-1), mu=np.array(gp.mu, dtype=float).reshape(-1),
                       X=np.array(gp.x, dtype=float), mhp=np.array(gp.mean_hyperpars, dtype=float).reshape(-1),
                       chp=np.array(chp, dtype=float).reshape(-1),
                       Kqx=np.array(Kqx), A=np.array(As), R=np.array(Rs),
                       gmean=gm.reshape(b, d), gcov=gc.reshape(b, d, d),
                       dmu=dm.reshape(b, d), dvar=dv.reshape(b, d))
    except Exception as e:
        return {"status": "exception", "stage": stage, "error": f"{type(e).__name__}: {e}"}
    shapes = {"K_xx": (n, n), "L": (n, n), "alpha": (n,), "X": (n, d), "Kqx": (b, n), "A": (b, d, n), "R": (b, d)}
    for k_, s in shapes.items():
        if out[k_].shape != s:
            return {"status": "shape", "stage": k_, "error": f"{k_} has shape {out[k_].shape}, expected {s}"}
    for k_ in list(shapes) + ["gmean", "gcov", "dmu", "dvar"]:
        if not np.all(np.isfinite(out[k_])):
            return {"status": "nonfinite", "stage": k_, "error": f"{k_} is not finite"}
    return out


def tolerances(case, out):
    n = case["n"]
    amax = max(float(np.abs(out["alpha"]).max()), 1e-6)
    G = out["A"] * out["Kqx"][:, None, :]
    sm = max(n * float(np.abs(G).max()) * amax, float(np.abs(out["mhp"]).max()), 1e-6)
    sc = max(float(np.abs(out["R"]).max()), 1e-6)
    sv = max(n * float(np.abs(G).max()) * float(np.abs(out["Kqx"]).max()) * 4, 1e-6)
    return {"f": 1e-12 * float(np.abs(out["K_xx"]).max()), "a": 1e-7 * amax,
            "m": 1e-7 * sm, "c": 1e-7 * sc, "v": 1e-7 * sv}


# ---------------------------------------------------------------- Coq side
def coq_case(case, out):
    t = tolerances(case, out)
    d = case["d"]
    mhp = out["mhp"]
    kind = {"const": "MConst", "linear": "MLinear", "quadratic": "MQuadratic"}[case["mean"]]
    th_lin = mhp[1:1 + d] if case["mean"] != "const" else []
    th_quad = mhp[1 + d:1 + 2 * d] if case["mean"] == "quadratic" else []
    pts = []
    for i in range(case["b"]):
        f = [("p_q", MX.qvec(out["p"][i])), ("p_Kqx", MX.qvec(out["Kqx"][i])),
             ("p_A", MX.qmat(out["A"][i])), ("p_R", MX.qvec(out["R"][i])),
             ("o_gmean", MX.qvec(out["gmean"][i])), ("o_gcov", MX.qmat(out["gcov"][i])),
             ("o_dmu", MX.qvec(out["dmu"][i])), ("o_dvar", MX.qvec(out["dvar"][i]))]
        pts.append("{| " + "; ".join(f"{k} := {v}" for k, v in f) + " |}")
    f = [("c_n", C.cnat(case["n"])), ("c_d", C.cnat(d)),
         ("c_Adata", MX.qmat(out["K_xx"])), ("c_L", MX.qmat(out["L"])), ("c_alpha", MX.qvec(out["alpha"])),
         ("c_y", MX.qvec(out["y"])), ("c_mu", MX.qvec(out["mu"])), ("c_X", MX.qmat(out["X"])),
         ("c_mkind", kind), ("c_th_lin", MX.qvec(th_lin)), ("c_th_quad", MX.qvec(th_quad)),
         ("c_points", "[" + ";\n     ".join(pts) + "]"),
         ("t_f", MX.qtol(t["f"])), ("t_a", MX.qtol(t["a"])), ("t_m", MX.qtol(t["m"])),
         ("t_c", MX.qtol(t["c"])), ("t_v", MX.qtol(t["v"]))]
    return "{| " + ";\n   ".join(f"{k} := {v}" for k, v in f) + " |}"


def rlist(a):
    return "[" + "; ".join(C.cR(v) for v in np.asarray(a, dtype=float).reshape(-1)) + "]"


def kernel_goals(k, case, out, r, budget):
    """coq-interval goals tying gradient_terms and K_qx to RealModel/SeGradient.v, Kernels.v."""
    goals = []
    d, n, b = case["d"], case["n"], case["b"]
    th = rlist(out["chp"])
    for _ in range(budget):
        pi, i, j = r.randrange(b), r.randrange(d), r.randrange(n)
        q, xj = rlist(out["p"][pi]), rlist(out["X"][j])
        a_obs, k_obs, r_obs = out["A"][pi, i, j], out["Kqx"][pi, j], out["R"][pi, i]
        sa = max(float(np.abs(out["A"][pi]).max()), 1e-6)
        goals.append((f"c{k}_A_{len(goals)}",
                      IV.goal_abs_close(f"se_A {th} {xj} {q} {i}", a_obs,
                                        IV.tolerance(a_obs, 1e-9, 0) + Fraction(1, 10 ** 11) * C.frac(sa)),
                      {"case": k, "kind": "A", "point": pi, "i": i, "j": j}))
        goals.append((f"c{k}_R_{len(goals)}",
                      IV.goal_abs_close(f"se_R {th} {i}", r_obs, IV.tolerance(r_obs, 1e-9, 0)),
                      {"case": k, "kind": "R", "point": pi, "i": i}))
        goals.append((f"c{k}_K_{len(goals)}",
                      IV.goal_abs_close(f"se_val {d} {th} {q} {xj}", k_obs,
                                        IV.tolerance(k_obs, 1e-9, 0) + Fraction(1, 10 ** 11) * C.frac(out["R"][pi].max())),
                      {"case": k, "kind": "K_qx", "point": pi, "j": j}))
    return goals


# ---------------------------------------------------------------- the property, independently
def call_at(gp, q):
    m, s = gp(q[None, :])
    return float(np.asarray(m).reshape(-1)[0]), float(np.asarray(s).reshape(-1)[0]) ** 2


def central(gp, q, i, h):
    """five-point central differences of the implementation's own __call__ (mean, sigma^2)"""
    e = np.zeros_like(q)
    e[i] = h
    f1p, f1m, f2p, f2m = call_at(gp, q + e), call_at(gp, q - e), call_at(gp, q + 2 * e), call_at(gp, q - 2 * e)
    return tuple((8 * (f1p[c] - f1m[c]) - (f2p[c] - f2m[c])) / (12 * h) for c in (0, 1))


def exact_grad_cov(out, pi):
    A = MX.fmat(out["K_xx"])
    G = [[C.frac(out["A"][pi, i, j]) * C.frac(out["Kqx"][pi, j]) for j in range(out["A"].shape[2])]
         for i in range(out["A"].shape[1])]
    E = MX.f_mul(G, MX.f_solve(A, MX.f_tr(G)))
    d = len(G)
    return [[(C.frac(out["R"][pi, i]) if i == j else Fraction(0)) - E[i][j] for j in range(d)] for i in range(d)]


def oracle(case, out):
    """Evaluate C16 itself on the implementation; list of (key, message)."""
    bad = []
    gp, p = out["gp"], out["p"]
    h = float(H)
    d = case["d"]
    t = tolerances(case, out)
    for pi in range(case["b"]):
        q = p[pi]
        # on a training point with no noise the variance is ~0 and sqrt(abs()) is not smooth: skip the variance there
        s2 = call_at(gp, q)[1]
        for i in range(d):
            cm, cv = central(gp, q, i, h)
            scale_m = max(abs(cm), 1e3 * t["m"] / 1e-4, 1e-3)
            for name, val in (("gradient()", out["gmean"][pi, i]), ("spatial_derivatives()", out["dmu"][pi, i])):
                if abs(val - cm) > 1e-5 * scale_m:
                    bad.append(("C16/mean-gradient",
                                f"{name} mean gradient component {i} at q={q.tolist()} is {val!r} but the central "
                                f"difference of __call__ is {cm!r} ({case['mean']} mean, d={d})"))
            scale_v = max(abs(cv), float(np.abs(out["R"][pi]).max()) * 1e-1, 1e-3)
            if s2 > 1e-6 * float(np.abs(out["R"][pi]).max() + 1) and abs(out["dvar"][pi, i] - cv) > 1e-5 * scale_v:
                bad.append(("C16/variance-gradient",
                            f"spatial_derivatives() variance gradient component {i} at q={q.tolist()} is "
                            f"{out['dvar'][pi, i]!r} but the central difference of sigma^2 is {cv!r}"))
        S = out["gcov"][pi]
        tc = t["c"]
        if float(np.abs(S - S.T).max()) > tc:
            bad.append(("C16/gradient-covariance",
                        f"gradient() covariance at q={q.tolist()} is not symmetric: {S.tolist()}"))
        else:
            ev = np.linalg.eigvalsh((S + S.T) / 2)
            if ev.min() < -10 * tc:
                bad.append(("C16/gradient-covariance",
                            f"gradient() covariance at q={q.tolist()} has eigenvalue {ev.min()!r} < 0"))
        want = exact_grad_cov(out, pi)
        dmax = MX.f_max_abs_diff(want, S)
        if dmax > Fraction(tc):
            bad.append(("C16/gradient-covariance",
                        f"gradient() covariance at q={q.tolist()} differs from diag(R) - G (K_xx+S)^-1 G^T "
                        f"by {float(dmax):.3e}"))
    return bad


# ---------------------------------------------------------------- driver
def describe(case):
    return {k: case.get(k) for k in ("n", "d", "b", "x", "y", "points", "mean", "hyperpars", "err",
                                     "x_form", "p_form")}


def classify(key, fo):
    if key == "C16/mean-gradient" and 20 in fo:
        return "C16/D14/mean-function-gradient"
    if key == "C16/gradient-covariance" and 21 in fo:
        return "C16/D15/gradient-covariance-broadcast"
    return key


def shrink_case(case, key):
    """Smaller replay: one query point, fewest training points that still fail."""
    best = case
    b, d = case["b"], case["d"]
    p = MX.unhex(case["points"], (b, d))
    for pi in range(b):
        c2 = dict(case, b=1, points=MX.hexlist(p[pi:pi + 1]), p_form="2d")
        o2 = run_impl(c2)
        if o2["status"] == "ok" and any(k == key for k, _ in oracle(c2, o2)):
            best = c2
            break
    return best


def run(rep: C.Report, tier: str) -> int:
    r = C.rng_for(PROP, "cases")
    n_cases = 90 if tier == "quick" else 900
    C.clean_gen(PROP)
    C.prove_and_audit(rep, PROP, THEOREMS)

    cases, outs = [], []
    for k in range(n_cases):
        case = gen_case(r, k, tier)
        out = run_impl(case)
        cases.append(case)
        outs.append(out)
        rep.count(f"n={case['n']}")
        rep.count(f"d={case['d']}")
        rep.count(f"query_points={case['b']}")
        rep.count("mean=" + case["mean"])
        rep.count("errors=" + case["err"]["kind"])
        rep.count("points_as=" + case["p_form"])
        rep.count("cond<=1e%d" % max(0, math.ceil(math.log10(case["cond"]))))
        rep.case(describe(case), nontrivial=True)
        if k < 3:
            rep.sample({"config": {kk: case[kk] for kk in ("n", "d", "b", "mean", "p_form")},
                        "cond": case["cond"], "impl_gradient_mean": out.get("gmean"),
                        "impl_dvar": out.get("dvar")})

    suspicious, obligation_fail = {}, {}
    ok_idx = [k for k, o in enumerate(outs) if o["status"] == "ok"]
    for k, o in enumerate(outs):
        if o["status"] != "ok":
            suspicious[k] = f"{o['status']} in {o['stage']}: {o['error']}"

    # ---- correspondence inside Coq (vm_compute on ListOps)
    weight = lambda k: cases[k]["n"] ** 4 + cases[k]["b"] * cases[k]["n"] ** 2 * cases[k]["d"] * 8
    order = sorted(ok_idx, key=lambda k: -weight(k))
    nfiles = max(1, min(len(order), 14 if tier == "quick" else 56))
    buckets, loads = [[] for _ in range(nfiles)], [0] * nfiles
    for k in order:
        j = loads.index(min(loads))
        buckets[j].append(k)
        loads[j] += weight(k)
    files, index = [], []
    for j, bucket in enumerate(buckets):
        if not bucket:
            continue
        body = ("Definition cases : list dq_case :=\n [" +
                ";\n  ".join(coq_case(cases[k], outs[k]) for k in bucket) + "].")
        files.append(C.write_case_file(PROP, f"cases_{j}", HEADER, body, ["failing_dq cases"]))
        index.append(bucket)

    # ---- kernel terms: coq-interval goals
    rg = C.rng_for(PROP, "goals")
    goals, meta = [], {}
    for k in ok_idx:
        for gid, stmt, m in kernel_goals(k, cases[k], outs[k], rg, 1 if tier == "quick" else 3):
            goals.append((gid, stmt, None))
            meta[gid] = m

    from concurrent.futures import ThreadPoolExecutor
    with ThreadPoolExecutor(max_workers=2) as ex:
        fut_cases = ex.submit(C.run_case_files, files, 12, 1500)
        fut_goals = ex.submit(IV.check_goals, PROP, "goals", goals, PREAMBLE, "kcbv;",
                              max(20, len(goals) // 4 + 1), 4, 900)
        results = fut_cases.result()
        failed, broken = fut_goals.result()

    n_checked = 0
    for pth, idx, (ok, res, log) in zip(files, index, results):
        if not ok or 0 not in res:
            rep.obligation(False, N_OBL * len(idx))
            rep.violation("C16/correspondence-run", f"case file {pth.name} did not evaluate",
                          {"theorem_or_correspondence": f"correspondence file {pth.name}", "log": log}, False)
            continue
        fails = MX.decode_failures(res[0])
        for j, k in enumerate(idx):
            fo = fails.get(j, [])
            real = [o for o in fo if o < 20]
            rep.obligation(True, N_OBL - len(real))
            if real:
                rep.obligation(False, len(real))
                obligation_fail[k] = fo
                suspicious[k] = "; ".join(OBLIGATION_NAMES[o] for o in fo)
        n_checked += len(idx)
    rep.obligation(True, len(goals) - len(failed))
    rep.obligation(False, len(failed))
    for br in broken:
        rep.obligation(False)
        rep.violation("C16/correspondence-run", "a goal file could not be processed",
                      {"theorem_or_correspondence": "coq/gen/C16/goals_*.v", "log": br[-1500:]}, False)
    for gid, log in failed:
        m = meta[gid]
        suspicious[m["case"]] = (suspicious.get(m["case"], "") +
                                 f"; kernel term {m['kind']} differs from RealModel/SeGradient.v ({m})").lstrip("; ")
    rep.coverage["cases_validated_against_impl"] = n_checked
    rep.coverage["kernel_term_goals"] = len(goals)
    rep.coverage["kernel_term_goals_failed"] = len(failed)
    rep.coverage["correspondence_disagreements"] = len(suspicious)
    rep.coverage["obligations_per_case"] = OBLIGATION_NAMES

    # ---- failing-input search on every disagreement
    reported = set()
    for k in sorted(suspicious):
        case, out = cases[k], outs[k]
        if out["status"] != "ok":
            if "C16/exception" not in reported:
                reported.add("C16/exception")
                rep.violation("C16/exception", f"gradient()/spatial_derivatives() failed on a valid input ({suspicious[k]})",
                              {"case": describe(case), "impl": {k2: out[k2] for k2 in ("status", "stage", "error")}}, True)
            continue
        bad = oracle(case, out)
        fo = obligation_fail.get(k, [])
        if bad:
            for key, what in bad:
                key2 = classify(key, fo)
                if key2 in reported:
                    continue
                reported.add(key2)
                small = shrink_case(case, key)
                so = run_impl(small)
                sb = [w for kk, w in oracle(small, so) if kk == key] if so["status"] == "ok" else []
                use, msg = (small, sb[0]) if sb else (case, what)
                rep.violation(key2, msg, {"case": describe(use), "failing_obligations": fo,
                                          "model_obligations": [OBLIGATION_NAMES[o] for o in fo]}, True)
        elif len(reported) < 6 and ("corr", suspicious[k]) not in reported:
            reported.add(("corr", suspicious[k]))
            rep.violation("C16/correspondence",
                          "implementation and model disagree (" + suspicious[k] +
                          "), but the property was not seen to fail on this input",
                          {"theorem_or_correspondence": "Matrix.DerivativesCheck.check_dq / coq-interval kernel-term goals",
                           "failing_obligations": fo, "case": describe(case)}, False)

    # ---- second opinion [R]: the property oracle on a slice of the agreeing cases
    n_or = 0
    for k in ok_idx[::3 if tier == "quick" else 2]:
        if k in suspicious:
            continue
        n_or += 1
        for key, what in oracle(cases[k], outs[k]):
            if key not in reported:
                reported.add(key)
                rep.violation(key, what, {"case": describe(cases[k])}, True)
    rep.coverage["oracle_runs_on_agreeing_cases"] = n_or

    rep.assumptions = [
        "SciPy/LAPACK cholesky and solve_triangular are exact in the theorems (L L^T = K_xx+S, L invertible); the run "
        "checks L L^T = self.K_xx to 1e-12*max|A| on the implementation's own factor and compares every output to "
        "1e-7*scale; inputs are conditioned (cond <= 1e4)",
        "the matrix theorems (any real field) and the analysis theorems (Coq reals) meet in the entry-wise sums "
        "C16_grad_mean_entry / C16_dvar_closed = grad_mean_R / dvar_R; that the two finite sums are the same "
        "expression is by inspection (no formal bridge between MathComp's \\sum over 'I_n and the list sum over R)",
        "kernel VALUES K_qx and the kernel's gradient_terms A, R are inputs of the matrix model; they are tied to "
        "se_val / se_A / se_R by coq-interval goals at sampled entries (1e-9 relative)",
        "only SquaredExponential implements gradient_terms; for another kernel C16_generic_kernel states what its "
        "terms must satisfy",
        "positive semi-definiteness of the gradient covariance is proved under the joint-PSD hypothesis "
        "(C16_grad_cov_psd); that the squared-exponential joint (value, gradient) covariance is PSD is classical and "
        "not proved; eigenvalues are tested at run time [R]",
        "ListOps (list-of-Q instance, verified Bareiss inverse) implements the same algebra as the MathComp instance: "
        "not proved, see DESIGN 2.3",
    ]
    return rep.finish(
        level="proof",
        checker_cmd="make -C /verif/coq (coqc 8.16.1, full .vo) + coqc on coq/gen/C16/cases_*.v (vm_compute) and "
                    "goals_*.v (coq-interval)",
        trusted_base=C.KERNEL_TB + [
            "axioms: matrix half closed under the global context; analysis half: Coq Reals + Coquelicot "
            "(ClassicalDedekindReals.sig_forall_dec, sig_not_dec, functional_extensionality_dep, Classical_Prop.classic); "
            "executed witnesses: Uint63 primitives (Bignums in ListOps.qinv)",
            "coq-interval reflexive interval evaluator (kernel-term goals)",
            "Matrix/ListOps.v (executable matrix instance; inverse verified at run time)"],
        rule="configurations walk mean (const, linear, quadratic) x d (1..3) x number of query points (1..4) x errors "
             "(y_err, none); SquaredExponential kernel; n 2..6; query points: training points, interior, outside; points "
             "given as 2-D array, list, 1-D array (d=1) or a single flat point; hyper-parameters resampled until "
             "cond(K_xx+S) <= 1e4; every case non-trivial; distinct = distinct configurations")


def replay(path):
    d = json.load(open(path))
    rp = d["replay"]
    if "case" not in rp:
        print("replay names a broken theorem / correspondence:", rp.get("theorem_or_correspondence"))
        return 1
    case = rp["case"]
    case.setdefault("cond", 0.0)
    out = run_impl(case)
    if out["status"] != "ok":
        print("implementation fails:", {k: out[k] for k in ("status", "stage", "error")})
        return 1
    bad = oracle(case, out)
    print("gradient():", out["gmean"].tolist(), out["gcov"].tolist())
    print("spatial_derivatives():", out["dmu"].tolist(), out["dvar"].tolist())
    print("property failures:", [w for _, w in bad])
    return 1 if bad else 0
