"""C09 -- a saved sampler reloads to an equivalent sampler that can continue.

Three ties to the code, all re-established on every run:
 1. TRANSLATOR (harness/translate/saveload.py): the field lists of save()/load()/
    the constructors/the methods a reloaded sampler must support are extracted
    from the current source and the inclusion lemmas load_complete / save_ready /
    keys_available are re-proved in Coq (coq/gen/C09/Fields_<Class>.v).
 2. CONTINUATION CORRESPONDENCE: a scripted run of the real sampler is cut at a
    crash point, saved, reloaded, given the continuation of the same random
    tape, and every transition of the RELOADED object is replayed through
    Model/Samplers.v inside Coq -- the model never saved.
 3. PROPERTY ORACLE on the implementation: a never-saved twin (deep copy, same
    generator state) continues side by side; samples, log-probabilities,
    lengths, bounds, tuning state and all read-outs must coincide exactly.
Theorems: Properties/C09.v (decode . encode = id on a key/value store, missing
keys are errors, continuation corollary, injectivity sweep of the rendered
parameter keys).
"""
from __future__ import annotations

import copy
import os
import re
import tempfile
import warnings

import numpy as np

from lib import common as C
from lib import samplers as S
from lib import sampler_cases as SC

PROP = "C09"
THEOREMS = ["C09_decode_encode", "C09_missing_key_is_error", "C09_continue_after_reload",
            "C09_param_keys_injective_40"]
KINDS = ["gibbs", "pca", "hmc", "ensemble"]
CLASS_OF = {"gibbs": "GibbsChain", "pca": "PcaChain", "hmc": "HamiltonianChain", "ensemble": "EnsembleSampler"}


def cls_of(kind):
    from inference.mcmc.gibbs import GibbsChain
    from inference.mcmc.pca import PcaChain
    from inference.mcmc.hmc import HamiltonianChain
    from inference.mcmc.ensemble import EnsembleSampler
    return {"gibbs": GibbsChain, "pca": PcaChain, "hmc": HamiltonianChain, "ensemble": EnsembleSampler}[kind]


def step(ch, kind, n=1):
    with S.quiet():
        for _ in range(n):
            if kind == "ensemble":
                ch.advance(1)
            else:
                ch.take_step()


def save_load(ch, kind, post, tmpdir, tag):
    fn = os.path.join(tmpdir, f"{tag}.npz")
    ch.save(fn)
    if kind == "hmc":
        return cls_of(kind).load(fn, posterior=post, grad=post.gradient)
    return cls_of(kind).load(fn, posterior=post)


def attach(ch, kind, rng):
    if kind in ("gibbs", "pca"):
        S.attach_rng(ch, rng)
    else:
        ch.rng = rng


def readouts(ch, kind):
    """Everything a user can read back, as plain comparable data."""
    out = {}
    burn = 0
    with warnings.catch_warnings():
        warnings.simplefilter("ignore")
        out["chain_length"] = int(ch.chain_length)
        out["n_parameters"] = int(ch.n_parameters)
        empty = kind == "ensemble" and ch.sample is None
        if not empty:
            out["sample"] = np.asarray(ch.get_sample(burn=burn)).tolist()
            out["probs"] = np.asarray(ch.get_probabilities(burn=burn)).tolist()
            out["param0"] = np.atleast_1d(ch.get_parameter(0, burn=burn)).tolist()
            out["mode"] = np.atleast_1d(ch.mode()).tolist()
        b = getattr(ch, "bounds", None)
        out["bounds"] = None if b is None else [np.asarray(b.lower).tolist(), np.asarray(b.upper).tolist()]
        if kind in ("gibbs", "pca"):
            out["inv_temp"] = float(ch.inv_temp)
            out["params"] = [[float(p.sigma), int(p.try_count), float(p.avg), float(p.var), float(p.num),
                              int(p.chk_int), bool(p.bounded), bool(p.non_negative), float(p.lower), float(p.upper),
                              [float(v) for v in p.sigma_values], [float(v) for v in p.sigma_checks],
                              getattr(p.proposal, "__name__", "?")] for p in ch.params]
        if kind == "pca":
            out["dirs"] = [np.asarray(v).tolist() for v in ch.directions]
            out["pca"] = [int(ch.dir_update_interval), int(ch.last_update), int(ch.next_update),
                          float(ch.dir_growth_factor)]
            out["covar"] = np.asarray(ch.covar).tolist() if hasattr(ch, "covar") else None
        if kind == "hmc":
            out["inv_temp"] = float(ch.inv_temp)
            out["eps"] = [float(ch.ES.epsilon), float(ch.ES.avg), float(ch.ES.var), float(ch.ES.num),
                          int(ch.ES.chk_int), [float(v) for v in ch.ES.epsilon_values]]
            out["steps"] = int(ch.steps)
            out["leaps"] = [int(v) for v in ch.leapfrog_steps]
            out["inv_mass"] = np.asarray(ch.mass.inv_mass).tolist()
        if kind == "ensemble":
            out["walkers"] = np.asarray(ch.walker_positions).tolist()
            out["walker_probs"] = np.asarray(ch.walker_probs).tolist()
            out["misc"] = [int(ch.n_iterations), int(ch.n_walkers), float(ch.alpha), int(ch.max_attempts),
                           [int(v) for v in ch.failed_updates], [list(map(int, v)) for v in ch.total_proposals]]
    return out


SKIP_ATTRS = {"rng", "posterior", "grad", "ProgressPrinter"}


def state_dump(o, depth=0):
    """Every attribute of the sampler (recursively through Parameter / EpsilonSelector / Bounds / mass
    objects), normalised so that list vs array and int vs float of equal value compare equal; callables
    are represented by their name (the selected proposal / leapfrog / bounds map is state)."""
    if o is None or isinstance(o, (bool, str)):
        return o
    if isinstance(o, (int, float, np.integer, np.floating)):
        return float(o)
    if isinstance(o, np.ndarray):
        return state_dump(o.tolist(), depth)
    if isinstance(o, (list, tuple)):
        return [state_dump(v, depth) for v in o]
    if isinstance(o, dict):
        return {str(k): state_dump(v, depth) for k, v in o.items()}
    if callable(o) and not hasattr(o, "__dict__") or hasattr(o, "__func__"):
        return "<callable %s>" % getattr(o, "__name__", type(o).__name__)
    if hasattr(o, "__dict__") and depth < 3:
        out = {"__class__": type(o).__name__}
        for k, v in vars(o).items():
            if k in SKIP_ATTRS:
                continue
            out[k] = state_dump(v, depth + 1)
        return out
    return "<%s>" % type(o).__name__


def state_diff(a, b, path=""):
    """path of the first difference between two state dumps, or None"""
    if isinstance(a, dict) and isinstance(b, dict):
        for k in sorted(set(a) | set(b)):
            if k not in a or k not in b:
                return f"{path}.{k} (present on one side only)"
            d = state_diff(a[k], b[k], f"{path}.{k}")
            if d:
                return d
        return None
    if isinstance(a, list) and isinstance(b, list):
        if len(a) != len(b):
            return f"{path} (length {len(a)} vs {len(b)})"
        for i, (x, y) in enumerate(zip(a, b)):
            d = state_diff(x, y, f"{path}[{i}]")
            if d:
                return d
        return None
    if isinstance(a, float) and isinstance(b, float) and a != a and b != b:
        return None
    return None if a == b else f"{path} ({a!r} vs {b!r})"


def first_diff(a, b):
    for k in a:
        if k not in b or a[k] != b[k]:
            return k
    for k in b:
        if k not in a:
            return k
    return None


def scenario(rep, r, kind, cfg, k1, k2, frozen, tmpdir, tag):
    """Returns (coq terms, failures).  failures: list of strings (property visibly fails)."""
    fails, terms = [], []
    ch, post, rng, fn = SC.build(cfg)
    if not frozen:      # live adaptation: restore the defaults the constructor chose
        if kind in ("gibbs", "pca"):
            for p in ch.params:
                p.chk_int = 100
            if kind == "pca":
                ch.next_update = 100
        if kind == "hmc":
            ch.ES.chk_int = 15
    try:
        step(ch, kind, k1)
    except Exception:
        rep.count("original_run_failed_before_saving(not a C09 matter)")
        return terms, []
    twin = copy.deepcopy(ch)                 # never saved, same generator state
    rng_saved = copy.deepcopy(rng)
    try:
        loaded = save_load(ch, kind, post, tmpdir, tag)
    except Exception as e:
        return terms, [f"save()/load() after {k1} steps raised {e!r}"]
    attach(loaded, kind, rng_saved)
    d = first_diff(readouts(twin, kind), readouts(loaded, kind))
    if d is not None:
        fails.append(f"reloaded sampler reports a different `{d}` than the original (saved after {k1} steps)")
    sd = state_diff(state_dump(twin), state_dump(loaded))
    if sd is not None:
        fails.append(f"state of the reloaded sampler differs from the original at `{sd}` (saved after {k1} steps)")
    # continuation: reloaded object vs model (frozen, exact) and vs the twin (always)
    try:
        if frozen:
            m_e = len(post.evals)
            post_l = loaded.posterior
            if kind in ("gibbs",):
                recs = S.record_gibbs_like(loaded, post_l, rng_saved, k2, "gibbs")
            elif kind == "pca":
                recs = S.record_pca(loaded, post_l, rng_saved, k2)
            elif kind == "hmc":
                recs = S.record_hmc(loaded, post_l, rng_saved, k2)
            else:
                recs = S.record_ensemble(loaded, post_l, rng_saved, min(k2, 3))
            terms = SC.coq_terms(cfg, recs)
            step(twin, kind, len(recs))
        else:
            step(loaded, kind, k2)
            step(twin, kind, k2)
        # a reloaded sampler also supports advance(), read-outs and saving again
        with S.quiet():
            loaded.advance(2)
            twin.advance(2)
        again = save_load(loaded, kind, post, tmpdir, tag + "_again")
        d2 = first_diff(readouts(loaded, kind), readouts(again, kind))
        if d2 is not None:
            fails.append(f"saving and loading the reloaded sampler changes `{d2}`")
    except Exception as e:
        fails.append(f"the reloaded sampler (saved after {k1} steps) cannot continue: {e!r}")
        return terms, fails
    d = first_diff(readouts(twin, kind), readouts(loaded, kind))
    if d is not None:
        fails.append(f"continuation of the reloaded sampler differs from the never-saved twin in `{d}` "
                     f"(saved after {k1} steps, continued {k2} steps)")
    return terms, fails


def run_translator(rep):
    from translate import saveload as T
    try:
        result = T.analyse(C.REPO)
        files = T.emit(result, C.GEN / PROP)
    except T.TranslationError as e:
        rep.obligation(False)
        rep.violation("C09/translator", f"the save/load translator no longer understands the source: {e}",
                      {"theorem_or_correspondence": "harness/translate/saveload.py"}, False)
        return
    except Exception as e:
        rep.obligation(False)
        rep.violation("C09/translator", f"the save/load translator failed: {e!r}",
                      {"theorem_or_correspondence": "harness/translate/saveload.py"}, False)
        return
    for p in files:
        rc, out, dt = C.sh(["timeout", "300", "coqc"] + C.COQFLAGS + [str(p)], timeout=330)
        cls = p.stem.replace("Fields_", "")
        rep.count("generated_field_lemmas", 3)
        if rc == 0:
            rep.obligation(True, 3)
            continue
        rep.obligation(False, 3)
        miss = re.findall(r"(missing_after_load|missing_for_save|keys_not_saved)\s*=\s*(\[.*?\])", out, re.S)
        detail = "; ".join(f"{a}={' '.join(b.split())}" for a, b in miss if b.strip() != "[]")
        rep.violation(f"C09/fields/{cls}",
                      f"{cls}: generated lemma no longer holds ({detail or out[-300:]})",
                      {"theorem_or_correspondence": f"coq/gen/C09/{p.name}: load_complete / save_ready / keys_available",
                       "detail": detail}, False)
    rep.coverage["translator_fields"] = {c: {k: len(v) for k, v in r.items()} for c, r in result.items()}


def run(rep: C.Report, tier: str) -> int:
    r = C.rng_for(PROP, "cases")
    C.clean_gen(PROP)
    C.prove_and_audit(rep, PROP, THEOREMS)
    run_translator(rep)

    n_cfg = 3 if tier == "quick" else 12
    frozen_points = [0, 1, 5]
    live_points = {"gibbs": [0, 3, 60, 130], "pca": [0, 2, 99, 100, 101, 130], "hmc": [0, 4, 14, 15, 16, 40],
                   "ensemble": [0, 1, 3]}
    terms, owners, seen_fail = [], [], set()
    with tempfile.TemporaryDirectory(prefix="verif-c09-") as tmpdir:
        for kind in KINDS:
            for ci in range(n_cfg):
                cfg = SC.make_config(r, kind)
                rep.count("sampler=" + kind)
                points = [(k, True) for k in frozen_points] + \
                         [(k, False) for k in (live_points[kind] if tier == "thorough" or ci == 0 else live_points[kind][:3])]
                for k1, frozen in points:
                    tag = f"{kind}_{ci}_{k1}_{int(frozen)}"
                    rep.count("crash_point=" + ("start" if k1 == 0 else "early" if k1 < 10 else "around/after adaptation"))
                    rep.count("adaptation=" + ("frozen(model-checked)" if frozen else "live(twin-checked)"))
                    try:
                        with warnings.catch_warnings():
                            warnings.simplefilter("ignore")
                            ts, fails = scenario(rep, r, kind, cfg, k1, 4 if frozen else 25, frozen, tmpdir, tag)
                    except Exception as e:
                        ts, fails = [], [f"scenario raised {e!r}"]
                    rep.case((SC.describe(cfg), k1, frozen))
                    terms += ts
                    owners += [(kind, SC.describe(cfg), k1)] * len(ts)
                    if len(rep.samples) < 3:
                        rep.sample({"sampler": kind, "config": SC.describe(cfg), "saved_after_steps": k1,
                                    "adaptation_frozen": frozen})
                    for f in fails:
                        key = f"C09/{kind}/" + re.sub(r"\d+", "N", f)[:60]
                        if key in seen_fail:
                            continue
                        seen_fail.add(key)
                        rep.violation(f"C09/continuation/{kind}", f"{CLASS_OF[kind]}: {f}",
                                      {"case": SC.describe(cfg), "saved_after_steps": k1, "adaptation_frozen": frozen}, True)

    codes, broken = S.run_code_cases(PROP, "reloaded", terms)
    for b in broken:
        rep.obligation(False)
        rep.violation("C09/correspondence-run", "a generated case file did not evaluate",
                      {"theorem_or_correspondence": "coq/gen/C09 case file", "log": b}, False)
    rep.obligation(True, max(1, (len(terms) + 59) // 60) - len(broken))
    rep.coverage["traces_validated_against_impl"] = sum(1 for c in codes if c == 0)
    flagged = set()
    for (kind, d, k1), code in zip(owners, codes):
        if code in (1, 3) and kind not in flagged:
            flagged.add(kind)
            rep.violation(f"C09/correspondence/{kind}",
                          f"{CLASS_OF[kind]}: a transition of the RELOADED sampler (saved after {k1} steps) is not a "
                          "transition of the model that never saved",
                          {"theorem_or_correspondence": f"Model.Samplers check on the reloaded {kind} sampler",
                           "case": d, "saved_after_steps": k1}, False)

    rep.assumptions = [
        "numpy.savez / numpy.load round-trip arrays and scalars (modelled as a key -> value store)",
        "the reloaded sampler is given the generator state of the moment of saving (the property's premise)",
        "plotting calls of a reloaded sampler are not exercised in the quick tier",
    ]
    return rep.finish(
        level="proof",
        checker_cmd="make -C /verif/coq + coqc on coq/gen/C09/Fields_*.v (regenerated by the AST translator) and "
                    "coq/gen/C09/reloaded_*.v (vm_compute)",
        trusted_base=C.KERNEL_TB + ["axioms: none", "harness/translate/saveload.py (fail-closed AST translator)"],
        rule="4 sampler classes x random configurations (bounds, constraints, mass kinds, temperatures) x crash points "
             "(before any step, early, just before / at / after the first width, step-size or direction update, later); "
             "distinct = distinct (configuration, crash point, adaptation mode)")


def replay(path):
    import json
    d = json.load(open(path))
    rp = d["replay"]
    if "case" not in rp:
        print("replay names:", rp.get("theorem_or_correspondence"))
        return 1
    cfg = SC.undescribe(rp["case"])
    rep = C.Report(PROP, "quick")
    with tempfile.TemporaryDirectory(prefix="verif-c09-") as tmpdir, warnings.catch_warnings():
        warnings.simplefilter("ignore")
        ts, fails = scenario(rep, None, cfg["kind"], cfg, rp.get("saved_after_steps", 0),
                             4 if rp.get("adaptation_frozen", True) else 25, rp.get("adaptation_frozen", True),
                             tmpdir, "replay")
    print("property failures:", fails)
    return 1 if fails else 0
