"""C13 -- sample_hdi returns the shortest interval holding the requested fraction.

Theorems: coq/theories/Properties/C13.v about Model/Hdi.v (for every sample, every
L).  Tie to the code: exact correspondence -- the real sample_hdi is run on
integer / dyadic samples and its output is compared, inside Coq, with the
model's (no tolerance).  What the model takes as an input (L = int(f*n), a float
product) is checked exactly on the Python side, as is "the caller's array is not
modified".  If the correspondence breaks, the property itself is evaluated on
the implementation by brute force to look for a failing input.

Storage formats (round 4): a second family of cases hands sample_hdi the SAME kind
of samples as blocks of memory with a NumPy descriptor -- every integer width
(int8..int64, uint8..uint64) and float width (float16/32/64, longdouble), little and
big endian, C / Fortran / strided / reversed (negative stride) / 0-stride broadcast /
unaligned / read-only layouts and an ndarray subclass.  For these the raw buffer,
offset, strides and dtype go to Coq, where Model/HdiStorage.v decodes the items from
the bytes (two's complement, IEEE-754 via Flocq) and runs the model with the widths in
the machine arithmetic the code uses after its widening step; theorems in
Properties/C13Storage.v (decode/encode round trip, widening => no wrap => ideal model,
independence of the storage format, refutation of native-width arithmetic).
"""
from __future__ import annotations

import math
import warnings
from fractions import Fraction

import numpy as np

from lib import common as C

PROP = "C13"
THEOREMS = ["C13_endpoints_in_sample", "C13_coverage", "C13_fraction", "C13_optimal",
            "C13_fallback", "C13_permutation", "C13_affine", "C13_columns"]

STORAGE_THEOREMS = ["C13_storage_roundtrip", "C13_storage_unaddressed", "C13_machine_exact",
                    "C13_pinned_exact_below_2p63", "C13_pinned_int64_span_refuted",
                    "C13_storage_values", "C13_storage_independent", "C13_native_arithmetic_refuted"]

HEADER = """From Coq Require Import List ZArith.
From IT Require Import Model.Hdi.
Import ListNotations.
Open Scope Z_scope.
"""

HEADER_STORAGE = """From Coq Require Import List ZArith.
From IT Require Import Model.Hdi Model.HdiStorage.
Import ListNotations.
Open Scope Z_scope.
"""


def impl():
    from inference.pdf.hdi import sample_hdi
    return sample_hdi


# ---------------------------------------------------------------- generation
def gen_column(r, n, kind):
    """A list of Fractions (dyadic) of length n."""
    if kind == "ties":
        k = r.randint(1, max(1, n // 2))
        vals = [Fraction(r.randint(-20, 20)) for _ in range(k)]
        return [r.choice(vals) for _ in range(n)]
    if kind == "ints":
        return [Fraction(r.randint(-1000, 1000)) for _ in range(n)]
    if kind == "dyadic":
        return [C.dyadic(r, 10, r.choice([0, 0, -8, 12])) for _ in range(n)]
    if kind == "outliers":
        xs = [Fraction(r.randint(-50, 50), 4) for _ in range(n)]
        for _ in range(r.randint(1, 3)):
            xs[r.randrange(n)] = Fraction(r.choice([-1, 1]) * r.randint(10 ** 4, 10 ** 9))
        return xs
    if kind == "bimodal":
        return [Fraction(r.randint(0, 30) + r.choice([0, 1000]), 2) for _ in range(n)]
    if kind == "constant":
        return [Fraction(7, 2)] * n
    if kind == "doubles":     # arbitrary doubles (53-bit mantissas): lo + (hi - lo) is NOT exact for these
        xs = [Fraction(r.uniform(-50.0, 50.0)) for _ in range(n)]
        if r.random() < 0.4:
            xs[r.randrange(n)] = Fraction(r.choice([-1e16, 1e16, 3.3e12, -7.7e9]))
        return xs
    if kind == "counts":      # non-negative integers (detector counts, pixel values): unsigned dtypes apply
        return [Fraction(r.randint(0, r.choice([12, 250, 60000]))) for _ in range(n)]
    if kind == "wide8":       # spans almost the whole int8 range: differences overflow int8
        return [Fraction(r.randint(-120, 120)) for _ in range(n)]
    if kind == "wide16":
        return [Fraction(r.randint(-32000, 32000)) for _ in range(n)]
    raise ValueError(kind)


KINDS = ["ties", "ints", "dyadic", "outliers", "bimodal", "constant", "wide8", "wide16", "doubles", "doubles", "counts", "counts"]


def gen_fraction(r, n):
    mode = r.choice(["uniform", "uniform", "near_int", "exact_ratio", "extreme"])
    if mode == "uniform":
        f = r.uniform(0.01, 0.99)
    elif mode == "near_int":
        k = r.randint(1, n - 1) if n > 1 else 1
        f = k / n
        f = math.nextafter(f, r.choice([0.0, 1.0])) if r.random() < 0.7 else f
        for _ in range(r.randint(0, 3)):
            f = math.nextafter(f, r.choice([0.0, 1.0]))
    elif mode == "exact_ratio":
        f = r.choice([0.5, 0.25, 0.75, 0.125, 0.875, 0.9375])
    else:
        f = r.choice([1e-9, 1 - 2.0 ** -53, 0.999999, 2.0 ** -30, 0.95, 0.6827])
    if not 0.0 < f < 1.0:
        f = 0.5
    return f


def make_input(cols, container, dtype, storage=None):
    """Build what is handed to sample_hdi: 1-D if one column, else 2-D (m, n_cols)."""
    if storage is not None:
        return build_storage(cols, storage)["array"]
    n = len(cols[0])
    if dtype != "float":
        conv = int
    else:
        conv = float
    if len(cols) == 1:
        data = [conv(x) for x in cols[0]]
    else:
        data = [[conv(cols[c][i]) for c in range(len(cols))] for i in range(n)]
    if container == "list":
        return data
    if container == "tuple":
        return tuple(tuple(row) if isinstance(row, list) else row for row in data)
    return np.array(data, dtype={"int": np.int64, "float": np.float64}.get(dtype) or np.dtype(dtype))


def gen_case(r, tier):
    big = (tier == "thorough")
    u = r.random()
    if u < 0.55:
        n = r.randint(2, 12)
    elif u < 0.9:
        n = r.randint(13, 60)
    else:
        n = r.randint(61, 800 if big else 300)
    ncols = 1 if r.random() < 0.6 else r.randint(2, 4)
    kinds = [r.choice(KINDS) for _ in range(ncols)]
    cols = [gen_column(r, n, k) for k in kinds]
    all_int = all(x.denominator == 1 for c in cols for x in c)
    dtype = "int" if all_int and r.random() < 0.5 else "float"
    container = r.choice(["ndarray", "ndarray", "list", "tuple"])
    if dtype == "int" and container == "ndarray" and (r.random() < 0.6 or any(k.startswith("wide") for k in kinds)):
        # "any dtype accepted": narrow and unsigned integer arrays whose values fit (their
        # differences need not fit: int8 100 - (-100))
        lo_v = min(int(x) for c in cols for x in c)
        hi_v = max(int(x) for c in cols for x in c)
        fits = [t for t in ("int8", "int16", "int32", "uint8", "uint16", "uint32", "uint64")
                if np.iinfo(t).min <= lo_v and hi_v <= np.iinfo(t).max]
        if fits:
            dtype = fits[0] if any(k.startswith("wide") for k in kinds) else r.choice(fits)
    f = gen_fraction(r, n)
    return {"cols": cols, "kinds": kinds, "n": n, "fraction": f, "dtype": dtype,
            "container": container}



# ---------------------------------------------------------------- storage formats
class Tagged(np.ndarray):
    """a plain ndarray subclass (np.matrix and masked arrays are not samples sample_hdi accepts)"""


INT_CODES = ["i1", "i2", "i4", "i8", "u1", "u2", "u4", "u8"]
FLOAT_CODES = ["f2", "f4", "f8", "g"]
# significand bits available for the values of a float sample: the values are m * 2^e with
# |m| < 2^(p-1), so every pairwise difference is representable and the code's subtraction is exact
FLOAT_BITS = {"f2": 11, "f4": 24, "f8": 53, "g": 53}
FLOAT_EXP = {"f2": (-4, 4), "f4": (-20, 20), "f8": (-30, 30), "g": (-30, 30)}
LAYOUTS = ["C", "F", "strided", "reversed", "broadcast", "readonly", "unaligned", "subclass"]


def storage_dtype(code, order):
    dt = np.dtype(code)
    return dt.newbyteorder(order) if dt.itemsize > 1 else dt


def storage_combos():
    out = []
    for code in INT_CODES + FLOAT_CODES:
        for order in ("<", ">") if np.dtype(code).itemsize > 1 else ("|",):
            for lay in LAYOUTS:
                out.append((code, order, lay))
    return out


def int_range(code):
    """values used for an integer dtype: its whole range; for the 64-bit types +-2^53, so that the
    float64 result array holds the end points exactly (gen_storage_column also draws 64-bit samples
    from the whole range on a coarser grid)"""
    ii = np.iinfo(code)
    return max(int(ii.min), -(2 ** 53)), min(int(ii.max), 2 ** 53)


def gen_storage_column(r, n, code, kind):
    if code in ("i8", "u8") and kind in ("fullrange", "two_ends", "cluster_ends") and r.random() < 0.6:
        # the whole range of the 64-bit types, on the grid of multiples of 2^11 (every such value is a
        # float64, so the float64 result array holds the end points exactly); an int64 sample may
        # span 2^63 or more here
        ii = np.iinfo(code)
        glo, ghi = -(-int(ii.min) >> 11), int(ii.max) >> 11
        gspan = ghi - glo
        if kind == "fullrange":
            g = [r.randint(glo, ghi) for _ in range(n)]
        elif kind == "two_ends":
            g = [r.choice([r.randint(glo, glo + gspan // 16), r.randint(ghi - gspan // 16, ghi)]) for _ in range(n)]
        else:
            c = r.randint(glo, ghi)
            w = r.choice([3, 40, gspan // 1000])
            k = r.randint(max(1, n // 4), max(1, (2 * n) // 3))
            g = [min(ghi, max(glo, c + r.randint(-w, w))) for _ in range(k)]
            while len(g) < n:
                g.append(r.choice([r.randint(glo, glo + gspan // 8), r.randint(ghi - gspan // 8, ghi)]))
            r.shuffle(g)
        return [Fraction(v << 11) for v in g]
    if code in INT_CODES:
        lo, hi = int_range(code)
        span = hi - lo
        if kind == "fullrange":
            return [Fraction(r.randint(lo, hi)) for _ in range(n)]
        if kind == "cluster_ends":     # a tight group somewhere, the rest towards both ends of the range
            c = r.randint(lo, hi)
            w = r.choice([3, 40, max(3, span // 1000)])
            k = r.randint(max(1, n // 4), max(1, (2 * n) // 3))
            xs = [Fraction(min(hi, max(lo, c + r.randint(-w, w)))) for _ in range(k)]
            while len(xs) < n:
                xs.append(Fraction(r.choice([r.randint(lo, lo + span // 8), r.randint(hi - span // 8, hi)])))
            r.shuffle(xs)
            return xs
        if kind == "two_ends":
            return [Fraction(r.choice([r.randint(lo, lo + span // 16), r.randint(hi - span // 16, hi)]))
                    for _ in range(n)]
        if kind == "ties":
            vals = [Fraction(r.randint(lo, hi)) for _ in range(r.randint(1, max(1, n // 2)))]
            return [r.choice(vals) for _ in range(n)]
        if kind == "small":
            return [Fraction(r.randint(max(lo, -100), min(hi, 100))) for _ in range(n)]
        raise ValueError(kind)
    p = FLOAT_BITS[code]
    e = r.randint(*FLOAT_EXP[code])
    mb = min(p - 1, 40)
    top = (1 << mb) - 1
    sc = Fraction(2) ** e
    if kind == "cluster_ends":
        c = r.randint(-top, top)
        k = r.randint(max(1, n // 4), max(1, (2 * n) // 3))
        xs = [Fraction(min(top, max(-top, c + r.randint(-5, 5)))) * sc for _ in range(k)]
        while len(xs) < n:
            xs.append(Fraction(r.choice([r.randint(-top, -top + top // 8), r.randint(top - top // 8, top)])) * sc)
        r.shuffle(xs)
        return xs
    if kind == "ties":
        vals = [Fraction(r.randint(-top, top)) * sc for _ in range(r.randint(1, max(1, n // 2)))]
        return [r.choice(vals) for _ in range(n)]
    if kind == "small":
        return [Fraction(r.randint(-100, 100)) * sc for _ in range(n)]
    return [Fraction(r.randint(-top, top)) * sc for _ in range(n)]      # fullrange / two_ends


STORAGE_KINDS = ["fullrange", "fullrange", "cluster_ends", "cluster_ends", "cluster_ends", "two_ends",
                 "ties", "small"]


def gen_storage_case(r, tier, combo):
    code, order, layout = combo
    u = r.random()
    if u < 0.6:
        n = r.randint(2, 12)
    elif u < 0.93:
        n = r.randint(13, 40)
    else:
        n = r.randint(41, 150 if tier == "thorough" else 90)
    ncols = r.randint(2, 4) if (layout == "F" or r.random() < (0.85 if layout == "broadcast" else 0.4)) else 1
    bvariant = None
    kinds = [r.choice(STORAGE_KINDS) for _ in range(ncols)]
    cols = [gen_storage_column(r, n, code, k) for k in kinds]
    if layout == "broadcast":
        if ncols == 1:
            bvariant = "const1d"            # np.broadcast_to(scalar, (n,)): one item, stride 0
            cols = [[cols[0][0]] * n]
        elif r.random() < 0.75:
            bvariant = "same_cols"          # np.broadcast_to(col[:, None], (n, c)): stride 0 along axis 1
            cols = [list(cols[0]) for _ in range(ncols)]
        else:
            bvariant = "const_cols"         # np.broadcast_to(row[None, :], (n, c)): stride 0 along axis 0
            cols = [[c[0]] * n for c in cols]
    storage = {"code": code, "order": order, "layout": layout, "bvariant": bvariant,
               "step0": r.choice([2, 3]), "step1": r.choice([1, 2]), "off_items": r.randint(0, 3),
               "rev1": r.random() < 0.4, "odd": r.choice([1, 3, 5]), "fill": r.randrange(1 << 30),
               "readonly": layout == "readonly" or r.random() < 0.12,
               "subclass": layout == "subclass" or r.random() < 0.12}
    return {"cols": cols, "kinds": kinds, "n": n, "fraction": gen_fraction(r, n),
            "dtype": storage_dtype(code, order).str, "container": "ndarray", "storage": storage}


def build_storage(cols, st):
    """The sample as a block of memory + descriptor.  Returns dict(array, raw (bytes of the whole
    buffer), offset, strides (bytes; 1-D samples have strides (s0,)), dt)."""
    import random as _random
    dt = storage_dtype(st["code"], st["order"])
    z = dt.itemsize
    n, c = len(cols[0]), len(cols)
    two_d = c > 1
    layout = st["layout"]
    identical = all(col == cols[0] for col in cols)
    constant = all(len(set(col)) == 1 for col in cols)
    bv = st.get("bvariant")
    if layout == "broadcast":       # derived cases (a single column, a shrunk sample) keep what still applies
        if bv == "same_cols" and not (two_d and identical):
            layout = "C"
        elif bv in ("const_cols", "const1d") and not constant:
            layout = "C"
        elif bv == "const_cols" and not two_d:
            bv = "const1d"
        elif bv == "const1d" and two_d:
            bv = "const_cols"
    if layout == "F" and not two_d:
        layout = "C"
    off = 0
    if layout in ("C", "readonly", "subclass", "unaligned"):
        s0, s1 = c * z, z
        if layout == "unaligned":
            off = st["odd"]
    elif layout == "F":
        s0, s1 = z, n * z
    elif layout == "strided":
        a, b = st["step0"], (st["step1"] if two_d else 1)
        s1 = b * z
        s0 = a * c * b * z
        off = st["off_items"] * z
    elif layout == "reversed":
        s0, s1 = -c * z, z
        off = (n - 1) * c * z
        if two_d and st["rev1"]:
            s1 = -z
            off += (c - 1) * z
    elif layout == "broadcast":
        off = st["off_items"] * z
        if bv == "same_cols":
            s0, s1 = z, 0
        else:                       # const_cols / const1d
            s0, s1 = 0, z
    else:
        raise ValueError(layout)
    # extent of the buffer
    ends = [off + i * s0 + j * s1 for i in (0, n - 1) for j in (0, c - 1)]
    assert min(ends) >= 0
    nbytes = max(ends) + z + _random.Random(st["fill"]).randint(0, 2 * z)
    g = _random.Random(st["fill"] + 1)
    buf = bytearray(g.getrandbits(8) for _ in range(nbytes))
    strides = (s0, s1) if two_d else (s0,)
    shape = (n, c) if two_d else (n,)
    isint = dt.kind in "iu"
    conv = (lambda x: int(x)) if isint else (lambda x: float(x))

    def put(view_shape, view_strides, values):
        v = np.ndarray(view_shape, dtype=dt, buffer=buf, offset=off, strides=view_strides)
        v[...] = np.array(values, dtype=(dt.newbyteorder("=") if isint else np.float64))

    if layout == "broadcast" and bv == "same_cols":
        put((n,), (s0,), [conv(x) for x in cols[0]])
    elif layout == "broadcast":
        put((c,), (s1,), [conv(col[0]) for col in cols])
    elif two_d:
        put(shape, strides, [[conv(cols[j][i]) for j in range(c)] for i in range(n)])
    else:
        put(shape, strides, [conv(x) for x in cols[0]])
    raw = bytes(buf)
    arr = np.ndarray(shape, dtype=dt, buffer=(raw if st["readonly"] else buf), offset=off, strides=strides)
    # the array must hold exactly the intended values (no rounding / wrapping while storing them)
    back = arr.astype(np.longdouble if dt.kind == "f" else object)
    for j in range(c):
        for i in range(n):
            got = back[i, j] if two_d else back[i]
            got = Fraction(int(got)) if isint else Fraction(*float(got).as_integer_ratio())
            assert got == cols[j][i], ("storing the sample changed a value", st, cols[j][i], got)
    if st["subclass"]:
        arr = arr.view(Tagged)
    return {"array": arr, "raw": raw, "buf": (raw if st["readonly"] else buf), "offset": off,
            "strides": (s0, s1), "dt": dt, "layout": layout}


def coq_case_storage(case, L, obs, den):
    """(buffer, (kind, size, order), (offset, rows, cols, stride0, stride1), k, L, observed)"""
    b = build_storage(case["cols"], case["storage"])
    dt = b["dt"]
    kd = {"i": 0, "u": 1, "f": 2}[dt.kind]
    big = dt.byteorder == ">" or (dt.byteorder == "=" and not np.little_endian)
    k = den.bit_length() - 1
    assert den == 1 << k
    if kd != 2:
        assert den == 1
    n, c = case["n"], len(case["cols"])
    s0, s1 = b["strides"]
    os_ = C.clist([f"({C.cz(o[0] * den)}, {C.cz(o[1] * den)})" for o in obs])
    raw = b["raw"]
    mem = C.clist([hex(int.from_bytes(raw[i:i + 32], "little")) for i in range(0, len(raw), 32)])
    return (f"({mem}, ({kd}, {dt.itemsize}, {1 if big else 0}), "
            f"({C.cz(b['offset'])}, {C.cnat(n)}, {C.cnat(c)}, {C.cz(s0)}, {C.cz(s1)}), {C.cz(k)}, {C.cnat(L)}, {os_})")


# ---------------------------------------------------------------- running the code
def run_impl(case):
    """Returns dict(status, out (list of (lo,hi) Fractions per column), modified)."""
    sample_hdi = impl()
    built = None
    if case.get("storage") is not None:
        built = build_storage(case["cols"], case["storage"])
        x = built["array"]
    else:
        x = make_input(case["cols"], case["container"], case["dtype"])
    before = x.copy() if isinstance(x, np.ndarray) else None
    desc = (x.shape, x.strides, x.dtype, x.flags.writeable, type(x)) if isinstance(x, np.ndarray) else None
    try:
        with warnings.catch_warnings():
            warnings.simplefilter("ignore")
            out = sample_hdi(x, case["fraction"])
    except Exception as e:  # the pinned code accepts every generated input
        return {"status": "exception", "error": repr(e)}
    modified = False
    if before is not None:
        modified = (before.shape != x.shape) or not np.array_equal(before, x) or before.dtype != x.dtype
        modified = modified or desc != (x.shape, x.strides, x.dtype, x.flags.writeable, type(x))
        if built is not None:       # the whole base buffer, gaps of a strided view included
            modified = modified or bytes(built["buf"]) != built["raw"]
    out = np.asarray(out, dtype=float)
    ncols = len(case["cols"])
    try:
        if ncols == 1:
            if out.shape != (2,):
                return {"status": "shape", "error": f"shape {out.shape} for 1-D input"}
            res = [(C.frac(out[0]), C.frac(out[1]))]
        else:
            if out.shape != (2, ncols):
                return {"status": "shape", "error": f"shape {out.shape} for {ncols} columns"}
            res = [(C.frac(out[0, c]), C.frac(out[1, c])) for c in range(ncols)]
    except ValueError as e:
        return {"status": "nonfinite", "error": repr(e)}
    return {"status": "ok", "out": res, "modified": modified}


def code_L(case):
    """L exactly as hdi.py computes it; and the exact-arithmetic facts the
    coverage theorem needs (floor(f n) <= L)."""
    n = case["n"]
    L = int(case["fraction"] * n)
    exact = math.floor(Fraction(case["fraction"]) * n)
    return L, exact


def scale_of(case, res):
    den = 1
    for c in case["cols"]:
        for x in c:
            den = max(den, x.denominator)
    return den


# ---------------------------------------------------------------- the property, by brute force
def oracle(case, res):
    """Evaluate C13 itself on the implementation's answer.  Returns a list of
    (what) strings; empty when the property holds on this input."""
    bad = []
    f = Fraction(case["fraction"])
    n = case["n"]
    for ci, (col, (lo, hi)) in enumerate(zip(case["cols"], res)):
        s = sorted(col)
        if lo not in s or hi not in s:
            bad.append(f"column {ci}: end points ({lo},{hi}) are not sample values")
            continue
        cnt = sum(1 for x in s if lo <= x <= hi)
        if Fraction(cnt) < f * n:
            bad.append(f"column {ci}: interval holds {cnt} of {n} points < fraction {float(f)}")
        if cnt == 0 or lo > hi:
            bad.append(f"column {ci}: the reported interval ({lo}, {hi}) is empty")
            continue
        # no interval between two sample values containing as many points is shorter
        best = None
        j = 0
        # sliding window over sorted values: smallest width with >= cnt points
        for i in range(0, n - cnt + 1):
            w = s[i + cnt - 1] - s[i]
            if best is None or w < best:
                best = w
        if best is not None and best < hi - lo:
            bad.append(f"column {ci}: width {hi - lo} but an interval of width {best} holds as many ({cnt}) points")
    return bad


def metamorphic(case, res, r):
    """permutation / affine / column-independence / no-modification on the code."""
    bad = []
    # permutation
    perm = list(range(case["n"]))
    r.shuffle(perm)
    c2 = dict(case, cols=[[col[i] for i in perm] for col in case["cols"]])
    o2 = run_impl(c2)
    if o2["status"] != "ok" or o2["out"] != res:
        bad.append("result changes when the sample is reordered")
    # positive affine map with dyadic coefficients (exact in double for our ranges)
    a = Fraction(r.choice([2, 3, 8]), r.choice([1, 2, 4]))
    b = Fraction(r.randint(-64, 64), 2)
    big = max(abs(x) for col in case["cols"] for x in col)
    few_bits = all(x.denominator <= 2 ** 16 for col in case["cols"] for x in col)   # a*x + b exact in double
    if big < 2 ** 20 and case["dtype"] == "float" and few_bits:
        c3 = dict(case, cols=[[a * x + b for x in col] for col in case["cols"]])
        o3 = run_impl(c3)
        want = [(a * lo + b, a * hi + b) for lo, hi in res]
        if o3["status"] != "ok" or o3["out"] != want:
            bad.append(f"not covariant under x -> {a}*x + {b}")
    # "lists and arrays": the storage format of the sample does not matter
    if case.get("storage") is not None:
        isint = np.dtype(case["dtype"]).kind in "iu"
        o4 = run_impl(dict(case, storage=None, container="list", dtype="int" if isint else "float"))
        if o4["status"] != "ok" or o4["out"] != res:
            bad.append(f"the {case['dtype']} array gives {[(str(a), str(b)) for a, b in res]} but the same values as a "
                       f"list give {[(str(a), str(b)) for a, b in o4.get('out', [])] or o4.get('error')}")
    # each column equals the 1-D call
    if len(case["cols"]) > 1:
        for ci, col in enumerate(case["cols"]):
            o1 = run_impl(dict(case, cols=[col]))
            if o1["status"] != "ok" or o1["out"][0] != res[ci]:
                bad.append(f"column {ci} differs from the 1-D call on that column")
    return bad


# ---------------------------------------------------------------- Coq side
def coq_case_1d(col, L, obs, den):
    xs = C.clist([C.cz(x * den) for x in col])
    return f"({xs}, {C.cnat(L)}, ({C.cz(obs[0] * den)}, {C.cz(obs[1] * den)}))"


def coq_case_2d(cols, L, obs, den):
    cs = C.clist([C.clist([C.cz(x * den) for x in col]) for col in cols])
    os_ = C.clist([f"({C.cz(o[0] * den)}, {C.cz(o[1] * den)})" for o in obs])
    return f"({cs}, {C.cnat(L)}, {os_})"


def run(rep: C.Report, tier: str) -> int:
    r = C.rng_for(PROP, "cases")
    n_cases = 600 if tier == "quick" else 6000
    C.clean_gen(PROP)
    C.prove_and_audit(rep, PROP, THEOREMS)
    # storage-level model (Model/HdiStorage.v, Properties/C13Storage.v): audited while the cases are generated
    from concurrent.futures import ThreadPoolExecutor
    audit_pool = ThreadPoolExecutor(max_workers=1)
    storage_audit = audit_pool.submit(C.coq_audit, PROP + "_storage", STORAGE_THEOREMS, "IT.Properties.C13Storage")

    cases, results = [], []
    for k in range(n_cases):
        case = gen_case(r, tier)
        out = run_impl(case)
        cases.append(case)
        results.append(out)
        rep.count(f"n<={10 ** len(str(case['n']))}")
        rep.count("cols=" + str(len(case["cols"])))
        rep.count("container=" + case["container"] + "/" + case["dtype"])
        for kd in case["kinds"]:
            rep.count("kind=" + kd)
        rep.case((case["cols"], case["fraction"], case["container"], case["dtype"]),
                 nontrivial=len(set(case["cols"][0])) > 1)
        if k < 3:
            rep.sample({"sample_columns": [[float(x) for x in c[:12]] for c in case["cols"]],
                        "n": case["n"], "fraction": case["fraction"],
                        "container": case["container"], "dtype": case["dtype"],
                        "impl_output": out.get("out")})

    # the same kind of samples in every storage format: each (dtype, byte order, layout) combination
    # occurs at least once per run, the rest is drawn at random
    rst = C.rng_for(PROP, "storage")
    combos = storage_combos()
    reps = 1 if tier == "quick" else 8
    plan = [cb for _ in range(reps) for cb in combos]
    plan += [rst.choice(combos) for _ in range(64 if tier == "quick" else 640)]
    rst.shuffle(plan)
    for k, combo in enumerate(plan):
        case = gen_storage_case(rst, tier, combo)
        try:
            out = run_impl(case)
        except AssertionError as e:      # the harness could not even store the sample: a bug of the check
            rep.violation("C13/harness", f"storage case could not be built: {e}", {"case": describe(case)}, False)
            continue
        cases.append(case)
        results.append(out)
        st = case["storage"]
        rep.count(f"n<={10 ** len(str(case['n']))}")
        rep.count("cols=" + str(len(case["cols"])))
        rep.count("container=ndarray/" + case["dtype"])
        rep.count("storage-layout=" + st["layout"] + ("/" + st["bvariant"] if st["bvariant"] else ""))
        rep.count("storage-byteorder=" + st["order"])
        if st["readonly"]:
            rep.count("storage-readonly")
        if st["subclass"]:
            rep.count("storage-subclass")
        for kd in case["kinds"]:
            rep.count("storage-kind=" + kd)
        rep.case((case["cols"], case["fraction"], "storage", case["dtype"], sorted(st.items(), key=str)),
                 nontrivial=len(set(case["cols"][0])) > 1)
        if k < 2:
            b = build_storage(case["cols"], st)
            rep.sample({"sample_columns": [[float(x) for x in c[:12]] for c in case["cols"]],
                        "n": case["n"], "fraction": case["fraction"], "dtype": case["dtype"],
                        "layout": b["layout"], "offset": b["offset"], "strides": list(b["array"].strides),
                        "writeable": bool(b["array"].flags.writeable), "type": type(b["array"]).__name__,
                        "impl_output": out.get("out")})

    try:
        info = storage_audit.result()
        rep.obligation(True, len(STORAGE_THEOREMS))
        rep.coverage["storage_audit"] = info
    except C.ProofFailure as e:
        rep.obligation(False, len(STORAGE_THEOREMS))
        rep.violation("C13/proof", f"proof obligation no longer checks: {e.what}",
                      {"theorem_or_correspondence": e.what, "log": e.log[-1500:]}, False)
    audit_pool.shutdown()

    # Python-side exact facts (inputs of the model / not expressible in it)
    suspicious = []     # indices that need the failing-input search
    one_d, two_d = [], []   # (case index, coq text)
    stor = []               # storage cases: decoded from the bytes inside Coq
    for k, (case, out) in enumerate(zip(cases, results)):
        L, exact = code_L(case)
        if not (exact <= L <= exact + 1):
            rep.violation("C13/L", f"int(fraction*n) = {L} but floor(fraction*n) = {exact}",
                          {"n": case["n"], "fraction": case["fraction"]}, True)
        rep.count("branch=" + ("fallback" if L >= case["n"] else "window"))
        if out["status"] != "ok":
            suspicious.append(k)
            continue
        if out["modified"]:
            rep.violation("C13/modified", "sample_hdi modified the caller's array",
                          {"case": describe(case)}, True)
        den = scale_of(case, out["out"])
        if any((v * den).denominator != 1 for o in out["out"] for v in o):
            suspicious.append(k)     # output is not even on the sample's dyadic grid
            continue
        if case.get("storage") is not None and case["storage"]["code"] != "g":
            stor.append((k, coq_case_storage(case, L, out["out"], den)))
        elif len(case["cols"]) == 1:
            one_d.append((k, coq_case_1d(case["cols"][0], L, out["out"][0], den)))
        else:
            two_d.append((k, coq_case_2d(case["cols"], L, out["out"], den)))

    # correspondence inside Coq
    files, index = [], []
    for kind, lst, typ, chk, CH in (("oned", one_d, "list (list Z * nat * (Z * Z))", "check_case", 150),
                                    ("twod", two_d, "list (list (list Z) * nat * list (Z * Z))", "check_case2", 60)):
        for i in range(0, len(lst), CH):
            chunk = lst[i:i + CH]
            body = "Definition cases : " + typ + " :=\n " + C.clist([t for _, t in chunk], ";\n ") + "."
            p = C.write_case_file(PROP, f"cases_{kind}_{i // CH}", HEADER, body,
                                  [f"failing {chk} cases 0"])
            files.append(p)
            index.append([k for k, _ in chunk])
    n_plain_files = len(files)
    CHS = 40
    for i in range(0, len(stor), CHS):
        chunk = stor[i:i + CHS]
        body = "Definition cases : list storage_case :=\n " + C.clist([t for _, t in chunk], ";\n ") + "."
        p = C.write_case_file(PROP, f"cases_storage_{i // CHS}", HEADER_STORAGE, body,
                              ["failing check_storage cases 0", "failing check_storage_native cases 0",
                               "failing check_storage_pinned cases 0"])
        files.append(p)
        index.append([k for k, _ in chunk])
    outs = C.run_case_files(files, jobs=12)
    n_checked = 0
    native_like = set()     # disagreeing storage cases that the model WITHOUT the widening reproduces
    pinned_like = set()     # ... that the model with signed int64 widths (the code before D53) reproduces
    for fi, (p, idx, (ok, res, log)) in enumerate(zip(files, index, outs)):
        if fi >= n_plain_files and ok and 0 in res and 1 in res and 2 in res:
            native_like.update(idx[j] for j in res[0] if j not in res[1])
            pinned_like.update(idx[j] for j in res[0] if j not in res[2])
        if not ok or 0 not in res:
            rep.obligation(False)
            rep.violation("C13/correspondence-run", f"case file {p.name} did not evaluate",
                          {"theorem_or_correspondence": f"correspondence file {p.name}", "log": log}, False)
            continue
        rep.obligation(True)
        n_checked += len(idx)
        for j in res[0]:
            suspicious.append(idx[j])
    rep.coverage["traces_validated_against_impl"] = n_checked
    rep.coverage["correspondence_disagreements"] = len(suspicious)

    # failing-input search on every disagreement
    rs = C.rng_for(PROP, "search")
    for k in sorted(set(suspicious))[:20]:
        case, out = cases[k], results[k]
        if out["status"] != "ok":
            rep.violation("C13/exception", f"sample_hdi failed on a valid input: {out.get('error')}",
                          {"case": describe(case)}, True)
            continue
        bad = oracle(case, out["out"]) + metamorphic(case, out["out"], rs)
        if bad:
            small = shrink(case, rs)
            so = run_impl(small)
            sbad = oracle(small, so["out"]) if so["status"] == "ok" else [so.get("error")]
            what = "; ".join((sbad or bad)[:3])
            if case.get("storage") is not None:
                b = build_storage(case["cols"], case["storage"])
                what += (f" [sample stored as {case['dtype']} {type(b['array']).__name__}, layout {b['layout']}, "
                         f"strides {b['array'].strides}, writeable={b['array'].flags.writeable}")
                if k in pinned_like:
                    what += ("; the output is what Model.HdiStorage gives with the int64 widths compared as signed "
                             "numbers (arith_pinned, cf. C13_pinned_int64_span_refuted, defect D53): a width of 2^63 "
                             "or more wrapped around")
                elif k in native_like:
                    what += ("; the output is what Model.HdiStorage gives with the widths computed in the sample's "
                             "own integer type (arith_native, cf. C13_native_arithmetic_refuted): the widening to "
                             "int64 did not happen for this storage format")
                what += "]"
            rep.violation("C13/property", what,
                          {"case": describe(small if sbad else case), "impl_output": so.get("out")}, True)
        else:
            rep.violation("C13/correspondence",
                          "implementation and model disagree, but the property was not seen to fail on this input",
                          {"theorem_or_correspondence": ("Model.HdiStorage.check_storage" if case.get("storage") is not None
                                                         else "Model.Hdi.check_case") + " (correspondence with sample_hdi)",
                           "case": describe(case), "impl_output": out["out"]}, False)

    # the property oracle also runs on a slice of agreeing cases (cheap second opinion, [R])
    for k in range(0, len(cases), 7 if tier == "quick" else 3):
        if results[k]["status"] == "ok" and k not in suspicious:
            bad = oracle(cases[k], results[k]["out"]) + metamorphic(cases[k], results[k]["out"], rs)
            if bad:
                rep.violation("C13/property", "; ".join(bad[:3]), {"case": describe(cases[k])}, True)

    rep.assumptions = [
        "L = int(fraction*n) is an input of the model; floor(fraction*n) <= L is checked exactly per case",
        "NumPy sort / argmin / take_along_axis semantics are modelled (mergesort, first minimum)",
        "samples are dyadic rationals scaled to integers; covariance under scaling is theorem C13_affine",
        "storage cases: the items are decoded from the raw buffer inside Coq (two's complement; IEEE-754 binary16/32/64 "
        "through Flocq's binary_float_of_bits_aux); float samples are generated so that every pairwise difference is "
        "representable in the sample's own float type (the model's widths are exact); 64-bit integer samples are either "
        "within +-2^53 or multiples of 2^11 over the whole range of the type, so that the float64 result array holds the "
        "end points exactly (an int64 sample may span 2^63 or more: defect D53)",
        "numpy.longdouble samples (no interchange format) are converted by the harness and checked against Model.Hdi",
    ]
    return rep.finish(
        level="proof",
        checker_cmd="make -C /verif/coq (coqc 8.16.1, full .vo) + coqc on coq/gen/C13/*.v (vm_compute)",
        trusted_base=C.KERNEL_TB + ["axioms: none (all C13 theorems are closed under the global context)"],
        rule="random samples (ties / ints / dyadic / outliers / bimodal / constant; n 2..300(800); 1-4 columns; "
             "ndarray, list, tuple; int and float dtype) x fractions (uniform, within a few ulp of k/n, exact "
             "ratios, extremes); a case is non-trivial when its first column has at least two distinct values; "
             "distinct = distinct (columns, fraction, container, dtype); plus storage cases: every combination of "
             "{int8..int64, uint8..uint64, float16/32/64, longdouble} x {little, big endian} x {C, Fortran, strided, "
             "reversed, 0-stride broadcast, read-only, unaligned, ndarray subclass} at least once (8x in the thorough tier) "
             "+ 64 (640) random combinations; integer values over the whole range of the type, 64-bit types included (full "
             "range, cluster + both ends, two ends, ties, small); n 2..90(150); 1-4 columns")


def describe(case):
    return {"columns": [[str(x) for x in c] for c in case["cols"]], "fraction": case["fraction"],
            "fraction_hex": float(case["fraction"]).hex(), "container": case["container"],
            "dtype": case["dtype"], "storage": case.get("storage")}


def fails_property(case):
    out = run_impl(case)
    if out["status"] != "ok":
        return True
    return bool(oracle(case, out["out"]))


def shrink(case, r):
    if len(case["cols"]) > 1:
        for col in case["cols"]:
            c1 = dict(case, cols=[col], n=len(col))
            if fails_property(c1):
                case = c1
                break
    if len(case["cols"]) == 1:
        def still(xs):
            return len(xs) >= 2 and fails_property(dict(case, cols=[xs], n=len(xs)))
        xs = C.shrink_list(case["cols"][0], still, min_len=2)
        case = dict(case, cols=[xs], n=len(xs))
    return case


def replay(path):
    import json
    d = json.load(open(path))
    rp = d["replay"]
    if "case" not in rp:
        print("replay names a broken theorem / correspondence:", rp.get("theorem_or_correspondence"))
        return 1
    c = rp["case"]
    cols = [[Fraction(x) for x in col] for col in c["columns"]]
    case = {"cols": cols, "n": len(cols[0]), "fraction": float.fromhex(c["fraction_hex"]),
            "container": c["container"], "dtype": c["dtype"], "kinds": [], "storage": c.get("storage")}
    if case["storage"] is not None:
        b = build_storage(cols, case["storage"])
        a = b["array"]
        print(f"sample: {type(a).__name__} dtype={a.dtype.str} shape={a.shape} strides={a.strides} "
              f"offset={b['offset']} writeable={a.flags.writeable} aligned={a.flags.aligned}")
    out = run_impl(case)
    print("implementation returns:", out)
    if out["status"] != "ok":
        return 1
    bad = oracle(case, out["out"])
    if case["storage"] is not None and not bad:
        bad = [m for m in metamorphic(case, out["out"], C.rng_for(PROP, "replay")) if "as a list" in m]
    print("property failures:", bad)
    return 1 if bad else 0
