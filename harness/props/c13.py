"""C13 -- sample_hdi returns the shortest interval holding the requested fraction.

Theorems: coq/theories/Properties/C13.v about Model/Hdi.v (for every sample, every
L).  Tie to the code: exact correspondence -- the real sample_hdi is run on
integer / dyadic samples and its output is compared, inside Coq, with the
model's (no tolerance).  What the model takes as an input (L = int(f*n), a float
product) is checked exactly on the Python side, as is "the caller's array is not
modified".  If the correspondence breaks, the property itself is evaluated on
the implementation by brute force to look for a failing input.
"""
from __future__ import annotations

import math
import warnings
from fractions import Fraction

import numpy as np

from lib import common as C

PROP = "C13"
THEOREMS = ["C13_endpoints_in_sample", "C13_coverage", "C13_fraction", "C13_optimal",
            "C13_fallback", "C13_permutation", "C13_affine", "C13_columns"]

HEADER = """From Coq Require Import List ZArith.
From IT Require Import Model.Hdi.
Import ListNotations.
Open Scope Z_scope.
"""


def impl():
    from inference.pdf.hdi import sample_hdi
    return sample_hdi


# ---------------------------------------------------------------- generation
def gen_column(r, n, kind):
    """A list of Fractions (dyadic) of length n."""
    if kind == "ties":
        k = r.randint(1, max(1, n // 2))
        vals = [Fraction(r.randint(-20, 20)) for _ in range(k)]
        return [r.choice(vals) for _ in range(n)]
    if kind == "ints":
        return [Fraction(r.randint(-1000, 1000)) for _ in range(n)]
    if kind == "dyadic":
        return [C.dyadic(r, 10, r.choice([0, 0, -8, 12])) for _ in range(n)]
    if kind == "outliers":
        xs = [Fraction(r.randint(-50, 50), 4) for _ in range(n)]
        for _ in range(r.randint(1, 3)):
            xs[r.randrange(n)] = Fraction(r.choice([-1, 1]) * r.randint(10 ** 4, 10 ** 9))
        return xs
    if kind == "bimodal":
        return [Fraction(r.randint(0, 30) + r.choice([0, 1000]), 2) for _ in range(n)]
    if kind == "constant":
        return [Fraction(7, 2)] * n
    if kind == "doubles":     # arbitrary doubles (53-bit mantissas): lo + (hi - lo) is NOT exact for these
        xs = [Fraction(r.uniform(-50.0, 50.0)) for _ in range(n)]
        if r.random() < 0.4:
            xs[r.randrange(n)] = Fraction(r.choice([-1e16, 1e16, 3.3e12, -7.7e9]))
        return xs
    if kind == "counts":      # non-negative integers (detector counts, pixel values): unsigned dtypes apply
        return [Fraction(r.randint(0, r.choice([12, 250, 60000]))) for _ in range(n)]
    if kind == "wide8":       # spans almost the whole int8 range: differences overflow int8
        return [Fraction(r.randint(-120, 120)) for _ in range(n)]
    if kind == "wide16":
        return [Fraction(r.randint(-32000, 32000)) for _ in range(n)]
    raise ValueError(kind)


KINDS = ["ties", "ints", "dyadic", "outliers", "bimodal", "constant", "wide8", "wide16", "doubles", "doubles", "counts", "counts"]


def gen_fraction(r, n):
    mode = r.choice(["uniform", "uniform", "near_int", "exact_ratio", "extreme"])
    if mode == "uniform":
        f = r.uniform(0.01, 0.99)
    elif mode == "near_int":
        k = r.randint(1, n - 1) if n > 1 else 1
        f = k / n
        f = math.nextafter(f, r.choice([0.0, 1.0])) if r.random() < 0.7 else f
        for _ in range(r.randint(0, 3)):
            f = math.nextafter(f, r.choice([0.0, 1.0]))
    elif mode == "exact_ratio":
        f = r.choice([0.5, 0.25, 0.75, 0.125, 0.875, 0.9375])
    else:
        f = r.choice([1e-9, 1 - 2.0 ** -53, 0.999999, 2.0 ** -30, 0.95, 0.6827])
    if not 0.0 < f < 1.0:
        f = 0.5
    return f


def make_input(cols, container, dtype):
    """Build what is handed to sample_hdi: 1-D if one column, else 2-D (m, n_cols)."""
    n = len(cols[0])
    if dtype != "float":
        conv = int
    else:
        conv = float
    if len(cols) == 1:
        data = [conv(x) for x in cols[0]]
    else:
        data = [[conv(cols[c][i]) for c in range(len(cols))] for i in range(n)]
    if container == "list":
        return data
    if container == "tuple":
        return tuple(tuple(row) if isinstance(row, list) else row for row in data)
    return np.array(data, dtype={"int": np.int64, "float": np.float64}.get(dtype) or np.dtype(dtype))


def gen_case(r, tier):
    big = (tier == "thorough")
    u = r.random()
    if u < 0.55:
        n = r.randint(2, 12)
    elif u < 0.9:
        n = r.randint(13, 60)
    else:
        n = r.randint(61, 800 if big else 300)
    ncols = 1 if r.random() < 0.6 else r.randint(2, 4)
    kinds = [r.choice(KINDS) for _ in range(ncols)]
    cols = [gen_column(r, n, k) for k in kinds]
    all_int = all(x.denominator == 1 for c in cols for x in c)
    dtype = "int" if all_int and r.random() < 0.5 else "float"
    container = r.choice(["ndarray", "ndarray", "list", "tuple"])
    if dtype == "int" and container == "ndarray" and (r.random() < 0.6 or any(k.startswith("wide") for k in kinds)):
        # "any dtype accepted": narrow and unsigned integer arrays whose values fit (their
        # differences need not fit: int8 100 - (-100))
        lo_v = min(int(x) for c in cols for x in c)
        hi_v = max(int(x) for c in cols for x in c)
        fits = [t for t in ("int8", "int16", "int32", "uint8", "uint16", "uint32", "uint64")
                if np.iinfo(t).min <= lo_v and hi_v <= np.iinfo(t).max]
        if fits:
            dtype = fits[0] if any(k.startswith("wide") for k in kinds) else r.choice(fits)
    f = gen_fraction(r, n)
    return {"cols": cols, "kinds": kinds, "n": n, "fraction": f, "dtype": dtype,
            "container": container}


# ---------------------------------------------------------------- running the code
def run_impl(case):
    """Returns dict(status, out (list of (lo,hi) Fractions per column), modified)."""
    sample_hdi = impl()
    x = make_input(case["cols"], case["container"], case["dtype"])
    before = x.copy() if isinstance(x, np.ndarray) else None
    try:
        with warnings.catch_warnings():
            warnings.simplefilter("ignore")
            out = sample_hdi(x, case["fraction"])
    except Exception as e:  # the pinned code accepts every generated input
        return {"status": "exception", "error": repr(e)}
    modified = False
    if before is not None:
        modified = (before.shape != x.shape) or not np.array_equal(before, x) or before.dtype != x.dtype
    out = np.asarray(out, dtype=float)
    ncols = len(case["cols"])
    try:
        if ncols == 1:
            if out.shape != (2,):
                return {"status": "shape", "error": f"shape {out.shape} for 1-D input"}
            res = [(C.frac(out[0]), C.frac(out[1]))]
        else:
            if out.shape != (2, ncols):
                return {"status": "shape", "error": f"shape {out.shape} for {ncols} columns"}
            res = [(C.frac(out[0, c]), C.frac(out[1, c])) for c in range(ncols)]
    except ValueError as e:
        return {"status": "nonfinite", "error": repr(e)}
    return {"status": "ok", "out": res, "modified": modified}


def code_L(case):
    """L exactly as hdi.py computes it; and the exact-arithmetic facts the
    coverage theorem needs (floor(f n) <= L)."""
    n = case["n"]
    L = int(case["fraction"] * n)
    exact = math.floor(Fraction(case["fraction"]) * n)
    return L, exact


def scale_of(case, res):
    den = 1
    for c in case["cols"]:
        for x in c:
            den = max(den, x.denominator)
    return den


# ---------------------------------------------------------------- the property, by brute force
def oracle(case, res):
    """Evaluate C13 itself on the implementation's answer.  Returns a list of
    (what) strings; empty when the property holds on this input."""
    bad = []
    f = Fraction(case["fraction"])
    n = case["n"]
    for ci, (col, (lo, hi)) in enumerate(zip(case["cols"], res)):
        s = sorted(col)
        if lo not in s or hi not in s:
            bad.append(f"column {ci}: end points ({lo},{hi}) are not sample values")
            continue
        cnt = sum(1 for x in s if lo <= x <= hi)
        if Fraction(cnt) < f * n:
            bad.append(f"column {ci}: interval holds {cnt} of {n} points < fraction {float(f)}")
        if cnt == 0 or lo > hi:
            bad.append(f"column {ci}: the reported interval ({lo}, {hi}) is empty")
            continue
        # no interval between two sample values containing as many points is shorter
        best = None
        j = 0
        # sliding window over sorted values: smallest width with >= cnt points
        for i in range(0, n - cnt + 1):
            w = s[i + cnt - 1] - s[i]
            if best is None or w < best:
                best = w
        if best is not None and best < hi - lo:
            bad.append(f"column {ci}: width {hi - lo} but an interval of width {best} holds as many ({cnt}) points")
    return bad


def metamorphic(case, res, r):
    """permutation / affine / column-independence / no-modification on the code."""
    bad = []
    # permutation
    perm = list(range(case["n"]))
    r.shuffle(perm)
    c2 = dict(case, cols=[[col[i] for i in perm] for col in case["cols"]])
    o2 = run_impl(c2)
    if o2["status"] != "ok" or o2["out"] != res:
        bad.append("result changes when the sample is reordered")
    # positive affine map with dyadic coefficients (exact in double for our ranges)
    a = Fraction(r.choice([2, 3, 8]), r.choice([1, 2, 4]))
    b = Fraction(r.randint(-64, 64), 2)
    big = max(abs(x) for col in case["cols"] for x in col)
    few_bits = all(x.denominator <= 2 ** 16 for col in case["cols"] for x in col)   # a*x + b exact in double
    if big < 2 ** 20 and case["dtype"] == "float" and few_bits:
        c3 = dict(case, cols=[[a * x + b for x in col] for col in case["cols"]])
        o3 = run_impl(c3)
        want = [(a * lo + b, a * hi + b) for lo, hi in res]
        if o3["status"] != "ok" or o3["out"] != want:
            bad.append(f"not covariant under x -> {a}*x + {b}")
    # each column equals the 1-D call
    if len(case["cols"]) > 1:
        for ci, col in enumerate(case["cols"]):
            o1 = run_impl(dict(case, cols=[col]))
            if o1["status"] != "ok" or o1["out"][0] != res[ci]:
                bad.append(f"column {ci} differs from the 1-D call on that column")
    return bad


# ---------------------------------------------------------------- Coq side
def coq_case_1d(col, L, obs, den):
    xs = C.clist([C.cz(x * den) for x in col])
    return f"({xs}, {C.cnat(L)}, ({C.cz(obs[0] * den)}, {C.cz(obs[1] * den)}))"


def coq_case_2d(cols, L, obs, den):
    cs = C.clist([C.clist([C.cz(x * den) for x in col]) for col in cols])
    os_ = C.clist([f"({C.cz(o[0] * den)}, {C.cz(o[1] * den)})" for o in obs])
    return f"({cs}, {C.cnat(L)}, {os_})"


def run(rep: C.Report, tier: str) -> int:
    r = C.rng_for(PROP, "cases")
    n_cases = 600 if tier == "quick" else 6000
    C.clean_gen(PROP)
    C.prove_and_audit(rep, PROP, THEOREMS)

    cases, results = [], []
    for k in range(n_cases):
        case = gen_case(r, tier)
        out = run_impl(case)
        cases.append(case)
        results.append(out)
        rep.count(f"n<={10 ** len(str(case['n']))}")
        rep.count("cols=" + str(len(case["cols"])))
        rep.count("container=" + case["container"] + "/" + case["dtype"])
        for kd in case["kinds"]:
            rep.count("kind=" + kd)
        rep.case((case["cols"], case["fraction"], case["container"], case["dtype"]),
                 nontrivial=len(set(case["cols"][0])) > 1)
        if k < 3:
            rep.sample({"sample_columns": [[float(x) for x in c[:12]] for c in case["cols"]],
                        "n": case["n"], "fraction": case["fraction"],
                        "container": case["container"], "dtype": case["dtype"],
                        "impl_output": out.get("out")})

    # Python-side exact facts (inputs of the model / not expressible in it)
    suspicious = []     # indices that need the failing-input search
    one_d, two_d = [], []   # (case index, coq text)
    for k, (case, out) in enumerate(zip(cases, results)):
        L, exact = code_L(case)
        if not (exact <= L <= exact + 1):
            rep.violation("C13/L", f"int(fraction*n) = {L} but floor(fraction*n) = {exact}",
                          {"n": case["n"], "fraction": case["fraction"]}, True)
        rep.count("branch=" + ("fallback" if L >= case["n"] else "window"))
        if out["status"] != "ok":
            suspicious.append(k)
            continue
        if out["modified"]:
            rep.violation("C13/modified", "sample_hdi modified the caller's array",
                          {"case": describe(case)}, True)
        den = scale_of(case, out["out"])
        if any((v * den).denominator != 1 for o in out["out"] for v in o):
            suspicious.append(k)     # output is not even on the sample's dyadic grid
            continue
        if len(case["cols"]) == 1:
            one_d.append((k, coq_case_1d(case["cols"][0], L, out["out"][0], den)))
        else:
            two_d.append((k, coq_case_2d(case["cols"], L, out["out"], den)))

    # correspondence inside Coq
    files, index = [], []
    CH = 150
    for kind, lst, typ, chk in (("oned", one_d, "list (list Z * nat * (Z * Z))", "check_case"),
                                ("twod", two_d, "list (list (list Z) * nat * list (Z * Z))", "check_case2")):
        for i in range(0, len(lst), CH):
            chunk = lst[i:i + CH]
            body = "Definition cases : " + typ + " :=\n " + C.clist([t for _, t in chunk], ";\n ") + "."
            p = C.write_case_file(PROP, f"cases_{kind}_{i // CH}", HEADER, body,
                                  [f"failing {chk} cases 0"])
            files.append(p)
            index.append([k for k, _ in chunk])
    outs = C.run_case_files(files, jobs=12)
    n_checked = 0
    for p, idx, (ok, res, log) in zip(files, index, outs):
        if not ok or 0 not in res:
            rep.obligation(False)
            rep.violation("C13/correspondence-run", f"case file {p.name} did not evaluate",
                          {"theorem_or_correspondence": f"correspondence file {p.name}", "log": log}, False)
            continue
        rep.obligation(True)
        n_checked += len(idx)
        for j in res[0]:
            suspicious.append(idx[j])
    rep.coverage["traces_validated_against_impl"] = n_checked
    rep.coverage["correspondence_disagreements"] = len(suspicious)

    # failing-input search on every disagreement
    rs = C.rng_for(PROP, "search")
    for k in sorted(set(suspicious))[:20]:
        case, out = cases[k], results[k]
        if out["status"] != "ok":
            rep.violation("C13/exception", f"sample_hdi failed on a valid input: {out.get('error')}",
                          {"case": describe(case)}, True)
            continue
        bad = oracle(case, out["out"]) + metamorphic(case, out["out"], rs)
        if bad:
            small = shrink(case, rs)
            so = run_impl(small)
            sbad = oracle(small, so["out"]) if so["status"] == "ok" else [so.get("error")]
            rep.violation("C13/property", "; ".join((sbad or bad)[:3]),
                          {"case": describe(small if sbad else case), "impl_output": so.get("out")}, True)
        else:
            rep.violation("C13/correspondence",
                          "implementation and model disagree, but the property was not seen to fail on this input",
                          {"theorem_or_correspondence": "Model.Hdi.check_case (correspondence with sample_hdi)",
                           "case": describe(case), "impl_output": out["out"]}, False)

    # the property oracle also runs on a slice of agreeing cases (cheap second opinion, [R])
    for k in range(0, len(cases), 7 if tier == "quick" else 3):
        if results[k]["status"] == "ok" and k not in suspicious:
            bad = oracle(cases[k], results[k]["out"]) + metamorphic(cases[k], results[k]["out"], rs)
            if bad:
                rep.violation("C13/property", "; ".join(bad[:3]), {"case": describe(cases[k])}, True)

    rep.assumptions = [
        "L = int(fraction*n) is an input of the model; floor(fraction*n) <= L is checked exactly per case",
        "NumPy sort / argmin / take_along_axis semantics are modelled (mergesort, first minimum)",
        "samples are dyadic rationals scaled to integers; covariance under scaling is theorem C13_affine",
    ]
    return rep.finish(
        level="proof",
        checker_cmd="make -C /verif/coq (coqc 8.16.1, full .vo) + coqc on coq/gen/C13/*.v (vm_compute)",
        trusted_base=C.KERNEL_TB + ["axioms: none (all C13 theorems are closed under the global context)"],
        rule="random samples (ties / ints / dyadic / outliers / bimodal / constant; n 2..300(800); 1-4 columns; "
             "ndarray, list, tuple; int and float dtype) x fractions (uniform, within a few ulp of k/n, exact "
             "ratios, extremes); a case is non-trivial when its first column has at least two distinct values; "
             "distinct = distinct (columns, fraction, container, dtype)")


def describe(case):
    return {"columns": [[str(x) for x in c] for c in case["cols"]], "fraction": case["fraction"],
            "fraction_hex": float(case["fraction"]).hex(), "container": case["container"],
            "dtype": case["dtype"]}


def fails_property(case):
    out = run_impl(case)
    if out["status"] != "ok":
        return True
    return bool(oracle(case, out["out"]))


def shrink(case, r):
    if len(case["cols"]) > 1:
        for col in case["cols"]:
            c1 = dict(case, cols=[col], n=len(col))
            if fails_property(c1):
                case = c1
                break
    if len(case["cols"]) == 1:
        def still(xs):
            return len(xs) >= 2 and fails_property(dict(case, cols=[xs], n=len(xs)))
        xs = C.shrink_list(case["cols"][0], still, min_len=2)
        case = dict(case, cols=[xs], n=len(xs))
    return case


def replay(path):
    import json
    d = json.load(open(path))
    rp = d["replay"]
    if "case" not in rp:
        print("replay names a broken theorem / correspondence:", rp.get("theorem_or_correspondence"))
        return 1
    c = rp["case"]
    cols = [[Fraction(x) for x in col] for col in c["columns"]]
    case = {"cols": cols, "n": len(cols[0]), "fraction": float.fromhex(c["fraction_hex"]),
            "container": c["container"], "dtype": c["dtype"], "kinds": []}
    out = run_impl(case)
    print("implementation returns:", out)
    if out["status"] != "ok":
        return 1
    bad = oracle(case, out["out"])
    print("property failures:", bad)
    return 1 if bad else 0
