"""C06 -- priors: log-densities, gradients, supports / bounds, sampling arguments,
JointPrior index routing, Posterior sums, initial guesses.

Theorems: coq/theories/Properties/C06.v about RealModel/Priors.v (formulas over R) and
Model/JointPrior.v (routing over Q / nat).

Tie to the code, four groups of obligations per run:
 (A) stand-alone GaussianPrior / ExponentialPrior / UniformPrior objects with arbitrary
     double hyper-parameters (scales 1e-6..1e6), theta inside / on the edge of / outside the
     support, permuted `variable_indices`: value by a coq-interval goal on the model, gradient
     and bounds compared inside Coq (vm_compute, gradient to 1e-12 relative because 1/sigma
     is rounded by the code);
 (B) JointPrior over random partitions / permutations of <= 7 indices among <= 5 components
     (several of the same type => merging), dyadic hyper-parameters: constructor accept /
     reject, gradient (exact when every sigma / beta is a power of two), bounds, sample()
     with `inference.priors.rng` replaced by a recording scripted generator (positions of the
     sampled coordinates, the loc / scale / low / high arguments), all compared inside Coq;
     the joint value by an interval goal on the plan the model computes;
 (C) Posterior(likelihood, JointPrior): value, gradient, cost, cost_gradient by interval goals;
 (D) generate_initial_guesses: scripted draws -> samples -> stable sort by the code's own
     cost -> first n, compared inside Coq;
 (E) UniformPrior.gradient after the caller updated the returned array in place;
 (H) call histories on one object (JointPrior / stand-alone prior / Posterior + its prior): the
     caller creates parameter vectors, calls gradient / cost_gradient / sample / Posterior.gradient /
     Posterior.cost_gradient, KEEPS every array it is handed (no copy), steps parameter vectors in
     place and passes the same array object again, accumulates into gradients it was given,
     evaluates the density in between -- and at the end re-reads every array it holds.  The
     heap-level model (Model/PriorHistory.v: which array object each method allocates, fills and
     returns) is run on the same history inside Coq and must reproduce all of them; theorems
     Properties/C06History.v say that model reads like the function-level one for ALL histories.

Failing-input search: brute-force per-index evaluation from the *unmerged* component list
(exact rationals for gradient / bounds / sample positions; an interval goal on the sum of the
textbook per-index log-densities for the value); central differences for gradients; for histories
private copies taken when each array is handed over (+ the caller's own additions) against what the
array reads at the end, and the per-index derivative at the argument's contents at call time; a
failing history is shrunk (updates dropped, calls replaced by plain arrays, unused arrays cut).
"""
from __future__ import annotations

import json
import math
import warnings
from fractions import Fraction

import numpy as np

from lib import common as C
from lib import interval as I
from lib.scripted import ScriptedRNG
from props import c05 as L5

PROP = "C06"
THEOREMS = ["C06_gauss_value", "C06_exp_value", "C06_unif_value", "C06_outside_support",
            "C06_gauss_gradient", "C06_exp_gradient", "C06_unif_gradient",
            "C06_exp_pdf_normalised", "C06_unif_pdf_normalised",
            "C06_merge_preserves_assignments", "C06_constructor_accepts_partitions",
            "C06_joint_value", "C06_joint_gradient", "C06_joint_gradient_components",
            "C06_joint_gradient_is_derivative", "C06_joint_bounds", "C06_joint_sample",
            "C06_posterior_sum", "C06_posterior_gradient_is_derivative",
            "C06_guesses_sorted_prefix", "C06_guesses_stable", "C06_uniform_gradient_alias_refuted"]

HISTORY_THEOREMS = ["C06_history_refines_function_level", "C06_history_call_value", "C06_history_results_persist",
                    "C06_history_without_updates", "C06_history_shared_buffer_refuted"]

HEADER = """From Coq Require Import List QArith ZArith.
From IT Require Import Model.JointPrior.
Import ListNotations.
Open Scope Q_scope.
"""

PREAMBLE = """From Coq Require Import Reals List QArith Qreals.
From Interval Require Import Tactic.
From IT Require Import RealModel.Likelihoods Model.JointPrior RealModel.Priors.
Import ListNotations.
Open Scope R_scope.
Ltac c06_unfold := cbv [plan_logp fold_left item_logp pk pin pp1 pp2 pts QR map Q2R Qnum Qden
  gaussp_logp gaussp_normalisation expp_logp_in unifp_logp_in outside_value
  posterior_logp posterior_grad posterior_cost posterior_cost_grad
  gauss_loglike gauss_normalisation gauss_z gauss_gradient gauss_dLdF
  cauchy_loglike cauchy_normalisation cauchy_z cauchy_gradient cauchy_dLdF
  logistic_loglike logistic_normalisation logistic_z logistic_scale logistic_gradient logistic_dLdF
  logaddexp vecmat gauss_pdf exp_pdf unif_pdf
  sumR map2 map3 fold_right nth length INR].
"""
KIND = {"gauss": "KGauss", "exp": "KExp", "unif": "KUnif"}
REL = Fraction(1, 10 ** 9)
ABS = Fraction(1, 10 ** 13)
GTOL = Fraction(1, 10 ** 12)
OUTSIDE = 1e100


class RecRNG(ScriptedRNG):
    """ScriptedRNG that also records the arguments of every call."""

    def __init__(self, seed, ur):
        super().__init__(seed)
        self.calls = []
        self.uniform_hook = lambda: Fraction(ur.randint(0, 4095), 4096)

    def normal(self, loc=0.0, scale=1.0, size=None):
        self.calls.append(("gauss", np.atleast_1d(np.array(loc, dtype=float)), np.atleast_1d(np.array(scale, dtype=float))))
        return super().normal(loc, scale, size)

    def exponential(self, scale=1.0, size=None):
        sc = np.atleast_1d(np.array(scale, dtype=float))
        self.calls.append(("exp", sc, np.zeros(sc.shape)))
        return super().exponential(scale, size)

    def uniform(self, low=0.0, high=1.0, size=None):
        self.calls.append(("unif", np.atleast_1d(np.array(low, dtype=float)), np.atleast_1d(np.array(high, dtype=float))))
        return super().uniform(low, high, size)

    def script(self):
        return [v for k, v in self.log if k in ("normal", "exponential", "uniform")]


# ---------------------------------------------------------------- building the real objects
def build_comp(c, style=0):
    import inference.priors as P
    p1, p2, vs = [float(x) for x in c["p1"]], [float(x) for x in c["p2"]], list(c["vars"])
    scalar = style == 1 and len(vs) == 1
    a1 = p1[0] if scalar else (np.array(p1) if style != 2 else list(p1))
    a2 = p2[0] if scalar else (np.array(p2) if style != 2 else list(p2))
    vi = vs[0] if scalar else vs
    if c["kind"] == "gauss":
        return P.GaussianPrior(mean=a1, sigma=a2, variable_indices=vi)
    if c["kind"] == "exp":
        return P.ExponentialPrior(beta=a1, variable_indices=vi)
    return P.UniformPrior(lower=a1, upper=a2, variable_indices=vi)


def bounds_frac(b):
    return [(None if lo is None else C.frac(lo), None if hi is None else C.frac(hi)) for lo, hi in b]


# ---------------------------------------------------------------- generation
POW2 = [Fraction(1, 4), Fraction(1, 2), Fraction(1), Fraction(2), Fraction(4), Fraction(8)]
ODD = [Fraction(3, 4), Fraction(5, 2), Fraction(3), Fraction(7, 8), Fraction(5)]


def dy(r):
    return Fraction(r.randint(-256, 256), r.choice([1, 2, 4, 8, 16]))


def gen_params(r, kind, k, exact):
    if kind == "gauss":
        return [dy(r) for _ in range(k)], [r.choice(POW2 if exact else POW2 + ODD + ODD) for _ in range(k)]
    if kind == "exp":
        return [r.choice(POW2 if exact else POW2 + ODD + ODD) for _ in range(k)], [Fraction(0)] * k
    lo = [dy(r) for _ in range(k)]
    return lo, [l + Fraction(r.randint(1, 128), r.choice([1, 2, 4, 8])) for l in lo]


def gen_joint(r, nmax=7, cmax=5):
    n = r.randint(1, nmax)
    idx = list(range(n))
    r.shuffle(idx)
    ncomp = r.randint(1, min(cmax, n))
    cuts = sorted(r.sample(range(1, n), ncomp - 1)) if ncomp > 1 else []
    groups = [idx[a:b] for a, b in zip([0] + cuts, cuts + [n])]
    pool = r.choice([["gauss", "exp", "unif"], ["gauss", "exp", "unif"], ["gauss"], ["exp", "unif"],
                     ["gauss", "unif"], ["unif"], ["exp"], ["gauss", "exp"]])
    exact = r.random() < 0.5
    comps = []
    for g in groups:
        kind = r.choice(pool)
        p1, p2 = gen_params(r, kind, len(g), exact)
        comps.append({"kind": kind, "p1": p1, "p2": p2, "vars": list(g)})
    r.shuffle(comps)
    return {"n": n, "comps": comps, "exact": exact}


def owner_table(comps):
    """index -> (kind, p1, p2) from the unmerged list (None if not unique)."""
    t = {}
    for c in comps:
        for a, b, i in zip(c["p1"], c["p2"], c["vars"]):
            t.setdefault(i, []).append((c["kind"], Fraction(a), Fraction(b)))
    return t


def gen_theta(r, jc, mode=None):
    """theta per index: inside / edge / outside of the owner's support."""
    t = owner_table(jc["comps"])
    mode = mode or r.choice(["inside", "inside", "inside", "edge", "outside", "mixed", "one_out", "one_out"])
    th = []
    # "one_out": exactly one coordinate with a bounded support is outside it (on a random side), all
    # others strictly inside -- the sharpest input for any/all slips in the support tests
    limited = [i for i in range(jc["n"]) if t.get(i, [("gauss",)])[0][0] != "gauss"]
    out_one = r.choice(limited) if (mode == "one_out" and limited) else None
    for i in range(jc["n"]):
        own = t.get(i, [("gauss", Fraction(0), Fraction(1))])[0]
        md = mode if mode not in ("mixed", "one_out") else r.choice(["inside", "edge", "outside"])
        if mode == "one_out":
            md = "outside" if i == out_one else "inside"
        if own[0] == "gauss":
            v = dy(r)
        elif own[0] == "exp":
            v = {"inside": Fraction(r.randint(1, 400), 16), "edge": Fraction(0),
                 "outside": -Fraction(r.randint(1, 400), 16)}[md]
        else:
            lo, hi = own[1], own[2]
            if md == "inside":
                v = lo + (hi - lo) * Fraction(r.randint(1, 15), 16)
            elif md == "edge":
                v = r.choice([lo, hi])
            else:
                v = r.choice([lo - Fraction(r.randint(1, 64), 8), hi + Fraction(r.randint(1, 64), 8)])
        th.append(v)
    return th, mode


def invalidate(r, jc):
    """Make the configuration one the constructor must reject."""
    jc = {"n": jc["n"], "comps": [dict(c, vars=list(c["vars"])) for c in jc["comps"]], "exact": jc["exact"]}
    how = r.choice(["dup", "range", "count"])
    if how == "dup" and len(jc["comps"]) >= 2:
        a, b = r.sample(range(len(jc["comps"])), 2)
        jc["comps"][a]["vars"][0] = jc["comps"][b]["vars"][0]
        if len(set(jc["comps"][a]["vars"])) != len(jc["comps"][a]["vars"]):
            jc["n"] += 1       # would be rejected by the component itself; fall back to a count error
            jc["comps"] = [dict(c) for c in jc["comps"]]
            return invalidate_count(jc)
    elif how == "range":
        c = r.choice(jc["comps"])
        c["vars"][r.randrange(len(c["vars"]))] = jc["n"] + r.randint(0, 3)
    else:
        return invalidate_count(jc)
    return jc


def invalidate_count(jc):
    jc["n"] = jc["n"] + 1
    return jc


# ---------------------------------------------------------------- Coq literals
def qlist(xs):
    return C.clist([C.cq(x) for x in xs])


def coq_comp(c):
    return (f"(mkComp {KIND[c['kind']]} {qlist(c['p1'])} {qlist(c['p2'])} "
            f"{C.clist([C.cnat(i) for i in c['vars']])})")


def coq_comps(comps):
    return C.clist([coq_comp(c) for c in comps], ";\n    ")


def coq_optq(x):
    return "None" if x is None else f"(Some {C.cq(x)})"


def coq_bounds(bs):
    return C.clist([f"({coq_optq(lo)}, {coq_optq(hi)})" for lo, hi in bs])


def coq_calls(calls):
    return C.clist([f"({KIND[k]}, {qlist(a)}, {qlist(b)})" for k, a, b in calls])


# ---------------------------------------------------------------- running the code
def quiet():
    warnings.simplefilter("ignore")
    return np.errstate(all="ignore")


def run_joint(jc, theta, rseed, ur):
    """Build the real JointPrior; returns dict with accepted / outputs."""
    import inference.priors as P
    try:
        objs = [build_comp(c, style=(i + rseed) % 3) for i, c in enumerate(jc["comps"])]
    except Exception as e:
        return {"status": "component-rejected", "error": repr(e)}
    try:
        j = P.JointPrior(objs, jc["n"])
    except ValueError as e:
        return {"status": "rejected", "error": repr(e)}
    except Exception as e:
        return {"status": "exception", "error": repr(e)}
    out = {"status": "ok", "obj": j}
    if theta is None:
        return out
    th = np.array([float(t) for t in theta])
    old = P.rng
    rec = RecRNG(rseed, ur)
    try:
        with warnings.catch_warnings(), quiet():
            out["value"] = float(j(th))
            out["grad"] = [C.frac(x) for x in np.asarray(j.gradient(th), dtype=float)]
            out["bounds"] = bounds_frac(j.bounds)
            P.rng = rec
            out["sample"] = [C.frac(x) for x in np.asarray(j.sample(), dtype=float)]
            out["script"] = rec.script()
            out["calls"] = [(k, [C.frac(x) for x in a], [C.frac(x) for x in b]) for k, a, b in rec.calls]
            out["cost"] = float(j.cost(th))
    except Exception as e:
        return {"status": "exception", "error": repr(e)}
    finally:
        P.rng = old
    return out


# ---------------------------------------------------------------- magnitudes (tolerance scaling only)
def prior_value_mag(comps, theta):
    m = 0.0
    t = owner_table(comps)
    for i, owners in t.items():
        for kind, a, b in owners:
            x = float(theta[i]) if i < len(theta) else 0.0
            if kind == "gauss":
                m += 0.5 * ((float(a) - x) / float(b)) ** 2 + abs(math.log(float(b))) + 1.0
            elif kind == "exp":
                m += abs(x) / float(a) + abs(math.log(float(a)))
            else:
                m += abs(math.log(float(b) - float(a)))
    return m


def tol_for(mag, observed):
    m = max(Fraction(mag), abs(C.frac(observed)))
    return REL * m + ABS


# ---------------------------------------------------------------- brute-force oracle (unmerged, per index)
def inside(kind, a, b, x):
    if kind == "exp":
        return x >= 0
    if kind == "unif":
        return a <= x <= b
    return True


def oracle_joint(jc, theta, out):
    """The property evaluated per index on the implementation's outputs.  Returns list of strings."""
    bad = []
    t = owner_table(jc["comps"])
    n = jc["n"]
    th = [Fraction(x) for x in theta]
    for i in range(n):
        kind, a, b = t[i][0]
        # gradient entry
        if kind == "gauss":
            want = (a - th[i]) / (b * b)
        elif kind == "exp":
            want = -1 / a if th[i] >= 0 else Fraction(0)
        else:
            want = Fraction(0)
        got = out["grad"][i]
        if abs(got - want) > Fraction(1, 10 ** 9) * (abs(want) + abs(got)) + Fraction(1, 10 ** 30):
            bad.append(f"gradient[{i}] = {float(got)!r} but index {i} belongs to a {kind} prior "
                       f"({float(a)}, {float(b)}) whose derivative at {float(th[i])} is {float(want)!r}")
        # bounds
        wb = {"gauss": (None, None), "exp": (Fraction(0), None), "unif": (a, b)}[kind]
        if i >= len(out["bounds"]) or out["bounds"][i] != wb:
            bad.append(f"bounds[{i}] = {out['bounds'][i] if i < len(out['bounds']) else None} but index {i} "
                       f"belongs to a {kind} prior with bounds {wb}")
    # sample: every coordinate is produced from its owner's parameters by one logged draw, each used once
    draws = list(out["script"])
    for i in range(n):
        kind, a, b = t[i][0]
        x = out["sample"][i]
        hit = None
        for d in draws:
            v = a + b * d if kind == "gauss" else (a * d if kind == "exp" else a + (b - a) * d)
            if v == x:
                hit = d
                break
        if hit is None:
            bad.append(f"sample[{i}] = {float(x)!r} is not loc/scale of the {kind} prior that owns index {i} "
                       f"({float(a)}, {float(b)}) applied to any of the draws")
        else:
            draws.remove(hit)
    return bad


def oracle_value_goal(tag, comps, theta, observed):
    """Interval goal: observed = sum over indices of ln(named 1-D pdf) (inside the support) /
    observed <= -1e99 (outside).  True = property holds, None = could not run."""
    t = owner_table(comps)
    th = [Fraction(x) for x in theta]
    terms, out_of_support = [], False
    for i, owners in sorted(t.items()):
        for kind, a, b in owners:
            if not inside(kind, a, b, th[i]):
                out_of_support = True
            if kind == "gauss":
                terms.append(f"ln (gauss_pdf {C.cR(a)} {C.cR(b)} {C.cR(th[i])})")
            elif kind == "exp":
                terms.append(f"ln (exp_pdf (1 / {C.cR(a)}) {C.cR(th[i])})")
            else:
                terms.append(f"ln (unif_pdf {C.cR(a)} {C.cR(b)} {C.cR(th[i])})")
    if out_of_support:
        return observed <= -1e99
    stmt = I.goal_abs_close("sumR " + C.clist(terms), observed,
                            10 * tol_for(prior_value_mag(comps, theta), observed))
    failed, broken = I.check_goals(PROP, f"oracle_{tag}", [("o", stmt, "c06_unfold; interval with (i_prec 90)")],
                                   preamble=PREAMBLE)
    if broken:
        return None
    return not failed


def describe_joint(jc, theta):
    return {"n": jc["n"],
            "components": [{"kind": c["kind"], "p1": [str(Fraction(x)) for x in c["p1"]],
                            "p2": [str(Fraction(x)) for x in c["p2"]], "vars": list(c["vars"])} for c in jc["comps"]],
            "theta": None if theta is None else [str(Fraction(x)) for x in theta]}


def undescribe_joint(d):
    jc = {"n": d["n"], "exact": False,
          "comps": [{"kind": c["kind"], "p1": [Fraction(x) for x in c["p1"]], "p2": [Fraction(x) for x in c["p2"]],
                     "vars": list(c["vars"])} for c in d["components"]]}
    th = None if d.get("theta") is None else [Fraction(x) for x in d["theta"]]
    return jc, th


# ---------------------------------------------------------------- group A : stand-alone classes
def gen_single(r, k, extreme=False):
    kind = ["gauss", "exp", "unif"][k % 3]
    m = r.randint(1, 4)
    nth = m + r.randint(0, 3)
    if extreme:
        # several variables whose scales all sit at the same far end of the double range (1e-75..1e-45 or
        # 1e45..1e75): every per-variable term is an ordinary number, but the PRODUCT of the scales (or of
        # their reciprocals) is outside binary64 -- a normalisation taken as log(prod) instead of sum(log)
        # is infinite there while the density the class is named after is not
        m = r.randint(6, 8)
        nth = m + r.randint(0, 2)
        sgn = r.choice([-1, 1])
        ex = [10.0 ** (sgn * r.uniform(45, 75)) for _ in range(m)]
    vs = r.sample(range(nth), m)
    if extreme and kind == "gauss":
        p1 = [r.uniform(-50, 50) for _ in range(m)]
        p2 = ex
    elif extreme and kind == "exp":
        p1 = ex
        p2 = [0.0] * m
    elif extreme:
        p1 = [r.choice([0.0, e * r.uniform(-1, 1)]) for e in ex]
        p2 = [a + e for a, e in zip(p1, ex)]
    elif kind == "gauss":
        p1 = [r.uniform(-50, 50) for _ in range(m)]
        p2 = [10.0 ** r.uniform(-6, 6) for _ in range(m)]
    elif kind == "exp":
        p1 = [10.0 ** r.uniform(-6, 6) for _ in range(m)]
        p2 = [0.0] * m
    else:
        p1 = [r.uniform(-50, 50) for _ in range(m)]
        p2 = [a + 10.0 ** r.uniform(-6, 6) for a in p1]
        p2 = [b if b > a else a + 1.0 for a, b in zip(p1, p2)]
    c = {"kind": kind, "p1": [C.frac(x) for x in p1], "p2": [C.frac(x) for x in p2], "vars": vs}
    mode = r.choice(["inside", "inside", "edge", "outside", "mixed", "one_out", "one_out"])
    th = []
    out_one = r.choice(vs) if mode == "one_out" else None
    for i in range(nth):
        if i in vs:
            j = vs.index(i)
            md = mode if mode not in ("mixed", "one_out") else r.choice(["inside", "edge", "outside"])
            if mode == "one_out":
                md = "outside" if i == out_one else "inside"
            if kind == "gauss":
                v = p1[j] + p2[j] * r.choice([r.gauss(0, 2), r.uniform(-700, 700), 0.0])
            elif kind == "exp":
                v = {"inside": p1[j] * r.expovariate(1.0) * r.choice([1e-3, 1, 50]), "edge": 0.0,
                     "outside": -p1[j] * r.uniform(1e-9, 10)}[md]
            else:
                v = {"inside": p1[j] + (p2[j] - p1[j]) * r.random(), "edge": r.choice([p1[j], p2[j]]),
                     "outside": r.choice([p1[j] - abs(p1[j]) * 1e-12 - 1e-300, p2[j] + r.uniform(0, 5) + abs(p2[j]) * 1e-12])}[md]
                if md == "inside" and not (p1[j] <= v <= p2[j]):
                    v = p1[j]
        else:
            v = r.uniform(-10, 10)
        th.append(C.frac(float(v)))
    return c, th, mode


def run_single(c, theta, style):
    try:
        with warnings.catch_warnings(), quiet():
            obj = build_comp(c, style)
            th = np.array([float(t) for t in theta])
            val = float(obj(th))
            g = np.asarray(obj.gradient(th), dtype=float)
            cst = float(obj.cost(th))
            cg = np.asarray(obj.cost_gradient(th), dtype=float)
            b = bounds_frac(obj.bounds)
    except Exception as e:
        return {"status": "exception", "error": repr(e)}
    if g.shape != (len(c["vars"]),):
        return {"status": "shape", "error": f"gradient shape {g.shape}"}
    return {"status": "ok", "value": val, "grad": [C.frac(x) for x in g], "bounds": b, "cost": cst,
            "cgrad": [C.frac(x) for x in cg]}



# ---------------------------------------------------------------- group H : call histories
HEADER_H = """From Coq Require Import List QArith ZArith.
From IT Require Import Model.JointPrior Model.PriorHistory.
Import ListNotations.
Open Scope Q_scope.
"""
HTOL = Fraction(1, 10 ** 12)
METH_NAME = {"grad": "gradient", "cgrad": "cost_gradient", "sample": "sample",
             "pgrad": "Posterior.gradient", "pcgrad": "Posterior.cost_gradient"}


def hist_object(r, typ):
    """Description of the object a history runs on.
    joint: JointPrior; comp: one stand-alone prior on some positions of a longer theta;
    post: Posterior(likelihood, JointPrior) (the prior is also called directly)."""
    if typ == "comp":
        kind = r.choice(["gauss", "exp", "unif"])
        m = r.randint(1, 4)
        nth = m + r.randint(0, 3)
        exact = r.random() < 0.6
        p1, p2 = gen_params(r, kind, m, exact)
        c = {"kind": kind, "p1": p1, "p2": p2, "vars": r.sample(range(nth), m)}
        return {"type": "comp", "n": nth, "rlen": m, "comps": [c], "exact": exact, "style": r.randrange(3)}
    if typ == "post":
        lc = L5.gen_case(r, r.randrange(3))
        p = len(lc["theta"])
        jc = gen_joint(r, nmax=p, cmax=p)
        while jc["n"] != p or not jc["exact"]:
            jc = gen_joint(r, nmax=p, cmax=p)
        return {"type": "post", "n": p, "rlen": p, "comps": jc["comps"], "exact": True, "lc": lc, "style": r.randrange(3)}
    jc = gen_joint(r)
    return {"type": "joint", "n": jc["n"], "rlen": jc["n"], "comps": jc["comps"], "exact": jc["exact"], "style": r.randrange(3)}


def gen_history(r, od, big=False):
    """Symbolic operations (see Model/PriorHistory.v):
       ("new", theta) | ("call", method, k) | ("add", k, values) | ("value", k, "call"|"cost").
    Every history contains: a gradient call, an in-place update by the caller of the array it got,
    a change of the parameter vector (stepped in place, or a new one), another gradient call."""
    n, rl = od["n"], od["rlen"]
    jc = {"n": n, "comps": od["comps"]}
    ops, lens, depth = [], [], []

    def new_theta():
        th, _ = gen_theta(r, jc)
        ops.append(("new", th))
        lens.append(n)
        depth.append(0)

    def args():       # arrays usable as a parameter vector (results of results of results are not: bits)
        return [i for i, (l, d) in enumerate(zip(lens, depth)) if l == n and d <= 1]

    def call(m, k):
        ops.append(("call", m, k))
        lens.append(rl)
        depth.append(0 if m == "sample" else depth[k] + 1)

    def add(k):
        ops.append(("add", k, [Fraction(r.randint(-64, 64), r.choice([1, 2, 4, 8, 16])) for _ in range(lens[k])]))

    meths = ["grad", "grad", "grad", "cgrad", "sample"]
    if od["type"] == "post":
        meths += ["pgrad", "pgrad", "pcgrad"]
    new_theta()
    if r.random() < 0.6:
        new_theta()
    for _ in range(r.randint(2, 7 if not big else 10)):
        u = r.random()
        if u < 0.5:
            m = r.choice(meths)
            fresh = [i for i in args() if depth[i] == 0]
            k = 0 if m == "sample" else (r.choice(fresh) if r.random() < 0.8 else r.choice(args()))
            call(m, k)
        elif u < 0.62:
            new_theta()
        elif u < 0.87:
            add(r.randrange(len(lens)))
        else:
            ops.append(("value", r.choice(args()), r.choice(["call", "cost"])))
    gm = r.choice(["grad", "grad", "cgrad"] + (["pgrad"] if od["type"] == "post" else []))
    a = r.choice([i for i in args() if depth[i] == 0])
    call(gm, a)
    first = len(lens) - 1
    if r.random() < 0.7:
        add(first)
    b = a
    if r.random() < 0.5:
        add(a)                    # the optimiser steps its x in place and asks again
    else:
        new_theta()
        b = len(lens) - 1
    call(gm if r.random() < 0.7 else r.choice(meths[:4]), b)
    if r.random() < 0.3:
        ops.append(("value", b, "cost"))
    return ops


def hist_objects(od):
    """Build the real objects: (prior, posterior or None)."""
    import inference.priors as P
    from inference.posterior import Posterior
    if od["type"] == "comp":
        return build_comp(od["comps"][0], od["style"]), None
    objs = [build_comp(c, style=(i + od["style"]) % 3) for i, c in enumerate(od["comps"])]
    prior = P.JointPrior(objs, od["n"])
    if od["type"] == "post":
        return prior, Posterior(likelihood=L5.build(od["lc"]), prior=prior)
    return prior, None


def exec_history(od, ops, rseed, ur):
    """Run a history on the real objects.  The caller keeps the very arrays it is handed (`held`);
    `shadow` are private copies taken at the moment each array came into the caller's hands, updated
    only by the caller's own in-place additions -- what every held array must still contain.
    Returns status, filled ops (scripts / likelihood gradients recorded), finals, shadows, per-call
    records and the first (op index, held index) at which a held array stopped matching its shadow."""
    import inference.priors as P
    out = {"status": "ok", "ops": [], "calls": {}, "first_change": None, "mags": []}
    held, shadow = [], []
    old = P.rng
    try:
        with warnings.catch_warnings(), quiet():
            prior, post = hist_objects(od)
            for t, op in enumerate(ops):
                if op[0] == "new":
                    a = np.array([float(x) for x in op[1]], dtype=float)
                    held.append(a)
                    shadow.append(a.copy())
                    out["ops"].append(op)
                elif op[0] == "call":
                    m, k = op[1], op[2]
                    arg = held[k]
                    at_call = np.array(arg, dtype=float, copy=True)
                    extra = op[3] if len(op) > 3 else None
                    if m == "sample":
                        rec = RecRNG(rseed * 1000 + t, ur) if extra is None else ReplayRNG(extra)
                        P.rng = rec
                        try:
                            res = prior.sample()
                        finally:
                            P.rng = old
                        if extra is None:
                            extra = rec.script()
                    elif m == "grad":
                        res = prior.gradient(arg)
                    elif m == "cgrad":
                        res = prior.cost_gradient(arg)
                    else:
                        extra = [C.frac(x) if math.isfinite(x) else None
                                 for x in np.asarray(post.likelihood.gradient(at_call.copy()), dtype=float)]
                        res = post.gradient(arg) if m == "pgrad" else post.cost_gradient(arg)
                        try:      # magnitude of the terms summed by the likelihood (tolerance scaling only)
                            out["mags"].append(max(L5.magnitudes(dict(od["lc"], theta=[float(x) for x in at_call]))[1]))
                        except Exception:
                            out["mags"].append(math.inf)
                    if not isinstance(res, np.ndarray) or res.ndim != 1 or res.shape[0] != od["rlen"]:
                        return dict(out, status="shape", error=f"{METH_NAME[m]} returned {type(res).__name__} "
                                    f"of shape {getattr(res, 'shape', None)} at operation {t}")
                    held.append(res)
                    shadow.append(np.array(res, dtype=float, copy=True))
                    out["calls"][len(held) - 1] = {"op": t, "method": m, "arg": k, "theta_at_call": at_call,
                                                   "returned": shadow[-1].copy(), "extra": extra}
                    out["ops"].append(("call", m, k, extra))
                elif op[0] == "add":
                    v = np.array([float(x) for x in op[2]], dtype=float)
                    held[op[1]] += v
                    shadow[op[1]] += v
                    out["ops"].append(op)
                else:
                    obj = post if (post is not None and t % 2) else prior
                    float(obj(held[op[1]]) if op[2] == "call" else obj.cost(held[op[1]]))
                    out["ops"].append(op)
                if out["first_change"] is None:
                    for j, (h, sh) in enumerate(zip(held, shadow)):
                        if not np.array_equal(np.asarray(h, dtype=float), sh, equal_nan=True):
                            out["first_change"] = (t, j)
                            break
    except Exception as e:
        return dict(out, status="exception", error=repr(e))
    finally:
        P.rng = old
    out["finals"] = [np.array(h, dtype=float, copy=True) for h in held]
    out["shadows"] = shadow
    return out


def hist_owner(od, pos):
    """(theta index, kind, p1, p2) of result position `pos` (unmerged list)."""
    if od["type"] == "comp":
        c = od["comps"][0]
        return c["vars"][pos], c["kind"], Fraction(c["p1"][pos]), Fraction(c["p2"][pos])
    kind, a, b = owner_table(od["comps"])[pos][0]
    return pos, kind, a, b


def oracle_history(od, ex):
    """The property on the implementation alone: (1) every array the caller holds still reads what it
    read when it was handed over (plus the caller's own additions); (2) what a gradient call handed
    over was the per-index derivative at the contents of its argument at the time of the call."""
    bad = []
    if ex["first_change"] is not None:
        t, j = ex["first_change"]
        what = (f"the array returned by {METH_NAME[ex['calls'][j]['method']]} (operation {ex['calls'][j]['op']}, "
                f"parameter vector {ex['calls'][j]['theta_at_call'].tolist()})" if j in ex["calls"]
                else "the parameter vector the caller passed in")
        o = ex["ops"][t]
        by = {"call": lambda: f"the later call of {METH_NAME[o[1]]}", "add": lambda: f"the caller's update of a different array (held #{o[1]})",
              "value": lambda: "the later evaluation of the log-probability / cost", "new": lambda: "the creation of a new array"}[o[0]]()
        now = ex["finals"][j].tolist() if "finals" in ex else None
        bad.append(f"{what} was {ex['calls'][j]['returned'].tolist() if j in ex['calls'] else 'as created'} when handed over "
                   f"and reads {now} at the end of the history: it was changed by {by} (operation {t})")
    for j, cinfo in ex["calls"].items():
        m = cinfo["method"]
        if m == "sample" or not np.all(np.isfinite(cinfo["returned"])) or not np.all(np.isfinite(cinfo["theta_at_call"])):
            continue
        th = [C.frac(x) for x in cinfo["theta_at_call"]]
        for pos in range(od["rlen"]):
            i, kind, a, b = hist_owner(od, pos)
            want = (a - th[i]) / (b * b) if kind == "gauss" else ((-1 / a if th[i] >= 0 else Fraction(0)) if kind == "exp" else Fraction(0))
            if m in ("pgrad", "pcgrad"):
                if cinfo["extra"][pos] is None:
                    continue
                want += cinfo["extra"][pos]
            if m in ("cgrad", "pcgrad"):
                want = -want
            got = C.frac(cinfo["returned"][pos])
            scale = abs(want) + abs(got) + (abs(cinfo["extra"][pos]) if m in ("pgrad", "pcgrad") else 0)
            if abs(got - want) > Fraction(1, 10 ** 9) * scale + Fraction(1, 10 ** 30):
                bad.append(f"{METH_NAME[m]} (operation {cinfo['op']}) returned {float(got)!r} at position {pos} for the parameter "
                           f"vector {cinfo['theta_at_call'].tolist()}; the derivative there is {float(want)!r}")
                break
    return bad


def shrink_history(od, ops, rseed, ur):
    """Smaller history that still fails the oracle: drop updates / evaluations, turn calls into plain
    arrays (indices stay valid), cut unused arrays from the end."""
    def fails(o):
        ex = exec_history(od, o, rseed, ur)
        return ex["status"] == "ok" and bool(oracle_history(od, ex))
    ops = list(ops)
    if not fails(ops):
        return ops
    changed = True
    while changed:
        changed = False
        for t in range(len(ops) - 1, -1, -1):
            o = ops[t]
            if o[0] in ("add", "value"):
                cand = ops[:t] + ops[t + 1:]
            elif o[0] == "call" and od["rlen"] == od["n"]:
                cand = ops[:t] + [("new", [Fraction(0)] * od["n"])] + ops[t + 1:]
            else:
                continue
            if fails(cand):
                ops, changed = cand, True
        while len(ops) > 1 and ops[-1][0] == "new" and fails(ops[:-1]):
            ops, changed = ops[:-1], True
        # an unused array in the middle: remove it and renumber the later references
        prod = [i for i, o in enumerate(ops) if o[0] in ("new", "call")]
        for j in range(len(prod) - 1, -1, -1):
            used = any((o[0] == "call" and o[2] == j and o[1] != "sample") or (o[0] in ("add", "value") and o[1] == j) for o in ops)
            if used or ops[prod[j]][0] != "new" or len(prod) < 2:
                continue
            ren = lambda x: x - 1 if x > j else x
            cand = []
            for i, o in enumerate(ops):
                if i == prod[j]:
                    continue
                if o[0] == "call":
                    cand.append(("call", o[1], 0 if (o[1] == "sample" and o[2] == j) else ren(o[2])) + tuple(o[3:]))
                elif o[0] in ("add", "value"):
                    cand.append((o[0], ren(o[1])) + tuple(o[2:]))
                else:
                    cand.append(o)
            if fails(cand):
                ops, changed = cand, True
                break
    return ops


def coq_hist_ops(ops):
    out = []
    for o in ops:
        if o[0] == "new":
            out.append(f"HNew {qlist(o[1])}")
        elif o[0] == "add":
            out.append(f"HAdd {C.cnat(o[1])} {qlist(o[2])}")
        elif o[0] == "value":
            out.append(f"HValue {C.cnat(o[1])}")
        else:
            m = {"grad": "MGrad", "cgrad": "MCostGrad", "sample": f"(MSample {qlist(o[3] or [])})",
                 "pgrad": f"(MPostGrad {qlist(o[3] or [])})", "pcgrad": f"(MPostCostGrad {qlist(o[3] or [])})"}[o[1]]
            out.append(f"HCall {m} {C.cnat(o[2])}")
    return C.clist(out, ";\n    ")


def coq_hist_obj(od):
    if od["type"] == "comp":
        return f"(OComp {coq_comp(od['comps'][0])})"
    return f"(OJoint {coq_comps(od['comps'])} {C.cnat(od['n'])})"


def describe_hist(od, ops):
    d = {"type": od["type"], "n": od["n"], "rlen": od["rlen"], "style": od["style"], "exact": od["exact"],
         "components": describe_joint({"n": od["n"], "comps": od["comps"]}, None)["components"],
         "ops": [[("None" if x is None else ([str(v) for v in x] if isinstance(x, (list, tuple)) else x)) for x in o] for o in ops]}
    if od["type"] == "post":
        d["likelihood"] = L5.describe(od["lc"])
    return d


def undescribe_hist(d):
    jc, _ = undescribe_joint({"n": d["n"], "components": d["components"], "theta": None})
    od = {"type": d["type"], "n": d["n"], "rlen": d["rlen"], "style": d["style"], "exact": d["exact"], "comps": jc["comps"]}
    if d["type"] == "post":
        od["lc"] = L5.undescribe(d["likelihood"])
    ops = []
    for o in d["ops"]:
        if o[0] == "call" and o[1] != "sample":
            o = o[:3]              # likelihood gradients are recomputed from the likelihood
        o = [([Fraction(v) for v in x] if isinstance(x, list) else (None if x == "None" else x)) for x in o]
        ops.append(tuple(o))
    return od, ops


# ---------------------------------------------------------------- the run
def run(rep: C.Report, tier: str) -> int:
    big = tier == "thorough"
    C.clean_gen(PROP)
    C.prove_and_audit(rep, PROP, THEOREMS)
    try:      # supplementary theorems (the Gaussian pdf is normalised)
        _a = C.coq_audit("C06_gaussnorm", ['GaussNorm_gauss_pdf_normalised', 'GaussNorm_gauss_pdf_total'], "IT.Properties.GaussNorm")
        rep.obligation(True, 2)
        rep.coverage["gaussnorm_audit"] = _a
    except C.ProofFailure as _e:
        rep.obligation(False, 2)
        rep.violation("C06/proof", f"proof obligation no longer checks: {_e.what}",
                      {"theorem_or_correspondence": _e.what, "log": _e.log[-1000:]}, False)
    try:      # call histories: heap-level model of which array each method hands out (Properties/C06History.v)
        _a = C.coq_audit("C06_history", HISTORY_THEOREMS, "IT.Properties.C06History")
        rep.obligation(True, len(HISTORY_THEOREMS))
        rep.coverage["history_audit"] = _a
    except C.ProofFailure as _e:
        rep.obligation(False, len(HISTORY_THEOREMS))
        rep.violation("C06/proof", f"proof obligation no longer checks: {_e.what}",
                      {"theorem_or_correspondence": _e.what, "log": _e.log[-1000:]}, False)
    r = C.rng_for(PROP, "cases")
    ur = C.rng_for(PROP, "uniform-draws")

    goals = []           # interval goals (id, stmt, tactic)
    defs = []            # Definitions placed in the goal preamble (plans, gradients)
    goal_info = {}       # id -> description for the search
    ccases, jcases, gcases = [], [], []     # (info, coq text)

    # ---------------- (A) stand-alone classes
    nA = 45 if not big else 300
    nX = 9 if not big else 45        # extreme-scale cases, drawn from their own stream (the others keep theirs)
    rx = C.rng_for(PROP, "extreme-scales")
    for k in range(nA + nX):
        c, th, mode = gen_single(r, k) if k < nA else gen_single(rx, k, extreme=True)
        if k >= nA:
            rep.count("A:scales=extreme")
        out = run_single(c, th, k % 3)
        rep.count(f"A:class={c['kind']}")
        rep.count(f"A:theta={mode}")
        rep.case(("A", c, th))
        if k < 2:
            rep.sample({"group": "A", "component": describe_joint({"n": len(th), "comps": [c]}, th), "impl_value": out.get("value")})
        if out["status"] != "ok":
            rep.violation("C06/exception", f"{c['kind']} prior failed on a valid input: {out.get('error')}",
                          {"case": describe_joint({"n": len(th), "comps": [c]}, th), "group": "A"}, True)
            continue
        if not math.isfinite(out["value"]):
            # the log of a normalised density is a real number for every parameter vector (the code's own
            # convention outside the support is the finite -1e100); the model's value is finite as well
            rep.violation("C06/value", f"{c['kind']} prior returns {out['value']!r} for a valid input where the "
                          f"log-density of the named distribution is about {-prior_value_mag([c], th):.6g} in magnitude "
                          f"(scales {[float(x) for x in (c['p2'] if c['kind'] == 'gauss' else c['p1'])][:3]}...)",
                          {"case": describe_joint({"n": len(th), "comps": [c]}, th), "group": "A",
                           "impl_value": repr(out["value"])}, True)
            continue
        if out["cost"] != -out["value"] or any(a != -b for a, b in zip(out["cgrad"], out["grad"])):
            rep.violation("C06/cost", "cost / cost_gradient of a prior is not the exact negative",
                          {"case": describe_joint({"n": len(th), "comps": [c]}, th), "group": "A"}, True)
        ins = all(inside(c["kind"], a, b, th[i]) for a, b, i in zip(c["p1"], c["p2"], c["vars"]))
        rep.count("A:branch=" + ("inside" if ins else "outside"))
        name = f"planA{k}"
        defs.append(f"Definition {name} := Eval vm_compute in (joint_plan [{coq_comp(c)}] {qlist(th)}).")
        mag = OUTSIDE if not ins else prior_value_mag([c], th)
        gid = f"A{k}_value"
        goals.append((gid, I.goal_abs_close(f"plan_logp {name}", out["value"], tol_for(mag, out["value"])),
                      f"cbv [{name}]; c06_unfold; interval with (i_prec 90)"))
        goal_info[gid] = ("A", k, c, th, out)
        ccases.append((("A", k, c, th, out),
                       f"({coq_comp(c)}, {qlist(th)}, {qlist(out['grad'])}, {coq_bounds(out['bounds'])}, {C.cq(GTOL)})"))

    # ---------------- (E) UniformPrior.gradient must not hand out its own buffer
    for k in range(6):
        c, th, _ = gen_single(r, 2)      # 2 -> uniform
        try:
            obj = build_comp(c, 0)
            tharr = np.array([float(t) for t in th])
            g1 = obj.gradient(tharr)
            g1 += 1.0 + k                 # the caller accumulates into what it was given
            g2 = np.asarray(obj.gradient(tharr), dtype=float)
        except Exception as e:
            rep.violation("C06/exception", f"UniformPrior.gradient failed: {e!r}", {"case": describe_joint({"n": len(th), "comps": [c]}, th)}, True)
            continue
        rep.count("E:uniform gradient after in-place update by the caller")
        rep.case(("E", c, th))
        ccases.append((("E", k, c, th, {"grad": [C.frac(x) for x in g2], "add": 1.0 + k}),
                       f"({coq_comp(c)}, {qlist(th)}, {qlist(g2)}, {coq_bounds(bounds_frac(obj.bounds))}, {C.cq(0)})"))

    # ---------------- (B) JointPrior routing
    nB = 220 if not big else 1800
    n_value_goals = 40 if not big else 300
    for k in range(nB):
        jc = gen_joint(r)
        invalid = r.random() < 0.12
        if invalid:
            jc = invalidate(r, jc)
            out = run_joint(jc, None, k, ur)
            rep.count("B:invalid configuration")
            rep.case(("B-invalid", jc))
            if out["status"] == "component-rejected":
                continue
            if out["status"] == "exception":
                rep.violation("C06/exception", f"JointPrior constructor failed unexpectedly: {out['error']}",
                              {"case": describe_joint(jc, None), "group": "B"}, True)
                continue
            acc = out["status"] == "ok"
            txt = (f"(mkCase {coq_comps(jc['comps'])} {C.cnat(jc['n'])} [] {C.cbool(acc)} [] [] [] [] [] 0)")
            jcases.append((("B-invalid", k, jc, None, out), txt))
            continue
        th, mode = gen_theta(r, jc)
        out = run_joint(jc, th, k, ur)
        rep.count(f"B:n={jc['n']}")
        rep.count(f"B:components={len(jc['comps'])}")
        kinds = [c["kind"] for c in jc["comps"]]
        rep.count("B:merging=" + ("yes" if any(kinds.count(x) > 1 for x in set(kinds)) else "no"))
        rep.count("B:order=" + ("ascending" if sum((c["vars"] for c in jc["comps"]), []) == list(range(jc["n"])) else "permuted"))
        rep.count(f"B:theta={mode}")
        rep.count("B:gradient compared " + ("exactly" if jc["exact"] else "to 1e-12"))
        rep.case(("B", jc, th))
        if k < 2:
            rep.sample({"group": "B", "case": describe_joint(jc, th), "impl_value": out.get("value"),
                        "impl_bounds": out.get("bounds"), "impl_gradient": [float(x) for x in out.get("grad", [])]})
        if out["status"] != "ok":
            rep.violation("C06/exception", f"JointPrior failed on a valid configuration: {out.get('error')}",
                          {"case": describe_joint(jc, th), "group": "B"}, True)
            continue
        if out["cost"] != -out["value"]:
            rep.violation("C06/cost", "JointPrior.cost is not the exact negative", {"case": describe_joint(jc, th)}, True)
        txt = (f"(mkCase {coq_comps(jc['comps'])} {C.cnat(jc['n'])} {qlist(th)} true {qlist(out['grad'])} "
               f"{coq_bounds(out['bounds'])} {qlist(out['script'])} {qlist(out['sample'])} {coq_calls(out['calls'])} "
               f"{C.cq(0 if jc['exact'] else GTOL)})")
        jcases.append((("B", k, jc, th, out), txt))
        if k < n_value_goals * 1.15 and len([g for g in goals if g[0].startswith("B")]) < n_value_goals:
            t = owner_table(jc["comps"])
            ins = all(inside(kd, a, b, Fraction(th[i])) for i, ow in t.items() for kd, a, b in ow)
            rep.count("B:value branch=" + ("inside" if ins else "outside"))
            name = f"planB{k}"
            defs.append(f"Definition {name} := Eval vm_compute in (joint_plan {coq_comps(jc['comps'])} {qlist(th)}).")
            mag = OUTSIDE * len(jc["comps"]) if not ins else prior_value_mag(jc["comps"], th)
            gid = f"B{k}_value"
            goals.append((gid, I.goal_abs_close(f"plan_logp {name}", out["value"], tol_for(mag, out["value"])),
                          f"cbv [{name}]; c06_unfold; interval with (i_prec 90)"))
            goal_info[gid] = ("B", k, jc, th, out)

    # ---------------- (C) Posterior = likelihood + prior
    nC = 24 if not big else 160
    from inference.posterior import Posterior
    for k in range(nC):
        lc = L5.gen_case(r, k)
        p = len(lc["theta"])
        jc = gen_joint(r, nmax=p, cmax=p)
        while jc["n"] != p:
            jc = gen_joint(r, nmax=p, cmax=p)
        th, mode = gen_theta(r, jc, mode=r.choice(["inside", "inside", "inside", "outside"]))
        lc["theta"] = [float(t) for t in th]
        # keep the residuals of the likelihood in the intended range at the new theta
        f_new = L5.forward(lc["model"], lc["theta"])
        lc["y"] = [float(f_new[i] + r.uniform(-30, 30) * lc["sigma"][i]) for i in range(len(lc["y"]))]
        rep.count(f"C:likelihood={lc['cls']}")
        rep.count(f"C:theta={mode}")
        rep.case(("C", lc, jc, th))
        try:
            with warnings.catch_warnings(), quiet():
                like = L5.build(lc)
                jo = run_joint(jc, None, k, ur)
                post = Posterior(likelihood=like, prior=jo["obj"])
                tharr = np.array(lc["theta"])
                pv, pc = float(post(tharr)), float(post.cost(tharr))
                pg = [float(x) for x in np.asarray(post.gradient(tharr), dtype=float)]
                pcg = [float(x) for x in np.asarray(post.cost_gradient(tharr), dtype=float)]
        except Exception as e:
            rep.violation("C06/exception", f"Posterior failed on a valid input: {e!r}",
                          {"case": describe_joint(jc, th), "likelihood": L5.describe(lc), "group": "C"}, True)
            continue
        ys, ss, fs, Jt = L5.coq_inputs(lc)
        mv, mg = L5.magnitudes(lc)
        t = owner_table(jc["comps"])
        ins = all(inside(kd, a, b, Fraction(th[i])) for i, ow in t.items() for kd, a, b in ow)
        pm = OUTSIDE * len(jc["comps"]) if not ins else prior_value_mag(jc["comps"], th)
        plan, gname = f"planC{k}", f"gradC{k}"
        defs.append(f"Definition {plan} := Eval vm_compute in (joint_plan {coq_comps(jc['comps'])} {qlist(th)}).")
        defs.append(f"Definition {gname} := Eval vm_compute in (map Qred (joint_grad {coq_comps(jc['comps'])} {C.cnat(p)} {qlist(th)})).")
        cl = lc["cls"]
        lv = f"({cl}_loglike {ys} {ss} {fs})"
        lg = f"({cl}_gradient {ys} {ss} {fs} {Jt})"
        pgf = f"(fun j => Q2R (nth j {gname} 0%Q))"
        tac = f"cbv [{plan} {gname}]; c06_unfold; interval with (i_prec 90)"
        info = ("C", k, jc, th, {"lc": lc, "value": pv, "grad": pg, "cost": pc, "cgrad": pcg})
        for gid, term, obs, mag in [(f"C{k}_value", f"posterior_logp {lv} (plan_logp {plan})", pv, mv + pm),
                                    (f"C{k}_cost", f"posterior_cost {lv} (plan_logp {plan})", pc, mv + pm)]:
            goals.append((gid, I.goal_abs_close(term, obs, tol_for(mag, obs)), tac))
            goal_info[gid] = info
        gmag = [abs(float(x)) for x in run_joint(jc, th, k, ur)["grad"]]
        for j in range(p):
            for gid, term, obs in [(f"C{k}_grad{j}", f"posterior_grad {lg} {pgf} {j}%nat", pg[j]),
                                   (f"C{k}_cgrad{j}", f"posterior_cost_grad {lg} {pgf} {j}%nat", pcg[j])]:
                goals.append((gid, I.goal_abs_close(term, obs, tol_for(mg[j] + gmag[j], obs)), tac))
                goal_info[gid] = info

    # ---------------- (D) generate_initial_guesses
    nD = 30 if not big else 200
    import inference.priors as P
    dtexts = []
    for k in range(nD):
        lc = L5.gen_case(r, 0)            # Gaussian likelihood
        p = len(lc["theta"])
        jc = gen_joint(r, nmax=p, cmax=p)
        while jc["n"] != p:
            jc = gen_joint(r, nmax=p, cmax=p)
        ties = r.random() < 0.4
        if ties:                           # the likelihood ignores every parameter but the first, and the
            m = lc["model"]               # prior is flat in the others -> equal costs, stability is observable
            m["B"] = [[row[0]] + [0.0] * (p - 1) for row in m["B"]]
            if "Cq" in m:
                m["Cq"] = [[row[0]] + [0.0] * (p - 1) for row in m["Cq"]]
            k0 = r.choice(["gauss", "unif"])
            a0, b0 = gen_params(r, k0, 1, True)
            jc = {"n": p, "exact": True, "comps": [
                {"kind": k0, "p1": a0, "p2": b0, "vars": [0]}] + (
                [{"kind": "unif", "p1": [Fraction(-2)] * (p - 1), "p2": [Fraction(6)] * (p - 1),
                  "vars": list(range(1, p))}] if p > 1 else [])}
        n_s = r.randint(1, 10)
        n_g = r.randint(1, n_s)
        rep.count("D:ties in cost=" + ("possible" if ties else "unlikely"))
        rep.count(f"D:prior_samples={n_s}")
        rep.case(("D", lc, jc, n_s, n_g))
        old = P.rng
        rec = RecRNG(1000 + k, ur)
        if ties:                           # few distinct draws for the first coordinate
            rec.nb, rec.nr = 0, 1
            rec.uniform_hook = lambda: Fraction(ur.randint(0, 3), 4)
        try:
            with warnings.catch_warnings(), quiet():
                like = L5.build(lc)
                jo = run_joint(jc, None, k, ur)
                post = Posterior(likelihood=like, prior=jo["obj"])
                P.rng = rec
                got = post.generate_initial_guesses(n_guesses=n_g, prior_samples=n_s)
                script = rec.script()
                per = len(script) // n_s
                scripts = [script[i * per:(i + 1) * per] for i in range(n_s)]
                # the same tape once more: the samples the code drew and the cost it assigns to each
                P.rng = ReplayRNG(script)
                samples = [np.array(post.prior.sample(), dtype=float, copy=True) for _ in range(n_s)]   # as drawn
                costs = [float(post.cost(x)) for x in samples]
        except Exception as e:
            rep.violation("C06/exception", f"generate_initial_guesses failed: {e!r}",
                          {"case": describe_joint(jc, None), "group": "D"}, True)
            continue
        finally:
            P.rng = old
        if len(script) != per * n_s or per != p or len(got) != n_g:
            rep.violation("C06/guesses", f"generate_initial_guesses drew {len(script)} numbers for {n_s} samples of "
                          f"{p} parameters / returned {len(got)} guesses for n_guesses={n_g}",
                          {"case": describe_joint(jc, None), "group": "D", "n_guesses": n_g, "prior_samples": n_s}, True)
            continue
        if not all(math.isfinite(c) for c in costs):
            continue
        obs = C.clist([qlist([C.frac(x) for x in np.asarray(g, dtype=float)]) for g in got])
        dtexts.append((("D", k, jc, lc, n_s, n_g, scripts, got, costs, samples),
                       f"({coq_comps(jc['comps'])}, {C.cnat(jc['n'])}, {C.clist([qlist(x) for x in scripts])}, "
                       f"{qlist(costs)}, {C.cnat(n_g)}, {obs})"))
        rep.count("D:distinct costs=" + ("all" if len(set(costs)) == len(costs) else "ties present"))


    # ---------------- (H) call histories: what every array the caller still holds reads at the end
    nH = 64 if not big else 600
    hcases = []
    for k in range(nH):
        typ = ["joint", "post", "joint", "comp"][k % 4]
        od = hist_object(r, typ)
        ops = gen_history(r, od, big)
        ex = exec_history(od, ops, k, ur)
        rep.count(f"H:object={typ}")
        rep.count("H:operations=" + ("5-8" if len(ops) <= 8 else "9-12" if len(ops) <= 12 else "13+"))
        ncalls = sum(1 for o in ops if o[0] == "call" and o[1] != "sample")
        rep.count("H:gradient-type calls=" + ("2-3" if ncalls <= 3 else "4+"))
        argsof = [o[2] for o in ops if o[0] == "call" and o[1] != "sample"]
        if len(set(argsof)) < len(argsof):
            rep.count("H:same array object passed again")
        if any(o[0] == "add" for o in ops):
            rep.count("H:in-place update by the caller")
        rep.case(("H", typ, describe_hist(od, ops)))
        if k < 1:
            rep.sample({"group": "H", "history": describe_hist(od, ex.get("ops", ops))})
        if ex["status"] != "ok":
            rep.violation("C06/exception", f"call history failed on valid inputs: {ex.get('error')}",
                          {"case": describe_hist(od, ops), "group": "H"}, True)
            continue
        nums = [abs(float(x)) for a in ex["finals"] for x in a] + [abs(float(x)) for x in ex["mags"]]
        for o in ex["ops"]:
            for x in o[1:]:
                if isinstance(x, (list, tuple)):
                    nums += [abs(float(v)) if v is not None else math.inf for v in x]
        if not all(math.isfinite(v) for v in nums):
            rep.count("H:non-finite (implementation-only oracle)")
            bad = oracle_history(od, ex)
            if bad:
                rep.violation("C06/history", bad[0], {"case": describe_hist(od, ops), "group": "H"}, True)
            continue
        exact = od["exact"] and od["type"] != "post"
        tol = Fraction(0) if exact else HTOL * 64 * (1 + C.frac(max(nums + [0.0])))
        rep.count("H:compared " + ("exactly" if exact else "to 1e-12 of the largest magnitude"))
        fin = C.clist([qlist([C.frac(x) for x in a]) for a in ex["finals"]], ";\n    ")
        hcases.append((("H", k, od, ops, ex),
                       f"(mkHist {coq_hist_obj(od)}\n   {coq_hist_ops(ex['ops'])}\n   {fin}\n   {C.cq(tol)})"))

    # ---------------- run the exact correspondences inside Coq
    files, index = [], []
    CH = 60
    for nm, lst, typ, chk, hdr in (
            ("single", ccases, "list (comp * list Q * list Q * list bound * Q)", "check_ccase", HEADER),
            ("joint", jcases, "list jcase", "check_jcase", HEADER),
            ("guesses", dtexts, "list (list comp * nat * list (list Q) * list Q * nat * list (list Q))", "check_guesses_full", HEADER),
            ("history", hcases, "list hcase", "check_hcase", HEADER_H)):
        for i in range(0, len(lst), CH):
            chunk = lst[i:i + CH]
            body = "Definition cases : " + typ + " :=\n " + C.clist([t for _, t in chunk], ";\n ") + "."
            pth = C.write_case_file(PROP, f"cases_{nm}_{i // CH}", hdr, body, [f"failing {chk} cases 0"])
            files.append(pth)
            index.append([inf for inf, _ in chunk])
    outs = C.run_case_files(files, jobs=12)
    suspicious = []
    n_checked = 0
    for pth, idx, (ok, res, log) in zip(files, index, outs):
        if not ok or 0 not in res:
            rep.obligation(False)
            rep.violation("C06/correspondence-run", f"case file {pth.name} did not evaluate",
                          {"theorem_or_correspondence": f"correspondence file {pth.name}", "log": log}, False)
            continue
        rep.obligation(True)
        n_checked += len(idx)
        for jx in res[0]:
            suspicious.append(idx[jx])
    rep.coverage["cases_compared_inside_coq"] = n_checked

    # ---------------- interval goals
    pre = PREAMBLE + "\n".join(defs) + "\n"
    failed, broken = I.check_goals(PROP, "goals", goals, preamble=pre, chunk=18, jobs=16)
    rep.obligation(True, len(goals) - len(failed))
    rep.obligation(False, len(failed))
    rep.coverage["interval_goals"] = len(goals)
    rep.coverage["interval_goals_failed"] = len(failed)
    rep.coverage["correspondence_disagreements"] = len(suspicious) + len(failed)
    for b in broken:
        rep.violation("C06/correspondence-run", "a goal file did not run",
                      {"theorem_or_correspondence": "coq/gen/C06 goal file", "log": b}, False)

    # ---------------- failing-input search
    per_tag = {}
    for info in suspicious:
        tag = info[0]
        per_tag[tag] = per_tag.get(tag, 0) + 1
        if per_tag[tag] > (1 if tag == "E" else 2):
            continue
        if tag == "H":
            _, k, od, ops, ex = info
            bad = oracle_history(od, ex)
            if bad:
                small = shrink_history(od, ops, k, ur)
                ex2 = exec_history(od, small, k, ur)
                bad2 = oracle_history(od, ex2) if ex2["status"] == "ok" else []
                if not bad2:
                    small, bad2 = ops, bad
                rep.violation("C06/history", bad2[0], {"case": describe_hist(od, small), "group": "H"}, True)
            else:
                rep.violation("C06/correspondence", "call history: the arrays the caller holds at the end differ from the model, property not seen to fail",
                              {"theorem_or_correspondence": "Model.PriorHistory.check_hcase", "case": describe_hist(od, ops)}, False)
        elif tag == "E":
            _, k, c, th, o = info
            rep.violation("C06/uniform-gradient-alias",
                          f"UniformPrior.gradient returns {[float(x) for x in o['grad']]} (not the derivative 0 of a flat "
                          f"log-density) after the caller added {o['add']} in place to the array returned by the previous call",
                          {"case": describe_joint({"n": len(th), "comps": [c]}, th), "group": "E", "caller_adds": o["add"]}, True)
        elif tag == "A":
            _, k, c, th, o = info
            jc1 = {"n": len(th), "comps": [c]}
            bad = []
            for pos, i in enumerate(c["vars"]):
                kind, a, b = c["kind"], Fraction(c["p1"][pos]), Fraction(c["p2"][pos])
                x = Fraction(th[i])
                want = (a - x) / (b * b) if kind == "gauss" else ((-1 / a if x >= 0 else 0) if kind == "exp" else 0)
                if abs(o["grad"][pos] - want) > Fraction(1, 10 ** 9) * (abs(want) + abs(o["grad"][pos])):
                    bad.append(f"gradient entry {pos} is {float(o['grad'][pos])!r}, derivative is {float(want)!r}")
                wb = {"gauss": (None, None), "exp": (Fraction(0), None), "unif": (a, b)}[kind]
                if o["bounds"][pos] != wb:
                    bad.append(f"bounds entry {pos} is {o['bounds'][pos]}, support is {wb}")
            if bad:
                rep.violation("C06/class", f"{c['kind']} prior: " + "; ".join(bad[:2]), {"case": describe_joint(jc1, th), "group": "A"}, True)
            else:
                rep.violation("C06/correspondence", "stand-alone prior and model disagree, property not seen to fail",
                              {"theorem_or_correspondence": "Model.JointPrior.check_ccase", "case": describe_joint(jc1, th)}, False)
        elif tag == "B":
            _, k, jc, th, o = info
            bad = oracle_joint(jc, th, o)
            if bad:
                rep.violation("C06/routing", "; ".join(bad[:2]), {"case": describe_joint(jc, th), "group": "B"}, True)
            else:
                rep.violation("C06/correspondence", "JointPrior and model disagree, property not seen to fail",
                              {"theorem_or_correspondence": "Model.JointPrior.check_jcase", "case": describe_joint(jc, th)}, False)
        elif tag == "B-invalid":
            _, k, jc, th, o = info
            t = owner_table(jc["comps"])
            ok_cfg = sorted(t) == list(range(jc["n"])) and all(len(v) == 1 for v in t.values())
            if o["status"] == "ok" and not ok_cfg:
                rep.violation("C06/constructor", "JointPrior accepted components whose indices do not partition 0..n-1",
                              {"case": describe_joint(jc, None), "group": "B-invalid"}, True)
            else:
                rep.violation("C06/correspondence", "JointPrior constructor and model disagree on validity",
                              {"theorem_or_correspondence": "Model.JointPrior.joint_valid", "case": describe_joint(jc, None)}, False)
        else:   # D
            _, k, jc, lc, n_s, n_g, scripts, got, costs, samples = info
            order = sorted(range(n_s), key=lambda i: costs[i])[:n_g]
            want = [samples[i] for i in order]
            gotl = [np.asarray(g, dtype=float) for g in got]
            if len(gotl) != len(want) or any(not np.array_equal(a, b) for a, b in zip(gotl, want)):
                rep.violation("C06/guesses", "generate_initial_guesses does not return the prior draws of lowest cost in increasing (stable) order",
                              {"case": describe_joint(jc, None), "group": "D", "likelihood": L5.describe(lc),
                               "scripts": [[str(x) for x in s] for s in scripts], "n_guesses": n_g,
                               "costs": costs, "returned": [list(map(float, g)) for g in gotl]}, True)
            else:
                rep.violation("C06/correspondence", "guess selection and model disagree, property not seen to fail",
                              {"theorem_or_correspondence": "Model.JointPrior.check_guesses_full", "case": describe_joint(jc, None)}, False)
    seen = set()
    for gid, log in failed:
        info = goal_info[gid]
        key = (info[0], info[1]) if info[0] == "C" else (info[0], info[1], "grad" if "grad" in gid else "value")
        if key in seen or len(seen) >= 4:
            continue
        seen.add(key)
        tag, k, jc, th, o = info
        if tag == "A":
            jc = {"n": len(th), "comps": [jc]}
        if tag in ("A", "B"):
            ok = oracle_value_goal(f"{tag}{k}", jc["comps"], th, o["value"])
            if ok is False:
                rep.violation("C06/value", f"prior value {o['value']!r} is not the sum over indices of the log of the named densities",
                              {"case": describe_joint(jc, th), "group": tag}, True)
                continue
        else:
            lc = o["lc"]
            with warnings.catch_warnings(), quiet():
                like = L5.build(lc)
                pr = run_joint(jc, None, 0, ur)["obj"]
                tharr = np.array(lc["theta"])
                sv = float(like(tharr)) + float(pr(tharr))
                sg = np.asarray(like.gradient(tharr)) + np.asarray(pr.gradient(tharr))
            rel = lambda a, b: abs(a - b) > 1e-9 * (abs(a) + abs(b) + 1e-300)
            bad = []
            if rel(sv, o["value"]):
                bad.append(f"Posterior value {o['value']!r} is not likelihood + prior = {sv!r}")
            if rel(-sv, o["cost"]):
                bad.append(f"Posterior cost {o['cost']!r} is not -(likelihood + prior) = {-sv!r}")
            if any(rel(float(a), float(b)) for a, b in zip(sg, o["grad"])):
                bad.append(f"Posterior gradient {o['grad']} is not likelihood gradient + prior gradient = {list(map(float, sg))}")
            if any(rel(-float(a), float(b)) for a, b in zip(sg, o["cgrad"])):
                bad.append(f"Posterior cost_gradient {o['cgrad']} is not -(likelihood gradient + prior gradient)")
            if bad:
                rep.violation("C06/posterior", "; ".join(bad[:2]),
                              {"case": describe_joint(jc, th), "likelihood": L5.describe(lc), "group": "C"}, True)
                continue
        rep.violation("C06/correspondence", f"model and implementation disagree on goal {gid}, property not seen to fail",
                      {"theorem_or_correspondence": f"RealModel.Priors goal {gid}", "case": describe_joint(jc, th), "log": log[-400:]}, False)

    rep.assumptions = [
        "the laws of numpy's normal / exponential / uniform generators are trusted; what is checked is which "
        "loc / scale / low / high they are called with and where the drawn coordinates are stored",
        "Gaussian normalisation (int exp(-x^2/2) = sqrt(2 pi)) is a named classical fact, not proved",
        "-1e100 outside the support is modelled as the value -10^100 (the true log-density is -infinity)",
        "gradient entries of priors with non power-of-two sigma / beta are compared to 1e-12 relative (1/sigma is rounded by the code)",
        "call histories: likelihood.gradient is taken to return a new array (its value at the argument's contents is "
        "supplied by the run); histories with a rounded 1/sigma or a likelihood are compared to 1e-12 of the largest magnitude involved",
    ]
    return rep.finish(
        level="proof",
        checker_cmd="make -C /verif/coq (coqc 8.16.1) + coqc on coq/gen/C06/*.v (vm_compute case files; coq-interval goals)",
        trusted_base=C.KERNEL_TB + [
            "axioms (Coq Reals / Coquelicot): ClassicalDedekindReals.sig_forall_dec, sig_not_dec, "
            "FunctionalExtensionality.functional_extensionality_dep, Classical_Prop.classic",
            "coq-interval (reflexive; primitive 63-bit integers / floats of the kernel)"],
        rule="(A) stand-alone priors, 1-4 parameters at permuted positions of a longer theta, double hyper-parameters "
             "with scales 1e-6..1e6, theta inside / edge / outside; (B) JointPrior: 1-7 indices shuffled and cut into "
             "1-5 components in random order, kinds from random pools (same-type merging in about half), dyadic "
             "hyper-parameters, theta inside / edge / outside / mixed, 12% invalid configurations; (C) Posterior with "
             "each likelihood class; (D) generate_initial_guesses with 1-10 prior samples, ties in 40%; (H) call "
             "histories of 6-17 operations on one JointPrior / stand-alone prior / Posterior (new parameter vector, "
             "gradient / cost_gradient / sample / Posterior.gradient / Posterior.cost_gradient on a held array, in-place "
             "update by the caller of a parameter vector or of a returned array, density evaluation), every history with "
             "two gradient calls at different contents and every held array re-read at the end; every case is "
             "non-trivial; distinct = distinct generated inputs")


class ReplayRNG:
    """Replays a tape of primitive draws through the same arithmetic as ScriptedRNG."""

    def __init__(self, tape):
        self.tape = [float(x) for x in tape]

    def _take(self, shape_src):
        n = int(np.asarray(shape_src).size)
        out = np.array(self.tape[:n], dtype=float)
        del self.tape[:n]
        return out.reshape(np.asarray(shape_src).shape)

    def normal(self, loc=0.0, scale=1.0, size=None):
        return loc + scale * self._take(np.broadcast_arrays(loc, scale)[0])

    def exponential(self, scale=1.0, size=None):
        return scale * self._take(scale)

    def uniform(self, low=0.0, high=1.0, size=None):
        return low + (high - low) * self._take(np.broadcast_arrays(low, high)[0])


def replay(path):
    d = json.load(open(path))
    rp = d["replay"]
    if "case" not in rp:
        print("replay names a broken theorem / correspondence:", rp.get("theorem_or_correspondence"))
        return 1
    group = rp.get("group", "B")
    ur = C.rng_for(PROP, "replay")
    if group == "H":
        od, ops = undescribe_hist(rp["case"])
        ex = exec_history(od, ops, 0, ur)
        if ex["status"] != "ok":
            print("history failed:", ex.get("error"))
            return 1
        for j, (f, sh) in enumerate(zip(ex["finals"], ex["shadows"])):
            print(f"held #{j}: reads {f.tolist()} at the end; handed over (plus the caller's own updates) as {sh.tolist()}")
        bad = oracle_history(od, ex)
        print("failures:", bad)
        return 1 if bad else 0
    jc, th = undescribe_joint(rp["case"])
    if group == "E":
        obj = build_comp(jc["comps"][0], 0)
        tharr = np.array([float(t) for t in th])
        g1 = obj.gradient(tharr)
        g1 += rp.get("caller_adds", 1.0)
        g2 = obj.gradient(tharr)
        print("UniformPrior.gradient after the caller's in-place update:", g2)
        return 1 if np.any(g2 != 0.0) else 0
    if group == "A":
        c = jc["comps"][0]
        out = run_single(c, th, 0)
        print("implementation returns:", {k: v for k, v in out.items()})
        if out["status"] != "ok":
            return 1
        ok = oracle_value_goal("replay", [c], th, out["value"])
        print("value is the sum of the log named densities:", ok)
        return 0 if ok else 1
    if group == "B-invalid":
        out = run_joint(jc, None, 0, ur)
        print("constructor:", out["status"], out.get("error", ""))
        t = owner_table(jc["comps"])
        ok_cfg = sorted(t) == list(range(jc["n"])) and all(len(v) == 1 for v in t.values())
        return 1 if (out["status"] == "ok") != ok_cfg else 0
    if group == "C":
        from inference.posterior import Posterior
        lc = L5.undescribe(rp["likelihood"])
        with warnings.catch_warnings(), quiet():
            like = L5.build(lc)
            pr = run_joint(jc, None, 0, ur)["obj"]
            post = Posterior(likelihood=like, prior=pr)
            t = np.array(lc["theta"])
            sv = float(like(t)) + float(pr(t))
            sg = np.asarray(like.gradient(t)) + np.asarray(pr.gradient(t))
            got = (float(post(t)), float(post.cost(t)), np.asarray(post.gradient(t)), np.asarray(post.cost_gradient(t)))
        print("likelihood + prior:", sv, list(sg))
        print("Posterior value, cost, gradient, cost_gradient:", got)
        ok = (abs(got[0] - sv) <= 1e-9 * (abs(sv) + 1) and abs(got[1] + sv) <= 1e-9 * (abs(sv) + 1)
              and np.allclose(got[2], sg, rtol=1e-9, atol=0) and np.allclose(got[3], -sg, rtol=1e-9, atol=0))
        return 0 if ok else 1
    if group == "D":
        print("replay of a guess-selection case: see the 'returned' and 'costs' fields of the replay file")
        return 1
    out = run_joint(jc, th, 0, ur)
    print("implementation returns:", {k: v for k, v in out.items() if k != "obj"})
    if out["status"] != "ok":
        return 1
    bad = oracle_joint(jc, th, out)
    print("per-index failures:", bad)
    ok = oracle_value_goal("replay", jc["comps"], th, out["value"])
    print("value is the sum of the log named densities:", ok)
    return 1 if bad or ok is False else 0
