"""C01 -- MCMC samplers draw from the posterior the user supplied.

Theorems (coq/theories/Properties/C01.v, AcceptBounds.v): Metropolis detailed
balance and stationarity of the single-attempt kernel on finite state spaces;
the executable accept decision of the sampler models is `u < exp(p_new-p_old)`
over the reals (rational enclosures of exp, proved); every compared quantity is
beta*(logp y - logp x); stretch-move reverse / balance / z-sampler facts; the
retry-until-accept chain has stationary weights pi*A (refuted as a sampler of
pi: known finding D3); the pinned stretch proposal is irreversible (D2, repaired).

Tie to the code: every recorded transition of the real samplers -- every
proposal point, every accept AND every reject branch -- is replayed through
Model/Samplers.v inside Coq with the same draws.

Not proved: the ergodic limit itself, P(U<p)=p, the stretch-move Jacobian,
HMC detailed balance in the continuum, effect of on-line adaptation.
"""
from __future__ import annotations

import math
import warnings
from fractions import Fraction as F

import numpy as np

from lib import common as C
from lib import samplers as S
from lib import sampler_cases as SC

PROP = "C01"
THEOREMS = ["C01_mh_detailed_balance", "C01_mh_stationary", "C01_retry_kernel_stationary",
            "C01_retry_weighted_ok", "C01_retry_chain_refuted", "C01_stretch_balance",
            "C01_stretch_reversible", "C01_stretch_support_inverse", "C01_stretch_pinned_irreversible",
            "C01_g_symmetry", "C01_zmap_range", "C01_zmap_inverse", "C01_tempering_factor",
            "C01_decision_is_metropolis", "C01_below_mh_prob",
            "C01_reflect_proposal_reversible", "C01_abs_proposal_reversible"]
ACCEPT_THEOREMS = ["AcceptBounds_exp_lo", "AcceptBounds_exp_hi", "AcceptBounds_decide_accept",
                   "AcceptBounds_decide_accept_any"]

KEY_RETRY = "C01/retry-until-accept"
KEY_REFLECT_PCA = "C01/reflected-oblique-proposal/PcaChain"
KEY_REFLECT_ENS = "C01/reflected-oblique-proposal/EnsembleSampler"


# ------------------------------------------------------------------ branch statistics
def branch_stats(rep, cfg, recs):
    """Count, from the recorded draws and evaluations, how many attempts were
    auto-accepted / accepted by a draw / rejected; and whether the sampler retried
    inside one call (the structure behind known finding D3)."""
    retried = False
    for rc in recs:
        n_eval = len(rc.events)
        if cfg["kind"] in ("gibbs", "pca"):
            base = cfg["n"]
        elif cfg["kind"] == "ensemble":
            base = len(rc.pre["pos"])
        else:
            base = 1
        if n_eval > base:
            retried = True
            rep.count("attempts_rejected", n_eval - base)
        rep.count("attempts_accepted", min(base, n_eval))
    return retried


# ------------------------------------------------------------------ statistical oracle [R]
def stat_oracle(kind, T, seed, n_steps=6000):
    """Long seeded run of the REAL sampler on a Gaussian target; returns a list of
    gross failures of `samples follow exp(logp/T)` (used only to look for a
    concrete failing input after a correspondence has broken, and as a labelled
    test in the thorough tier).  Tolerances are wide (known finding D3 biases the
    variance by up to ~15%)."""
    from inference.mcmc.gibbs import GibbsChain, MetropolisChain
    from inference.mcmc.pca import PcaChain
    from inference.mcmc.hmc import HamiltonianChain
    from inference.mcmc.ensemble import EnsembleSampler
    mean = np.array([1.0, -2.0])
    sd = np.array([1.0, 0.5])

    def logp(x):
        return float(-0.5 * (((np.asarray(x) - mean) / sd) ** 2).sum())

    def grad(x):
        return -(np.asarray(x) - mean) / sd ** 2

    rng = np.random.default_rng(seed)
    start = mean + 0.3
    with S.quiet(), warnings.catch_warnings():
        warnings.simplefilter("ignore")
        if kind in ("gibbs", "metro", "pca"):
            cls = {"gibbs": GibbsChain, "metro": MetropolisChain, "pca": PcaChain}[kind]
            ch = cls(posterior=logp, start=start, widths=sd * math.sqrt(T), temperature=T, display_progress=False)
            S.attach_rng(ch, rng)
            for _ in range(n_steps):
                ch.take_step()
            x = ch.get_sample(burn=n_steps // 5)
        elif kind == "hmc":
            ch = HamiltonianChain(posterior=logp, start=start, grad=grad, epsilon=0.2, temperature=T,
                                  display_progress=False)
            ch.rng = rng
            ch.steps = 10
            for _ in range(n_steps // 3):
                ch.take_step()
            x = ch.get_sample(burn=n_steps // 15)
        else:
            T = 1.0
            sp = mean + rng.normal(size=(8, 2)) * sd
            ch = EnsembleSampler(posterior=logp, starting_positions=sp, display_progress=False)
            ch.rng = rng
            ch.advance(n_steps // 4)
            x = ch.get_sample(burn=8 * (n_steps // 20))
    m, v = x.mean(axis=0), x.var(axis=0)
    want_v = sd ** 2 * T
    bad = []
    if (abs(m - mean) > 0.2 * np.sqrt(want_v)).any():
        bad.append(f"chain mean {m.tolist()} vs target mean {mean.tolist()}")
    if (abs(v / want_v - 1) > 0.3).any():
        bad.append(f"chain variance {v.tolist()} vs target variance {want_v.tolist()} (T={T})")
    return bad, {"sampler": kind, "temperature": T, "numpy_seed": seed, "steps": n_steps,
                 "target": "N([1,-2], diag([1,0.25]))^(1/T)", "observed_mean": m.tolist(),
                 "observed_variance": v.tolist()}


def ensemble_support_oracle(alpha):
    """Property-level probe of the real EnsembleSampler: the stretch factor z is drawn from
    g(z) ~ z^(-1/2) on [1/alpha, alpha], so a uniform draw -> 0 must give z -> 1/alpha and
    a draw -> 1 must give z -> alpha (otherwise some proposals have no reverse move)."""
    from inference.mcmc.ensemble import EnsembleSampler
    from lib.scripted import ScriptedRNG, RecordingPosterior
    bad = []
    pos = np.array([[0.0, 0.0], [1.0, 2.0], [3.0, -1.0]])
    for u, want, name in ((F(1, 2 ** 40), 1 / alpha, "1/alpha"), (1 - F(1, 2 ** 30), alpha, "alpha")):
        post = RecordingPosterior(lambda x: F(0))
        with warnings.catch_warnings():
            warnings.simplefilter("ignore")
            es = EnsembleSampler(posterior=post, starting_positions=pos.copy(), alpha=alpha, display_progress=False)
        es.rng = ScriptedRNG(1, tape=[1, u, F(1, 2 ** 40)])
        n0 = len(post.evals)
        with S.quiet():
            es.advance(1)
        y = [float(v) for v in post.evals[n0][0]]
        xi, xj = pos[0], pos[1]
        z = (y[0] - xj[0]) / (xi[0] - xj[0])
        if abs(z - want) > 1e-6 * want:
            bad.append(f"alpha={alpha}: a uniform draw of {float(u)!r} gives stretch factor z={z!r}, "
                       f"but the end of the support is {name}={want!r}")
    return bad


# ------------------------------------------------------------------ known finding D4
def fold_preimages(x, lo, w, kmax):
    """All theta with reflect(theta) = x, |k| <= kmax (the fold characterisation
    proved in Properties/C04: theta = x + 2kw or 2lo + 2kw - x)."""
    out = set()
    for k in range(-kmax, kmax + 1):
        out.add(x + 2 * k * w)
        out.add(2 * lo + 2 * k * w - x)
    return out


def oblique_line_solutions(src, dst, v, lo, w, tmax):
    """All t with |t| <= tmax and reflect(src + t v) = dst, in exact rationals."""
    sols = None
    for i in range(len(src)):
        kmax = int(tmax * abs(v[i]) / (2 * w[i])) + 3
        cand = {(th - src[i]) / v[i] for th in fold_preimages(dst[i], lo[i], w[i], kmax)}
        sols = cand if sols is None else sols & cand
    return sorted(t for t in sols if abs(t) <= tmax)


def pca_reflect_finding():
    """Exhibit on the real PcaChain that a reflected proposal along an oblique
    direction is not reversible: q(x->y) >> q(y->x)."""
    from inference.mcmc.pca import PcaChain
    lo, hi = [F(0), F(0)], [F(1), F(1)]
    w = [F(1), F(1)]
    v = [F(3, 5), F(4, 5)]
    x = [F(1, 4), F(1, 2)]
    with warnings.catch_warnings():
        warnings.simplefilter("ignore")
        ch = PcaChain(posterior=lambda t: 0.0, start=np.array([0.25, 0.5]), widths=np.array([1.0, 1.0]),
                      bounds=(np.array([0.0, 0.0]), np.array([1.0, 1.0])), display_progress=False)
    vf = np.array([0.6, 0.8])
    y_impl = ch.process_proposal(np.array([0.25, 0.5]) + 0.75 * vf)
    y = [F(7, 10), F(9, 10)]
    if not np.allclose(y_impl, [0.7, 0.9], atol=1e-12):
        return None        # the code no longer folds this way: nothing to report here
    tmax = F(40)
    fwd = oblique_line_solutions(x, y, v, lo, w, tmax)
    back = oblique_line_solutions(y, x, v, lo, w, tmax)
    # every claimed solution is checked on the real code
    for t in back[:8]:
        got = ch.process_proposal(np.array([0.7, 0.9]) + float(t) * vf)
        if not np.allclose(got, [0.25, 0.5], atol=1e-9):
            return None
    phi = lambda t: math.exp(-0.5 * float(t) ** 2) / math.sqrt(2 * math.pi)
    q_fwd_lower = phi(F(3, 4))
    q_back_upper = sum(phi(t) for t in back) + 2 * phi(40) * 41
    if F(3, 4) in fwd and q_fwd_lower > 10 * q_back_upper:
        return {"bounds": "[0,1]^2", "direction": "(3/5, 4/5)", "sigma": 1, "x": "(1/4, 1/2)", "y": "(7/10, 9/10)",
                "forward_steps_t": [str(t) for t in fwd[:6]], "backward_steps_t": [str(t) for t in back[:6]],
                "q_forward_lower_bound": q_fwd_lower, "q_backward_upper_bound": q_back_upper}
    return None


def ensemble_reflect_finding():
    """Real EnsembleSampler with bounds: a reflected stretch proposal that no
    stretch factor in [1/a, a] can undo."""
    from inference.mcmc.ensemble import EnsembleSampler
    lo, hi, w = [F(0), F(0)], [F(1), F(1)], [F(1), F(1)]
    xi, xj = [F(3, 4), F(7, 8)], [F(1, 4), F(1, 2)]
    z = F(2)
    pos = np.array([[0.75, 0.875], [0.25, 0.5], [0.5, 0.25]])
    with warnings.catch_warnings():
        warnings.simplefilter("ignore")
        es = EnsembleSampler(posterior=lambda t: 0.0, starting_positions=pos.copy(), alpha=2.0,
                             bounds=(np.array([0.0, 0.0]), np.array([1.0, 1.0])), display_progress=False)
    raw = np.array([0.25, 0.5]) + 2.0 * (np.array([0.75, 0.875]) - np.array([0.25, 0.5]))   # (1.25, 1.25)
    y_impl = es.process_proposal(raw)
    if not np.allclose(y_impl, [0.75, 0.75], atol=1e-12):
        return None
    y = [F(3, 4), F(3, 4)]
    d = [y[0] - xj[0], y[1] - xj[1]]          # reverse move: X_j + z' (Y - X_j)
    sols = oblique_line_solutions(xj, xi, d, lo, w, F(3))
    inside = [t for t in sols if F(1, 2) <= t <= 2]
    if not inside:
        return {"bounds": "[0,1]^2", "alpha": 2, "X_i": "(3/4, 7/8)", "X_j": "(1/4, 1/2)", "z": 2,
                "Y = reflect(X_j + z (X_i - X_j))": "(3/4, 3/4)",
                "stretch factors that lead back from Y to X_i": [str(t) for t in sols],
                "support of z": "[1/2, 2]"}
    return None


# ------------------------------------------------------------------ main
def run(rep: C.Report, tier: str) -> int:
    r = C.rng_for(PROP, "cases")
    C.clean_gen(PROP)
    info = C.prove_and_audit(rep, PROP, THEOREMS)
    if info is not None:
        try:
            a2 = C.coq_audit(PROP + "_accept", ACCEPT_THEOREMS, "IT.Properties.AcceptBounds")
            rep.obligation(True, len(ACCEPT_THEOREMS))
            rep.coverage["accept_bounds_audit"] = a2
        except C.ProofFailure as e:
            rep.obligation(False, len(ACCEPT_THEOREMS))
            rep.violation("C01/proof", f"proof obligation no longer checks: {e.what}",
                          {"theorem_or_correspondence": e.what, "log": e.log[-1000:]}, False)

    per_kind = 10 if tier == "quick" else 60
    nsteps = 8 if tier == "quick" else 14
    terms, owners, cfgs, retry_seen = [], [], [], {}
    for kind in SC.SAMPLERS:
        for _ in range(per_kind):
            cfg = SC.make_config(r, kind)
            cfgs.append(cfg)
            ci = len(cfgs) - 1
            rep.count("sampler=" + kind)
            rep.count("T=" + str(cfg["T"]))
            try:
                with warnings.catch_warnings():
                    warnings.simplefilter("ignore")
                    ch, post, rng, fn, recs = SC.record(cfg, nsteps if kind != "ensemble" else 3)
            except Exception as e:
                rep.violation("C01/exception", f"{kind}: the sampler failed on a valid configuration: {e!r}",
                              {"case": SC.describe(cfg)}, True)
                continue
            rep.case((SC.describe(cfg),), nontrivial=True)
            if branch_stats(rep, cfg, recs):
                retry_seen.setdefault(kind, SC.describe(cfg))
            ts = SC.coq_terms(cfg, recs)
            terms += ts
            owners += [(ci, k) for k in range(len(ts))]
            rep.count("transitions", len(ts))
            rep.count("posterior_evaluations", len(post.evals))
            if len(rep.samples) < 3:
                rc = recs[0]
                rep.sample({"sampler": kind, "config": SC.describe(cfg),
                            "first_transition": {"tape": [str(t) for t in rc.tape],
                                                 "evaluations": [[[str(v) for v in p], str(q)] for p, q in rc.events]}})

    # chains run under parallel tempering: real coordinator + real worker loop (in one
    # process), exchanges accepted, then the next transitions of every chain are recorded
    from lib import pt_inproc
    from lib.scripted import ScriptedRNG
    for kind in ("gibbs", "pca", "hmc"):
        for _ in range(2 if tier == "quick" else 8):
            cfg = SC.make_config(r, kind)
            try:
                with warnings.catch_warnings():
                    warnings.simplefilter("ignore")
                    group = [SC.build(dict(cfg, T=T, rng_seed=cfg["rng_seed"] + j))
                             for j, T in enumerate([1.0, 2.0, 4.0])]
                    prng = ScriptedRNG(cfg["rng_seed"] + 17)
                    prng.uniform_hook = lambda: 2.0 ** -40
                    pt = pt_inproc.make_pt([g[0] for g in group], prng, lambda seq: prng.choice(seq))
                    for rounds in range(2):
                        pt.take_steps(2)
                        pt.swap()
                        for j, (ch, post, rng, fn) in enumerate(group):
                            c2 = dict(cfg, T=[1.0, 2.0, 4.0][j])
                            if kind == "gibbs":
                                recs = S.record_gibbs_like(ch, post, rng, 1, "gibbs")
                            elif kind == "pca":
                                recs = S.record_pca(ch, post, rng, 1)
                            else:
                                recs = S.record_hmc(ch, post, rng, 1)
                            cfgs.append(c2)
                            ts = SC.coq_terms(c2, recs)
                            terms += ts
                            owners += [(len(cfgs) - 1, 0)] * len(ts)
                    rep.count("parallel_tempering_groups")
                    rep.count("exchanges_accepted", int(pt.successful_swaps.sum()))
                    rep.case(("pt", SC.describe(cfg)))
            except Exception as e:
                rep.violation("C01/exception", f"{kind} under parallel tempering: {e!r}", {"case": SC.describe(cfg)}, True)

    # on-line tuning of widths / step size (Model/Adaptation.v): bookkeeping and outcome exactly,
    # applied factors by interval goals
    from lib import adaptation
    try:
        a3 = C.coq_audit(PROP + "_adapt", ["Adapt_factor_range", "Adapt_width_positive", "Adapt_direction",
                                           "Adapt_check_interval", "Adapt_band_is_two_sigma"], "IT.Properties.Adaptation")
        rep.obligation(True, 5)
        rep.coverage["adaptation_audit"] = a3
    except C.ProofFailure as e:
        rep.obligation(False, 5)
        rep.violation("C01/proof", f"proof obligation no longer checks: {e.what}",
                      {"theorem_or_correspondence": e.what, "log": e.log[-1000:]}, False)
    adaptation.run(rep, PROP, C.rng_for(PROP, "adaptation"), tier)
    try:      # supplementary theorems (reflected oblique proposals are irreversible (known finding D4))
        _a = C.coq_audit("C01_oblique", ['C01_reflect_preimage', 'C01_reflect_preimage_conv', 'C01_pca_oblique_irreversible', 'C01_ensemble_oblique_irreversible', 'C01_ensemble_no_return', 'C01_axis_fold_reversible', 'C01_axis_fold_reversible_vec'], "IT.Properties.C01Oblique")
        rep.obligation(True, 7)
        rep.coverage["oblique_audit"] = _a
    except C.ProofFailure as _e:
        rep.obligation(False, 7)
        rep.violation("C01/proof", f"proof obligation no longer checks: {_e.what}",
                      {"theorem_or_correspondence": _e.what, "log": _e.log[-1000:]}, False)

    codes, broken = S.run_code_cases(PROP, "trace", terms)
    for b in broken:
        rep.obligation(False)
        rep.violation("C01/correspondence-run", "a generated case file did not evaluate",
                      {"theorem_or_correspondence": "coq/gen/C01 case file", "log": b}, False)
    rep.obligation(True, max(1, (len(terms) + 59) // 60) - len(broken))
    rep.coverage["traces_validated_against_impl"] = sum(1 for c in codes if c == 0)
    rep.coverage["undecided_transitions"] = sum(1 for c in codes if c == 2)

    bad_kinds = {}
    for (ci, k), code in zip(owners, codes):
        if code in (1, 3):
            bad_kinds.setdefault(cfgs[ci]["kind"], (ci, k))
    for kind, (ci, k) in bad_kinds.items():
        cfg = cfgs[ci]
        # failing-input search: long seeded runs of the real sampler
        found = False
        if kind == "ensemble":
            try:
                badz = ensemble_support_oracle(float(cfg["alpha"]))
            except Exception as e:
                badz = [f"stretch-support probe raised {e!r}"]
            if badz:
                found = True
                rep.violation("C01/stretch-support/ensemble", "ensemble: " + "; ".join(badz),
                              {"case": {"alpha": cfg["alpha"], "probe": "stretch factor at the ends of the uniform draw"}}, True)
        for seed in (() if found else (1, 2)):
            try:
                bad, info2 = stat_oracle(kind, cfg["T"] if kind != "ensemble" else 1.0, seed)
            except Exception as e:
                bad, info2 = [f"the sampler raised {e!r}"], {"sampler": kind}
            if bad:
                found = True
                rep.violation(f"C01/distribution/{kind}", f"{kind}: " + "; ".join(bad), {"case": info2}, True)
                break
        if not found:
            rep.violation(f"C01/correspondence/{kind}",
                          f"{kind}: transition {k} of the real sampler is not a transition of the model "
                          "(proposal point, Metropolis decision or tempering differ)",
                          {"theorem_or_correspondence": f"Model.Samplers check for {kind} (transition {k})",
                           "case": SC.describe(cfg)}, False)

    # known findings, exhibited on the real code on every run
    for kind, d in sorted(retry_seen.items()):
        rep.violation(KEY_RETRY, f"{kind} retries inside one take_step until a proposal is accepted and stores "
                      "only the accepted state (stationary weights pi*A, theorem C01_retry_chain_refuted)",
                      {"case": d}, True)
    try:
        w = pca_reflect_finding()
        if w:
            rep.violation(KEY_REFLECT_PCA, "PcaChain: reflected proposal along an oblique direction is not reversible",
                          {"case": w}, True)
        w = ensemble_reflect_finding()
        if w:
            rep.violation(KEY_REFLECT_ENS, "EnsembleSampler: reflected stretch proposal cannot be undone", {"case": w}, True)
    except Exception as e:
        rep.violation("C01/exception", f"reflected-proposal probe failed: {e!r}", {}, True)

    if tier == "thorough":
        for kind in SC.SAMPLERS:
            for T in ((1.0, 4.0) if kind != "ensemble" else (1.0,)):
                bad, info2 = stat_oracle(kind, T, 7)
                rep.count("statistical_runs[R]")
                if bad:
                    rep.violation(f"C01/distribution/{kind}", f"{kind}: " + "; ".join(bad), {"case": info2}, True)

    rep.assumptions = [
        "ergodic convergence, P(U<p)=p, the stretch-move Jacobian and HMC detailed balance in the continuum are cited, not proved",
        "adaptation of widths / step size is frozen during recorded transitions",
        "log-density drawn from the rational quadratic family in executions (a Section variable in the theorems)",
    ]
    return rep.finish(
        level="proof",
        checker_cmd="make -C /verif/coq + coqc on coq/gen/C01/*.v (vm_compute of Model.Samplers on recorded transitions)",
        trusted_base=C.KERNEL_TB + ["axioms (Reals): ClassicalDedekindReals.sig_forall_dec, sig_not_dec, "
                                    "FunctionalExtensionality.functional_extensionality_dep, Classical_Prop.classic"],
        rule="random configurations per sampler x recorded transitions with scripted draws (uniform draws spread "
             "over [2^-40, 1-2^-30] so both accept and reject branches occur: see attempts_accepted / "
             "attempts_rejected); distinct = distinct configuration")


def replay(path):
    import json
    d = json.load(open(path))
    rp = d["replay"]
    c = rp.get("case") or {}
    if "numpy_seed" in c:
        bad, info = stat_oracle(c["sampler"], c["temperature"], c["numpy_seed"], c["steps"])
        print(info, bad)
        return 1 if bad else 0
    print("replay names:", rp.get("theorem_or_correspondence") or d.get("what"))
    return 1
