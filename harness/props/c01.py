"""C01 -- MCMC samplers draw from the posterior the user supplied.

Theorems (coq/theories/Properties/C01.v, AcceptBounds.v): Metropolis detailed
balance and stationarity of the single-attempt kernel on finite state spaces;
the executable accept decision of the sampler models is `u < exp(p_new-p_old)`
over the reals (rational enclosures of exp, proved); every compared quantity is
beta*(logp y - logp x); stretch-move reverse / balance / z-sampler facts; the
retry-until-accept chain has stationary weights pi*A (refuted as a sampler of
pi: known finding D3); the pinned stretch proposal is irreversible (D2, repaired).

Tie to the code: every recorded transition of the real samplers -- every
proposal point, every accept AND every reject branch -- is replayed through
Model/Samplers.v inside Coq with the same draws.

Hamiltonian sampler, mass settings (Properties/C01Mass.v, Model/HmcMass.v): the accept
test exp(H0 - H) is the Metropolis-Hastings probability for the momentum actually drawn
iff the factor used to draw momenta and the inverse mass of the kinetic energy describe
the same mass (L^T inv_mass L = I, any n: C01_hmc_momentum_law); `check_hmc_mass` checks
exactly that on the pre-state of EVERY recorded HMC transition (constructor masses of all
three classes, full random SPD matrices, and the mass in force after the chain's own
estimate_mass).

Input forms (lib/c01forms.py): every sampler is also driven with its numeric arguments
(start, widths, bounds, walker positions, inverse mass) given as lists / tuples of Python
floats or ints and as int64 / int32 / float32 arrays -- the model is dtype-free, so a
sampler that keeps computing in the caller's dtype (truncated proposals) disagrees with it.

Not proved: the ergodic limit itself, P(U<p)=p, the stretch-move Jacobian,
HMC detailed balance in the continuum, effect of on-line adaptation.
"""
from __future__ import annotations

import math
import warnings
from fractions import Fraction as F

import numpy as np

from lib import common as C
from lib import samplers as S
from lib import sampler_cases as SC
from lib import c01forms as CF

PROP = "C01"
THEOREMS = ["C01_mh_detailed_balance", "C01_mh_stationary", "C01_retry_kernel_stationary",
            "C01_retry_weighted_ok", "C01_retry_chain_refuted", "C01_stretch_balance",
            "C01_stretch_reversible", "C01_stretch_support_inverse", "C01_stretch_pinned_irreversible",
            "C01_g_symmetry", "C01_zmap_range", "C01_zmap_inverse", "C01_tempering_factor",
            "C01_decision_is_metropolis", "C01_below_mh_prob",
            "C01_reflect_proposal_reversible", "C01_abs_proposal_reversible"]
ACCEPT_THEOREMS = ["AcceptBounds_exp_lo", "AcceptBounds_exp_hi", "AcceptBounds_decide_accept",
                   "AcceptBounds_decide_accept_any"]

MASS_THEOREMS = ["C01_hmc_momentum_law", "C01_hmc_momentum_law_full", "C01_hmc_start_energy",
                 "C01_hmc_mass_ok_exact", "C01_hmc_transposed_factor_refuted"]
# L^T inv_mass L = I on the doubles of the live mass object: rounding of cholesky / solve_triangular
# is ~1e-16 * condition number (configurations are kept below 1e6); a wrong factor is off by O(0.1)
MASS_TOL = F(1, 10 ** 6)

ADAPT_THEOREMS = ["Adapt_factor_range", "Adapt_width_positive", "Adapt_direction",
                  "Adapt_check_interval", "Adapt_band_is_two_sigma"]
OBLIQUE_THEOREMS = ["C01_reflect_preimage", "C01_reflect_preimage_conv", "C01_pca_oblique_irreversible",
                    "C01_ensemble_oblique_irreversible", "C01_ensemble_no_return", "C01_axis_fold_reversible",
                    "C01_axis_fold_reversible_vec"]

KEY_RETRY = "C01/retry-until-accept"
KEY_REFLECT_PCA = "C01/reflected-oblique-proposal/PcaChain"
KEY_REFLECT_ENS = "C01/reflected-oblique-proposal/EnsembleSampler"


# ------------------------------------------------------------------ branch statistics
def branch_stats(rep, cfg, recs):
    """Count, from the recorded draws and evaluations, how many attempts were
    auto-accepted / accepted by a draw / rejected; and whether the sampler retried
    inside one call (the structure behind known finding D3)."""
    retried = False
    for rc in recs:
        n_eval = len(rc.events)
        if cfg["kind"] in ("gibbs", "pca"):
            base = cfg["n"]
        elif cfg["kind"] == "ensemble":
            base = len(rc.pre["pos"])
        else:
            base = 1
        if n_eval > base:
            retried = True
            rep.count("attempts_rejected", n_eval - base)
        rep.count("attempts_accepted", min(base, n_eval))
    return retried


# ------------------------------------------------------------------ statistical oracle [R]
INT_WALKERS = [[1, -2], [2, -1], [0, -3], [1, -1], [2, -3], [0, -2], [3, -2], [1, -4]]


def stat_oracle(kind, T, seed, n_steps=6000, form=None, inverse_mass=None):
    """Long seeded run of the REAL sampler on a Gaussian target; returns a list of
    gross failures of `samples follow exp(logp/T)` (used only to look for a
    concrete failing input after a correspondence has broken, and as a labelled
    test in the thorough tier).  Tolerances are wide (known finding D3 biases the
    variance by up to ~15%).

    form: the form in which start / widths / walker positions are handed over (one of
    sampler_cases.INPUT_FORMS; integer forms start at the integer point (1, -2)).
    inverse_mass: HamiltonianChain only, a full inverse-mass matrix."""
    from inference.mcmc.gibbs import GibbsChain, MetropolisChain
    from inference.mcmc.pca import PcaChain
    from inference.mcmc.hmc import HamiltonianChain
    from inference.mcmc.ensemble import EnsembleSampler
    mean = np.array([1.0, -2.0])
    sd = np.array([1.0, 0.5])

    def logp(x):
        return float(-0.5 * (((np.asarray(x) - mean) / sd) ** 2).sum())

    def grad(x):
        return -(np.asarray(x) - mean) / sd ** 2

    rng = np.random.default_rng(seed)
    integral = form in SC.INTEGER_FORMS
    start = SC.as_form(mean + (0.3 if form is None else 0.0 if integral else 0.25), form)
    with S.quiet(), warnings.catch_warnings():
        warnings.simplefilter("ignore")
        if kind in ("gibbs", "metro", "pca"):
            cls = {"gibbs": GibbsChain, "metro": MetropolisChain, "pca": PcaChain}[kind]
            widths = sd * math.sqrt(T)
            if form is not None:
                widths = SC.as_form([1.0, 1.0] if integral else [1.0, 0.5], form)
            ch = cls(posterior=logp, start=start, widths=widths, temperature=T, display_progress=False)
            S.attach_rng(ch, rng)
            for _ in range(n_steps):
                ch.take_step()
            x = ch.get_sample(burn=n_steps // 5)
        elif kind == "hmc":
            im = None if inverse_mass is None else np.array(inverse_mass, dtype=float)
            ch = HamiltonianChain(posterior=logp, start=start, grad=grad, epsilon=0.2, temperature=T,
                                  inverse_mass=im, display_progress=False)
            ch.rng = rng
            ch.steps = 10
            for _ in range(n_steps // 3):
                ch.take_step()
            x = ch.get_sample(burn=n_steps // 15)
        else:
            T = 1.0
            sp = mean + rng.normal(size=(8, 2)) * sd
            if form is not None:
                sp = SC.as_form(INT_WALKERS if integral else np.round(sp * 64) / 64, form, array_only=True)
            ch = EnsembleSampler(posterior=logp, starting_positions=sp, display_progress=False)
            ch.rng = rng
            ch.advance(n_steps // 4)
            x = ch.get_sample(burn=8 * (n_steps // 20))
    x = np.asarray(x, dtype=float)
    m, v = x.mean(axis=0), x.var(axis=0)
    want_v = sd ** 2 * T
    bad = []
    if (abs(m - mean) > 0.2 * np.sqrt(want_v)).any():
        bad.append(f"chain mean {m.tolist()} vs target mean {mean.tolist()}")
    if (abs(v / want_v - 1) > 0.3).any():
        bad.append(f"chain variance {v.tolist()} vs target variance {want_v.tolist()} (T={T})")
    # the target has a density: every stored state is a fresh accepted proposal, so coordinate
    # values (almost surely) never repeat
    distinct = min(int(np.unique(x[:, i]).size) for i in range(x.shape[1]))
    if distinct < 0.5 * x.shape[0]:
        bad.append(f"only {distinct} distinct values among {x.shape[0]} samples of one parameter "
                   "(a continuous posterior cannot give that)")
    info = {"sampler": kind, "temperature": T, "numpy_seed": seed, "steps": n_steps,
            "target": "N([1,-2], diag([1,0.25]))^(1/T)", "observed_mean": m.tolist(),
            "observed_variance": v.tolist(), "distinct_values_min": distinct, "samples": int(x.shape[0])}
    if form is not None:
        info["input_form"] = form
        info["start"] = repr(start) if kind != "ensemble" else repr(sp)
    if inverse_mass is not None:
        info["inverse_mass"] = np.asarray(inverse_mass, dtype=float).tolist()
    return bad, info


FORM_WORDS = {"flist": "a list of Python floats", "ftuple": "a tuple of Python floats",
              "ilist": "a list of Python ints", "ituple": "a tuple of Python ints",
              "i64": "an int64 array", "i32": "an int32 array", "f32": "a float32 array", "f64": "a float64 array"}


def ensemble_support_oracle(alpha):
    """Property-level probe of the real EnsembleSampler: the stretch factor z is drawn from
    g(z) ~ z^(-1/2) on [1/alpha, alpha], so a uniform draw -> 0 must give z -> 1/alpha and
    a draw -> 1 must give z -> alpha (otherwise some proposals have no reverse move)."""
    from inference.mcmc.ensemble import EnsembleSampler
    from lib.scripted import ScriptedRNG, RecordingPosterior
    bad = []
    pos = np.array([[0.0, 0.0], [1.0, 2.0], [3.0, -1.0]])
    for u, want, name in ((F(1, 2 ** 40), 1 / alpha, "1/alpha"), (1 - F(1, 2 ** 30), alpha, "alpha")):
        post = RecordingPosterior(lambda x: F(0))
        with warnings.catch_warnings():
            warnings.simplefilter("ignore")
            es = EnsembleSampler(posterior=post, starting_positions=pos.copy(), alpha=alpha, display_progress=False)
        es.rng = ScriptedRNG(1, tape=[1, u, F(1, 2 ** 40)])
        n0 = len(post.evals)
        with S.quiet():
            es.advance(1)
        y = [float(v) for v in post.evals[n0][0]]
        xi, xj = pos[0], pos[1]
        z = (y[0] - xj[0]) / (xi[0] - xj[0])
        if abs(z - want) > 1e-6 * want:
            bad.append(f"alpha={alpha}: a uniform draw of {float(u)!r} gives stretch factor z={z!r}, "
                       f"but the end of the support is {name}={want!r}")
    return bad


# ------------------------------------------------------------------ known finding D4
def fold_preimages(x, lo, w, kmax):
    """All theta with reflect(theta) = x, |k| <= kmax (the fold characterisation
    proved in Properties/C04: theta = x + 2kw or 2lo + 2kw - x)."""
    out = set()
    for k in range(-kmax, kmax + 1):
        out.add(x + 2 * k * w)
        out.add(2 * lo + 2 * k * w - x)
    return out


def oblique_line_solutions(src, dst, v, lo, w, tmax):
    """All t with |t| <= tmax and reflect(src + t v) = dst, in exact rationals."""
    sols = None
    for i in range(len(src)):
        kmax = int(tmax * abs(v[i]) / (2 * w[i])) + 3
        cand = {(th - src[i]) / v[i] for th in fold_preimages(dst[i], lo[i], w[i], kmax)}
        sols = cand if sols is None else sols & cand
    return sorted(t for t in sols if abs(t) <= tmax)


def pca_reflect_finding():
    """Exhibit on the real PcaChain that a reflected proposal along an oblique
    direction is not reversible: q(x->y) >> q(y->x)."""
    from inference.mcmc.pca import PcaChain
    lo, hi = [F(0), F(0)], [F(1), F(1)]
    w = [F(1), F(1)]
    v = [F(3, 5), F(4, 5)]
    x = [F(1, 4), F(1, 2)]
    with warnings.catch_warnings():
        warnings.simplefilter("ignore")
        ch = PcaChain(posterior=lambda t: 0.0, start=np.array([0.25, 0.5]), widths=np.array([1.0, 1.0]),
                      bounds=(np.array([0.0, 0.0]), np.array([1.0, 1.0])), display_progress=False)
    vf = np.array([0.6, 0.8])
    y_impl = ch.process_proposal(np.array([0.25, 0.5]) + 0.75 * vf)
    y = [F(7, 10), F(9, 10)]
    if not np.allclose(y_impl, [0.7, 0.9], atol=1e-12):
        return None        # the code no longer folds this way: nothing to report here
    tmax = F(40)
    fwd = oblique_line_solutions(x, y, v, lo, w, tmax)
    back = oblique_line_solutions(y, x, v, lo, w, tmax)
    # every claimed solution is checked on the real code
    for t in back[:8]:
        got = ch.process_proposal(np.array([0.7, 0.9]) + float(t) * vf)
        if not np.allclose(got, [0.25, 0.5], atol=1e-9):
            return None
    phi = lambda t: math.exp(-0.5 * float(t) ** 2) / math.sqrt(2 * math.pi)
    q_fwd_lower = phi(F(3, 4))
    q_back_upper = sum(phi(t) for t in back) + 2 * phi(40) * 41
    if F(3, 4) in fwd and q_fwd_lower > 10 * q_back_upper:
        return {"bounds": "[0,1]^2", "direction": "(3/5, 4/5)", "sigma": 1, "x": "(1/4, 1/2)", "y": "(7/10, 9/10)",
                "forward_steps_t": [str(t) for t in fwd[:6]], "backward_steps_t": [str(t) for t in back[:6]],
                "q_forward_lower_bound": q_fwd_lower, "q_backward_upper_bound": q_back_upper}
    return None


def ensemble_reflect_finding():
    """Real EnsembleSampler with bounds: a reflected stretch proposal that no
    stretch factor in [1/a, a] can undo."""
    from inference.mcmc.ensemble import EnsembleSampler
    lo, hi, w = [F(0), F(0)], [F(1), F(1)], [F(1), F(1)]
    xi, xj = [F(3, 4), F(7, 8)], [F(1, 4), F(1, 2)]
    z = F(2)
    pos = np.array([[0.75, 0.875], [0.25, 0.5], [0.5, 0.25]])
    with warnings.catch_warnings():
        warnings.simplefilter("ignore")
        es = EnsembleSampler(posterior=lambda t: 0.0, starting_positions=pos.copy(), alpha=2.0,
                             bounds=(np.array([0.0, 0.0]), np.array([1.0, 1.0])), display_progress=False)
    raw = np.array([0.25, 0.5]) + 2.0 * (np.array([0.75, 0.875]) - np.array([0.25, 0.5]))   # (1.25, 1.25)
    y_impl = es.process_proposal(raw)
    if not np.allclose(y_impl, [0.75, 0.75], atol=1e-12):
        return None
    y = [F(3, 4), F(3, 4)]
    d = [y[0] - xj[0], y[1] - xj[1]]          # reverse move: X_j + z' (Y - X_j)
    sols = oblique_line_solutions(xj, xi, d, lo, w, F(3))
    inside = [t for t in sols if F(1, 2) <= t <= 2]
    if not inside:
        return {"bounds": "[0,1]^2", "alpha": 2, "X_i": "(3/4, 7/8)", "X_j": "(1/4, 1/2)", "z": 2,
                "Y = reflect(X_j + z (X_i - X_j))": "(3/4, 3/4)",
                "stretch factors that lead back from Y to X_i": [str(t) for t in sols],
                "support of z": "[1/2, 2]"}
    return None


def terms_of(cfg, recs):
    """Coq terms of recorded transitions; Hamiltonian transitions carry the mass-consistency guard."""
    if cfg["kind"] == "hmc":
        qp = S.coq_qpost(cfg["a"], cfg["m"], cfg["c"])
        return [S.coq_hmc_case(rc, qp, mass_tol=MASS_TOL) for rc in recs]
    return SC.coq_terms(cfg, recs)


def category(cfg):
    if cfg.get("form"):
        return "form"
    if cfg["kind"] == "hmc" and (cfg.get("mass_history") or cfg.get("mass_kind") in ("matrix", "full")):
        return "mass"
    return "base"


# ------------------------------------------------------------------ main
def run(rep: C.Report, tier: str) -> int:
    r = C.rng_for(PROP, "cases")
    C.clean_gen(PROP)
    info = C.prove_and_audit(rep, PROP, THEOREMS)
    # supplementary theorem audits (Print Assumptions): independent coqc processes, run in the
    # background while the transitions are recorded and replayed; collected below, same obligations
    from concurrent.futures import ThreadPoolExecutor
    side = []
    if info is not None:
        side += [("accept_bounds_audit", PROP + "_accept", ACCEPT_THEOREMS, "IT.Properties.AcceptBounds"),
                 ("hmc_mass_audit", PROP + "_mass", MASS_THEOREMS, "IT.Properties.C01Mass")]
    side += [("adaptation_audit", PROP + "_adapt", ADAPT_THEOREMS, "IT.Properties.Adaptation"),
             # reflected oblique proposals are irreversible (known finding D4)
             ("oblique_audit", "C01_oblique", OBLIQUE_THEOREMS, "IT.Properties.C01Oblique")]
    audit_pool = ThreadPoolExecutor(max_workers=len(side))
    audit_futs = [(key, ths, audit_pool.submit(C.coq_audit, name, ths, mod)) for key, name, ths, mod in side]

    per_kind = 10 if tier == "quick" else 60
    nsteps = 8 if tier == "quick" else 14
    terms, owners, cfgs, retry_seen = [], [], [], {}
    for kind in SC.SAMPLERS:
        for _ in range(per_kind):
            cfg = SC.make_config(r, kind)
            cfgs.append(cfg)
            ci = len(cfgs) - 1
            rep.count("sampler=" + kind)
            rep.count("T=" + str(cfg["T"]))
            try:
                with warnings.catch_warnings():
                    warnings.simplefilter("ignore")
                    ch, post, rng, fn, recs = SC.record(cfg, nsteps if kind != "ensemble" else 3)
            except Exception as e:
                rep.violation("C01/exception", f"{kind}: the sampler failed on a valid configuration: {e!r}",
                              {"case": SC.describe(cfg)}, True)
                continue
            rep.case((SC.describe(cfg),), nontrivial=True)
            if branch_stats(rep, cfg, recs):
                retry_seen.setdefault(kind, SC.describe(cfg))
            ts = terms_of(cfg, recs)
            terms += ts
            owners += [(ci, k) for k in range(len(ts))]
            rep.count("transitions", len(ts))
            rep.count("posterior_evaluations", len(post.evals))
            if kind == "hmc":
                rep.count("hmc_mass=" + cfg.get("mass_kind", "none") + ("" if cfg["n"] > 1 else "(n=1)"))
            if len(rep.samples) < 3:
                rc = recs[0]
                rep.sample({"sampler": kind, "config": SC.describe(cfg),
                            "first_transition": {"tape": [str(t) for t in rc.tape],
                                                 "evaluations": [[[str(v) for v in p], str(q)] for p, q in rc.events]}})

    # ---- input forms: every sampler with its numeric arguments as lists / tuples of Python floats
    # or ints, int64 / int32 / float32 arrays (every form for every sampler in both tiers)
    rf = C.rng_for(PROP, "forms")
    all_forms = [f for f in SC.INPUT_FORMS if f != "f64"]
    for kind in SC.SAMPLERS:
        order = all_forms[:]
        rf.shuffle(order)
        for i in range(len(order) if tier == "quick" else 4 * len(order)):
            try:
                cfg = CF.with_forms(SC.make_config(rf, kind), rf, order[i % len(order)])
            except Exception as e:      # the generator itself must not be able to hide a class
                rep.violation("C01/exception", f"{kind}: input-form generator failed: {e!r}", {}, False)
                continue
            cfgs.append(cfg)
            ci = len(cfgs) - 1
            rep.count("input_form=" + cfg["form"])
            rep.count("sampler=" + kind)
            try:
                with warnings.catch_warnings():
                    warnings.simplefilter("ignore")
                    ch, post, rng, fn, recs = SC.record(cfg, (4 if tier == "quick" else 8) if kind != "ensemble" else 2)
            except Exception as e:
                rep.violation(f"C01/input-form/{kind}", f"{kind}: the sampler failed on a valid configuration whose "
                              f"arguments are given as {FORM_WORDS[cfg['form']]}: {e!r}", {"case": SC.describe(cfg)}, True)
                continue
            rep.case(("form", SC.describe(cfg)), nontrivial=True)
            if branch_stats(rep, cfg, recs):
                retry_seen.setdefault(kind, SC.describe(cfg))
            ts = terms_of(cfg, recs)
            terms += ts
            owners += [(ci, k) for k in range(len(ts))]
            rep.count("transitions", len(ts))
            rep.count("transitions_with_non_default_input_form", len(ts))

    # ---- Hamiltonian sampler with a full (non-diagonal) mass matrix: given to the constructor, or the
    # chain's own estimate after some steps (history: the mass in force is not the one of construction)
    rm = C.rng_for(PROP, "mass")
    histories = ["given", "estimate_full", "given", "estimate_full", "estimate_diag", "given"]
    for i in range(6 if tier == "quick" else 36):
        base = SC.make_config(rm, "hmc")
        while base["n"] < 2:
            base = SC.make_config(rm, "hmc")
        cfg = CF.with_full_mass(base, rm, histories[i % len(histories)])
        cfgs.append(cfg)
        ci = len(cfgs) - 1
        rep.count("sampler=hmc")
        rep.count("hmc_mass_history=" + cfg["mass_history"])
        try:
            with warnings.catch_warnings():
                warnings.simplefilter("ignore")
                ch, post, rng, fn = SC.build(cfg)
                recs = []
                if cfg["mass_history"] != "given":
                    recs += S.record_hmc(ch, post, rng, cfg["warmup"])
                    why = CF.apply_mass_history(ch, cfg)
                    if why:
                        rep.count("estimate_mass_not_usable: " + why)
                if cfg["mass_history"] == "given" or not why:
                    recs += S.record_hmc(ch, post, rng, 5 if tier == "quick" else 8)
                    rep.count("hmc_full_mass_chains")
        except Exception as e:
            rep.violation("C01/exception", f"hmc with a full mass matrix ({cfg['mass_history']}): the sampler failed on a "
                          f"valid configuration: {e!r}", {"case": SC.describe(cfg)}, True)
            continue
        rep.case(("mass", SC.describe(cfg)), nontrivial=True)
        branch_stats(rep, cfg, recs)
        ts = terms_of(cfg, recs)
        terms += ts
        owners += [(ci, k) for k in range(len(ts))]
        rep.count("transitions", len(ts))
        rep.count("transitions_with_mass_check", len(ts))
        if tier == "thorough":      # [R] the accept probability itself, on the real chain
            try:
                badp = CF.hmc_mh_probability_failures(cfg)
            except Exception as e:
                badp = [{"exception": repr(e)}]
            rep.count("hmc_accept_probability_runs[R]")
            if badp:
                rep.violation("C01/hmc-accept-probability", "hmc: the accept probability of a trajectory is not the "
                              "Metropolis-Hastings probability for the momentum actually drawn",
                              {"case": dict(badp[0], config=SC.describe(cfg))}, True)

    # chains run under parallel tempering: real coordinator + real worker loop (in one
    # process), exchanges accepted, then the next transitions of every chain are recorded
    from lib import pt_inproc
    from lib.scripted import ScriptedRNG
    for kind in ("gibbs", "pca", "hmc"):
        for g in range(2 if tier == "quick" else 8):
            cfg = SC.make_config(r, kind)
            if g % 2 == 1:          # every other group is started from arguments in a non-default form
                cfg = CF.with_forms(cfg, rf)
                rep.count("parallel_tempering_groups_with_input_form=" + cfg["form"])
            try:
                with warnings.catch_warnings():
                    warnings.simplefilter("ignore")
                    group = [SC.build(dict(cfg, T=T, rng_seed=cfg["rng_seed"] + j))
                             for j, T in enumerate([1.0, 2.0, 4.0])]
                    prng = ScriptedRNG(cfg["rng_seed"] + 17)
                    prng.uniform_hook = lambda: 2.0 ** -40
                    pt = pt_inproc.make_pt([g[0] for g in group], prng, lambda seq: prng.choice(seq))
                    for rounds in range(2):
                        pt.take_steps(2)
                        pt.swap()
                        for j, (ch, post, rng, fn) in enumerate(group):
                            c2 = dict(cfg, T=[1.0, 2.0, 4.0][j])
                            if kind == "gibbs":
                                recs = S.record_gibbs_like(ch, post, rng, 1, "gibbs")
                            elif kind == "pca":
                                recs = S.record_pca(ch, post, rng, 1)
                            else:
                                recs = S.record_hmc(ch, post, rng, 1)
                            cfgs.append(c2)
                            ts = terms_of(c2, recs)
                            terms += ts
                            owners += [(len(cfgs) - 1, 0)] * len(ts)
                    rep.count("parallel_tempering_groups")
                    rep.count("exchanges_accepted", int(pt.successful_swaps.sum()))
                    rep.case(("pt", SC.describe(cfg)))
            except Exception as e:
                rep.violation("C01/exception", f"{kind} under parallel tempering: {e!r}", {"case": SC.describe(cfg)}, True)

    # on-line tuning of widths / step size (Model/Adaptation.v): bookkeeping and outcome exactly,
    # applied factors by interval goals
    from lib import adaptation
    adaptation.run(rep, PROP, C.rng_for(PROP, "adaptation"), tier)
    # deal the transitions round-robin over the case files, so that the expensive kinds (ensemble
    # iterations, Hamiltonian trajectories with non-dyadic estimated masses) are spread evenly
    n_files = max(1, (len(terms) + 59) // 60)
    deal = sorted(range(len(terms)), key=lambda i: (i % n_files, i))
    terms, owners = [terms[i] for i in deal], [owners[i] for i in deal]
    codes, broken = S.run_code_cases(PROP, "trace", terms, header=S.HEADER_MASS)
    for key, ths, fut in audit_futs:
        try:
            rep.coverage[key] = fut.result()
            rep.obligation(True, len(ths))
        except C.ProofFailure as e:
            rep.obligation(False, len(ths))
            rep.violation("C01/proof", f"proof obligation no longer checks: {e.what}",
                          {"theorem_or_correspondence": e.what, "log": e.log[-1000:]}, False)
    audit_pool.shutdown()
    for b in broken:
        rep.obligation(False)
        rep.violation("C01/correspondence-run", "a generated case file did not evaluate",
                      {"theorem_or_correspondence": "coq/gen/C01 case file", "log": b}, False)
    rep.obligation(True, max(1, (len(terms) + 59) // 60) - len(broken))
    rep.coverage["traces_validated_against_impl"] = sum(1 for c in codes if c == 0)
    rep.coverage["undecided_transitions"] = sum(1 for c in codes if c == 2)

    # first failing transition per (sampler, input class, input form)
    bad_groups = {}
    for (ci, k), code in zip(owners, codes):
        if code in (1, 3):
            cfg = cfgs[ci]
            bad_groups.setdefault((cfg["kind"], category(cfg), cfg.get("form")), (ci, k))
    found_for = set()          # (kind, category) for which a concrete failing input has been reported
    for (kind, cat, form), (ci, k) in bad_groups.items():
        if (kind, cat) in found_for:
            continue
        cfg = cfgs[ci]
        # failing-input search: the property itself evaluated on the real sampler
        found = False
        if kind == "ensemble" and cat != "form":
            try:
                badz = ensemble_support_oracle(float(cfg["alpha"]))
            except Exception as e:
                badz = [f"stretch-support probe raised {e!r}"]
            if badz:
                found = True
                rep.violation("C01/stretch-support/ensemble", "ensemble: " + "; ".join(badz),
                              {"case": {"alpha": cfg["alpha"], "probe": "stretch factor at the ends of the uniform draw"}}, True)
        if kind == "hmc" and not found:
            try:
                badp = CF.hmc_mh_probability_failures(cfg)
            except Exception as e:
                badp = []
            if badp:
                found = True
                w = badp[0]
                rep.violation("C01/hmc-accept-probability",
                              f"hmc: a trajectory is accepted with probability {w['accept_probability_used']!r}, but the "
                              "Metropolis-Hastings probability of that move for the momentum law actually sampled "
                              f"(momentum = A z, A measured on the mass object) is {w['metropolis_hastings_probability']!r}: "
                              "the momenta are not drawn from the normal law whose energy the accept test uses",
                              {"case": dict(w, oracle="hmc_mh_probability", config=SC.describe(cfg))}, True)
        for seed in (() if found else (1, 2)):
            try:
                im = cfg.get("inv_mass") if (cat == "mass" and cfg["n"] == 2 and isinstance(cfg.get("inv_mass"), list)) else None
                bad, info2 = stat_oracle(kind, cfg["T"] if kind != "ensemble" else 1.0, seed, form=form, inverse_mass=im)
            except Exception as e:
                bad, info2 = [f"the sampler raised {e!r}"], {"sampler": kind, "input_form": form}
            if bad:
                found = True
                if form:
                    rep.violation(f"C01/input-form/{kind}", f"{kind} with its start given as {FORM_WORDS[form]}: " + "; ".join(bad),
                                  {"case": info2}, True)
                else:
                    rep.violation(f"C01/distribution/{kind}", f"{kind}: " + "; ".join(bad), {"case": info2}, True)
                break
        if found:
            found_for.add((kind, cat))
    for (kind, cat, form), (ci, k) in bad_groups.items():
        if (kind, cat) in found_for:
            continue
        found_for.add((kind, cat))
        cfg = cfgs[ci]
        what = "(proposal point, Metropolis decision or tempering differ)"
        if cat == "form":
            what = (f"when its arguments are given as {FORM_WORDS[form]} (the proposal evaluated or the state stored is not "
                    "the one the draws determine)")
        elif kind == "hmc":
            what = ("(the factor the momenta are drawn with does not match the inverse mass of the kinetic energy, "
                    "or proposal point / Metropolis decision / tempering differ)")
        rep.violation(f"C01/correspondence/{kind}" + ("/input-form" if cat == "form" else ""),
                      f"{kind}: transition {k} of the real sampler is not a transition of the model " + what,
                      {"theorem_or_correspondence": f"Model.Samplers check for {kind} (transition {k})",
                       "case": SC.describe(cfg)}, False)

    # known findings, exhibited on the real code on every run
    for kind, d in sorted(retry_seen.items()):
        rep.violation(KEY_RETRY, f"{kind} retries inside one take_step until a proposal is accepted and stores "
                      "only the accepted state (stationary weights pi*A, theorem C01_retry_chain_refuted)",
                      {"case": d}, True)
    try:
        w = pca_reflect_finding()
        if w:
            rep.violation(KEY_REFLECT_PCA, "PcaChain: reflected proposal along an oblique direction is not reversible",
                          {"case": w}, True)
        w = ensemble_reflect_finding()
        if w:
            rep.violation(KEY_REFLECT_ENS, "EnsembleSampler: reflected stretch proposal cannot be undone", {"case": w}, True)
    except Exception as e:
        rep.violation("C01/exception", f"reflected-proposal probe failed: {e!r}", {}, True)

    if tier == "thorough":
        for kind in SC.SAMPLERS:
            for T in ((1.0, 4.0) if kind != "ensemble" else (1.0,)):
                bad, info2 = stat_oracle(kind, T, 7)
                rep.count("statistical_runs[R]")
                if bad:
                    rep.violation(f"C01/distribution/{kind}", f"{kind}: " + "; ".join(bad), {"case": info2}, True)
            for form in ("ilist", "i64", "f32", "ftuple"):
                try:
                    bad, info2 = stat_oracle(kind, 1.0, 11, form=form)
                except Exception as e:
                    bad, info2 = [f"the sampler raised {e!r}"], {"sampler": kind, "input_form": form}
                rep.count("statistical_runs[R]")
                if bad:
                    rep.violation(f"C01/input-form/{kind}", f"{kind} with its start given as {FORM_WORDS[form]}: "
                                  + "; ".join(bad), {"case": info2}, True)
        for im in ([[1.0, 0.4], [0.4, 0.5]], [[2.0, -0.6], [-0.6, 0.25]]):
            bad, info2 = stat_oracle("hmc", 1.0, 7, inverse_mass=im)
            rep.count("statistical_runs[R]")
            if bad:
                rep.violation("C01/distribution/hmc", "hmc with a full inverse-mass matrix: " + "; ".join(bad),
                              {"case": info2}, True)

    rep.assumptions = [
        "ergodic convergence, P(U<p)=p, the stretch-move Jacobian and HMC detailed balance in the continuum are cited, not proved",
        "adaptation of widths / step size is frozen during recorded transitions",
        "log-density drawn from the rational quadratic family in executions (a Section variable in the theorems)",
        "mass consistency L^T inv_mass L = I is checked on the doubles of the live mass object to 1e-6 (theorem: exact)",
    ]
    return rep.finish(
        level="proof",
        checker_cmd="make -C /verif/coq + coqc on coq/gen/C01/*.v (vm_compute of Model.Samplers on recorded transitions)",
        trusted_base=C.KERNEL_TB + ["axioms (Reals): ClassicalDedekindReals.sig_forall_dec, sig_not_dec, "
                                    "FunctionalExtensionality.functional_extensionality_dep, Classical_Prop.classic"],
        rule="random configurations per sampler x recorded transitions with scripted draws (uniform draws spread "
             "over [2^-40, 1-2^-30] so both accept and reject branches occur: see attempts_accepted / "
             "attempts_rejected); plus every non-default input form (list / tuple / int64 / int32 / float32) for every "
             "sampler and Hamiltonian chains with full mass matrices (given, or estimated by the chain after a warm-up); "
             "distinct = distinct configuration")


def replay(path):
    import json
    d = json.load(open(path))
    rp = d["replay"]
    c = rp.get("case") or {}
    if "numpy_seed" in c:
        bad, info = stat_oracle(c["sampler"], c["temperature"], c["numpy_seed"], c["steps"],
                                form=c.get("input_form"), inverse_mass=c.get("inverse_mass"))
        print(info, bad)
        return 1 if bad else 0
    if c.get("oracle") == "hmc_mh_probability":
        bad = CF.hmc_mh_probability_failures(SC.undescribe(c["config"]))
        print(bad[:1])
        return 1 if bad else 0
    print("replay names:", rp.get("theorem_or_correspondence") or d.get("what"))
    return 1
