"""C03 -- stored log-probabilities always belong to the stored samples.

Theorems (coq/theories/Properties/C03.v): the alignment invariant
probs = map (beta * logp) samples is preserved by every operation of the
sampler models (take_step of Gibbs / Metropolis / PCA / Hamiltonian with any
random tape, installs by a tempering exchange, ensemble iterations and their
snapshots), for every log-density and temperature; mode() is the arg-max.

Tie to the code: every observed transition of the real samplers (scripted
randomness, recording posterior) is replayed through the model inside Coq and
must reproduce the new sample, its stored log-probability and every posterior
evaluation.  What a value-semantics model cannot express -- aliasing of the
caller's arrays, independence of samplers built from shared inputs -- is
decided by the run [X].  The property oracle (used to look for a failing input,
and run on every object anyway) recomputes logp(sample_k)/T from the
implementation's own arrays in exact arithmetic.
"""
from __future__ import annotations

import copy
import threading
import warnings
from fractions import Fraction as F

import numpy as np

from lib import common as C
from lib import samplers as S
from lib import sampler_cases as SC

PROP = "C03"
THEOREMS = ["C03_gibbs_aligned", "C03_pca_aligned", "C03_hmc_aligned", "C03_gibbs_step_appends",
            "C03_every_index", "C03_ensemble_aligned", "C03_mode", "C03_metropolis_pinned_refuted"]


# --------------------------------------------------------------- in-thread tempering worker
class FakeConnection:
    """Stands in for a multiprocessing Connection so that the REAL worker loop
    `inference.mcmc.parallel.tempering_process` can be driven deterministically."""

    def __init__(self, messages, end):
        self.inbox = list(messages)
        self.sent = []
        self.end = end

    def poll(self, timeout=None):
        if not self.inbox:
            self.end.set()
            return False
        return True

    def recv(self):
        return self.inbox.pop(0)

    def send(self, obj):
        self.sent.append(obj)


def drive_worker(chain, messages):
    from inference.mcmc.parallel import tempering_process
    end = threading.Event()
    con = FakeConnection(messages, end)
    tempering_process(chain, con, end)
    return con.sent


def exchange_via_worker(ch_a, ch_b):
    """An exchange round of the REAL ParallelTempering.swap() between the two chains, with the
    real worker loop serving the messages (lib/pt_inproc.py); the swap draw is tiny, so the
    exchange is accepted unless its probability is essentially zero."""
    from lib import pt_inproc
    from lib.scripted import ScriptedRNG
    prng = ScriptedRNG(7)
    prng.uniform_hook = lambda: 2.0 ** -40
    pt = pt_inproc.make_pt([ch_a, ch_b], prng, lambda seq: prng.choice(seq))
    pt.swap()
    return int(pt.successful_swaps.sum())


# --------------------------------------------------------------- oracle helpers
def aligned_bad(ch, kind, fn):
    samples, probs, beta = SC.stored(ch, kind)
    bad = []
    if len(samples) != len(probs):
        bad.append(f"{len(samples)} stored samples but {len(probs)} stored log-probabilities")
    for k, (x, p) in enumerate(zip(samples, probs)):
        want = F(float(fn(list(x)))) * beta
        if want != p:
            bad.append(f"index {k}: stored log-probability {float(p)!r}, logp(sample)/T = {float(want)!r}")
            break
    if kind == "ensemble":
        for i, (x, p) in enumerate(zip(ch.walker_positions, ch.walker_probs)):
            if F(float(fn(S.frs(x)))) != C.frac(p):
                bad.append(f"walker {i}: stored value is not logp(position)")
                break
    return bad


def mode_bad(ch, kind):
    samples, probs, _ = SC.stored(ch, kind)
    if not samples or len(samples) != len(probs):
        return []
    with warnings.catch_warnings():
        warnings.simplefilter("ignore")
        m = tuple(S.frs(np.atleast_1d(ch.mode())))
    best = max(probs)
    ok = any(tuple(s) == m and p == best for s, p in zip(samples, probs))
    return [] if ok else [f"mode() = {[float(v) for v in m]} is not a stored sample with the maximal stored log-probability"]


def post_ops(r, ch, kind, cfg, partner):
    """A few more operations on the real object after the recorded steps."""
    ops = []
    with S.quiet(), warnings.catch_warnings():
        warnings.simplefilter("ignore")
        for _ in range(r.randint(1, 3)):
            u = r.random()
            if u < 0.4:
                m = r.choice([1, 2, 3, 7])
                ch.advance(m)
                ops.append(f"advance({m})")
            elif u < 0.7 and kind != "ensemble" and partner is not None:
                done = exchange_via_worker(ch, partner)
                ops.append("exchange" if done else "exchange(rejected)")
            elif kind != "ensemble":
                ch.take_step()
                ops.append("take_step")
    return ops


# --------------------------------------------------------------- shared inputs
def shared_inputs_bad(r, kind):
    """Two samplers built from the SAME input arrays, advanced in interleaved order,
    must each equal their solo run, and the arrays must be unchanged."""
    cfg = SC.make_config(r, kind)
    bad = []

    def arrays():
        if kind == "ensemble":
            return {"positions": np.array(cfg["positions"], dtype=float)}
        return {"start": np.array(cfg["start"], dtype=float), "widths": np.array(cfg["widths"], dtype=float)}

    def construct(arrs, seed):
        c2 = dict(cfg, rng_seed=seed)
        ch, post, rng, fn = SC.build(c2)
        # rebuild from the shared arrays (SC.build copies; here we pass the very same objects)
        from inference.mcmc.gibbs import GibbsChain, MetropolisChain
        from inference.mcmc.pca import PcaChain
        from inference.mcmc.hmc import HamiltonianChain
        from inference.mcmc.ensemble import EnsembleSampler
        b = cfg["bounds"]
        bounds = None if b is None else (np.array(b[0], dtype=float), np.array(b[1], dtype=float))
        with warnings.catch_warnings():
            warnings.simplefilter("ignore")
            if kind in ("gibbs", "metro"):
                cls = GibbsChain if kind == "gibbs" else MetropolisChain
                new = cls(posterior=post, start=arrs["start"], widths=arrs["widths"], temperature=cfg["T"],
                          display_progress=False)
                S.attach_rng(new, rng)
            elif kind == "pca":
                new = PcaChain(posterior=post, start=arrs["start"], widths=arrs["widths"], temperature=cfg["T"],
                               bounds=bounds, display_progress=False)
                S.attach_rng(new, rng)
            elif kind == "hmc":
                new = HamiltonianChain(posterior=post, start=arrs["start"], grad=post.gradient,
                                       epsilon=cfg["eps"], temperature=cfg["T"], bounds=bounds,
                                       display_progress=False)
                new.steps = cfg["steps"]
                new.rng = rng
            else:
                new = EnsembleSampler(posterior=post, starting_positions=arrs["positions"], alpha=cfg["alpha"],
                                      bounds=bounds, display_progress=False)
                new.rng = rng
        S.freeze_adaptation(new)
        return new

    def step(ch):
        with S.quiet():
            if kind == "ensemble":
                ch.advance(1)
            else:
                ch.take_step()

    shared = arrays()
    before = {k: v.copy() for k, v in shared.items()}
    a, b = construct(shared, 11), construct(shared, 22)
    for _ in range(3):
        step(a)
        step(b)
    solo_a, solo_b = construct(arrays(), 11), construct(arrays(), 22)
    for _ in range(3):
        step(solo_a)
    for _ in range(3):
        step(solo_b)
    for k, v in shared.items():
        if v.shape != before[k].shape or not np.array_equal(v, before[k]):
            bad.append(f"the caller's `{k}` array was modified by the sampler")
    for name, x, y in (("first", a, solo_a), ("second", b, solo_b)):
        sx, px, _ = SC.stored(x, kind)
        sy, py, _ = SC.stored(y, kind)
        if kind == "ensemble":
            sx, sy = [tuple(S.frs(v)) for v in x.walker_positions], [tuple(S.frs(v)) for v in y.walker_positions]
        if sx != sy or px != py:
            bad.append(f"the {name} of two samplers built from the same arrays differs from its solo run")
    return cfg, bad


# --------------------------------------------------------------- main
def run(rep: C.Report, tier: str) -> int:
    r = C.rng_for(PROP, "cases")
    C.clean_gen(PROP)
    C.prove_and_audit(rep, PROP, THEOREMS)
    per_kind = 6 if tier == "quick" else 40
    nsteps = 6 if tier == "quick" else 12

    terms, owners, cfgs = [], [], []
    for kind in SC.SAMPLERS:
        for _ in range(per_kind):
            cfg = SC.make_config(r, kind)
            cfgs.append(cfg)
            ci = len(cfgs) - 1
            rep.count("sampler=" + kind)
            rep.count("T=" + str(cfg["T"]))
            rep.count("bounds=" + str(cfg["bounds"] is not None))
            try:
                with warnings.catch_warnings():
                    warnings.simplefilter("ignore")
                    ch, post, rng, fn, recs = SC.record(cfg, nsteps if kind != "ensemble" else 3)
            except Exception as e:
                rep.violation("C03/exception", f"{kind}: the sampler failed on a valid configuration: {e!r}",
                              {"case": SC.describe(cfg)}, True)
                continue
            rep.case((SC.describe(cfg),), nontrivial=True)
            ts = SC.coq_terms(cfg, recs)
            terms += ts
            owners += [(ci, k) for k in range(len(ts))]
            rep.count("transitions", len(ts))
            rep.count("posterior_evaluations", len(post.evals))
            if len(rep.samples) < 3:
                rc = recs[0]
                rep.sample({"sampler": kind, "config": SC.describe(cfg),
                            "first_transition": {"tape": [str(t) for t in rc.tape],
                                                 "evaluations": [[[str(v) for v in p], str(q)] for p, q in rc.events],
                                                 "post": {k: str(v) for k, v in rc.post.items()}}})
            # ---- the property itself on the implementation (every object, exact)
            partner = None
            if kind in ("gibbs", "pca", "hmc", "metro"):
                try:
                    partner = SC.build(dict(cfg, T=cfg["T"] * 2, rng_seed=cfg["rng_seed"] + 1))[0]
                except Exception:
                    partner = None
            try:
                ops = post_ops(r, ch, kind, cfg, partner)
            except Exception as e:
                rep.violation("C03/exception", f"{kind}: an operation failed: {e!r}", {"case": SC.describe(cfg)}, True)
                continue
            for o in ops:
                rep.count("op=" + o.split("(")[0])
            bad = aligned_bad(ch, kind, fn) + mode_bad(ch, kind)
            if partner is not None:
                pfn = fn
                bad += ["partner chain: " + b for b in aligned_bad(partner, kind, pfn)]
            if bad:
                rep.violation(f"C03/alignment/{kind}", f"{kind}: " + "; ".join(bad[:2]),
                              {"case": SC.describe(cfg), "operations_after_recorded_steps": ops,
                               "recorded_steps": nsteps}, True)

    # ---- correspondence inside Coq
    codes, broken = S.run_code_cases(PROP, "trace", terms)
    for b in broken:
        rep.obligation(False)
        rep.violation("C03/correspondence-run", "a generated case file did not evaluate",
                      {"theorem_or_correspondence": "coq/gen/C03 case file", "log": b}, False)
    rep.obligation(True, max(1, (len(terms) + 59) // 60) - len(broken))
    n_ok = sum(1 for c in codes if c == 0)
    rep.coverage["traces_validated_against_impl"] = n_ok
    rep.coverage["undecided_transitions"] = sum(1 for c in codes if c == 2)
    seen = set()
    for (ci, k), code in zip(owners, codes):
        if code in (1, 3) and ci not in seen:
            seen.add(ci)
            cfg = cfgs[ci]
            # failing-input search: does the property itself fail on this configuration?
            found = False
            try:
                with warnings.catch_warnings():
                    warnings.simplefilter("ignore")
                    ch, post, rng, fn, recs = SC.record(cfg, k + 1)
                bad = aligned_bad(ch, cfg["kind"], fn)
                if bad:
                    found = True
                    rep.violation(f"C03/alignment/{cfg['kind']}", f"{cfg['kind']}: " + "; ".join(bad[:2]),
                                  {"case": SC.describe(cfg), "recorded_steps": k + 1}, True)
            except Exception as e:
                found = True
                rep.violation("C03/exception", f"{cfg['kind']}: {e!r}", {"case": SC.describe(cfg)}, True)
            if not found:
                rep.violation(f"C03/correspondence/{cfg['kind']}",
                              f"{cfg['kind']}: transition {k} of the real sampler is not a transition of the model",
                              {"theorem_or_correspondence": f"Model.Samplers check for {cfg['kind']} (transition {k})",
                               "case": SC.describe(cfg)}, False)

    # ---- shared inputs / independence / caller's arrays
    for kind in SC.SAMPLERS:
        for _ in range(2 if tier == "quick" else 10):
            try:
                with warnings.catch_warnings():
                    warnings.simplefilter("ignore")
                    cfg, bad = shared_inputs_bad(r, kind)
            except Exception as e:
                rep.violation("C03/exception", f"{kind} (shared inputs): {e!r}", {}, True)
                continue
            rep.count("shared_inputs_runs")
            rep.case(("shared", SC.describe(cfg)))
            if bad:
                rep.violation(f"C03/shared-inputs/{kind}", f"{kind}: " + "; ".join(bad),
                              {"case": SC.describe(cfg), "scenario": "two samplers from the same arrays, 3 interleaved steps"},
                              True)

    rep.assumptions = [
        "the user's log-density is a member of the rational quadratic family in executions (a Section variable in the theorems)",
        "adaptation of proposal widths / step size is frozen (chk_int raised) during recorded transitions",
        "aliasing and independence of samplers are decided by the run, not by a theorem (value-semantics model)",
        "Hamiltonian and ensemble transitions are compared to 1e-9 relative (their float arithmetic is not exact); Gibbs / Metropolis / PCA exactly",
    ]
    return rep.finish(
        level="proof",
        checker_cmd="make -C /verif/coq + coqc on coq/gen/C03/*.v (vm_compute of Model.Samplers on recorded transitions)",
        trusted_base=C.KERNEL_TB + ["axioms: none (C03 theorems are closed under the global context)",
                                    "Common/ExpBounds rational enclosure of exp (proved in Proofs/ExpBoundsProofs.v)"],
        rule="random configurations per sampler (1-4 parameters, dyadic quadratic log-density with and without "
             "correlations, T in {0.5,1,2,4,8}, bounds / non-negativity / boundaries, mass kinds, stretch alpha) x "
             "recorded transitions with scripted draws; then advance / exchange-through-the-real-worker-loop / "
             "take_step and the exact alignment oracle; plus shared-input-array scenarios; every configuration "
             "is distinct and non-trivial (at least one accepted and, typically, rejected proposals)")


def replay(path):
    import json
    d = json.load(open(path))
    rp = d["replay"]
    if "case" not in rp or not rp["case"]:
        print("replay names a broken theorem / correspondence:", rp.get("theorem_or_correspondence"))
        return 1
    cfg = SC.undescribe(rp["case"])
    if rp.get("scenario"):
        print("shared-input scenario; re-run the check with the same seed to reproduce")
        return 1
    ch, post, rng, fn, recs = SC.record(cfg, rp.get("recorded_steps", 6))
    bad = aligned_bad(ch, cfg["kind"], fn) + mode_bad(ch, cfg["kind"])
    print("property failures:", bad)
    return 1 if bad else 0
