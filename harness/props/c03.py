"""C03 -- stored log-probabilities always belong to the stored samples.

Theorems (coq/theories/Properties/C03.v): the alignment invariant
probs = map (beta * logp) samples is preserved by every operation of the
sampler models (take_step of Gibbs / Metropolis / PCA / Hamiltonian with any
random tape, installs by a tempering exchange, ensemble iterations and their
snapshots), for every log-density and temperature; mode() is the arg-max.

Tie to the code: every observed transition of the real samplers (scripted
randomness, recording posterior) is replayed through the model inside Coq and
must reproduce the new sample, its stored log-probability and every posterior
evaluation.  What a value-semantics model cannot express -- aliasing of the
caller's arrays, independence of samplers built from shared inputs -- is
decided by the run [X].  The property oracle (used to look for a failing input,
and run on every object anyway) recomputes logp(sample_k)/T from the
implementation's own arrays in exact arithmetic.

"At every moment" (added after seeded changes C03_1 / C03_2 of round 4): the recorded chain is
also looked at (a) BEFORE the first step and after EVERY step -- alignment, current point,
the public read-outs with burn=0 and mode() -- on chains that start at / next to the peak
of the log-density, so that the starting point is and stays the best recorded point;
(b) from INSIDE every evaluation of the log-density / its gradient; (c) right after a call
that was cut short by an exception raised from inside the log-density at every evaluation
of a step, and after the chain was resumed.  Model: coq/theories/Model/ChainStore.v (the
store grows by single writes; `run k`: the k-th evaluation raises), theorems
Properties/C03Store.v; the interrupted calls, the store shapes seen from inside the
evaluations and the looks (store + get_last() + mode()) are replayed inside Coq
(check_gibbs_call / check_pca_call / check_calls / check_store).
"""
from __future__ import annotations

import copy
import re
import threading
import warnings
from concurrent.futures import ThreadPoolExecutor
from fractions import Fraction as F

import numpy as np

from lib import common as C
from lib import samplers as S
from lib import sampler_cases as SC

PROP = "C03"
THEOREMS = ["C03_gibbs_aligned", "C03_pca_aligned", "C03_hmc_aligned", "C03_gibbs_step_appends",
            "C03_every_index", "C03_ensemble_aligned", "C03_mode", "C03_metropolis_pinned_refuted"]
STORE_THEOREMS = ["C03_call_aligned_at_every_crash_point", "C03_interrupted_call_no_effect",
                  "C03_aligned_at_every_moment", "C03_current_point", "C03_gibbs_call_at_every_moment",
                  "C03_pca_call_sound", "C03_hmc_call_at_every_moment", "C03_mode_of_store",
                  "C03_mode_test_sound", "C03_mode_of_start", "C03_mode_start_best",
                  "C03_interleaved_gibbs_refuted", "C03_mode_skipping_start_refuted"]
HEADER = S.HEADER.replace("Model.Samplers.", "Model.Samplers Model.ChainStore.")


# --------------------------------------------------------------- in-thread tempering worker
class FakeConnection:
    """Stands in for a multiprocessing Connection so that the REAL worker loop
    `inference.mcmc.parallel.tempering_process` can be driven deterministically."""

    def __init__(self, messages, end):
        self.inbox = list(messages)
        self.sent = []
        self.end = end

    def poll(self, timeout=None):
        if not self.inbox:
            self.end.set()
            return False
        return True

    def recv(self):
        return self.inbox.pop(0)

    def send(self, obj):
        self.sent.append(obj)


def drive_worker(chain, messages):
    from inference.mcmc.parallel import tempering_process
    end = threading.Event()
    con = FakeConnection(messages, end)
    tempering_process(chain, con, end)
    return con.sent


def exchange_via_worker(ch_a, ch_b):
    """An exchange round of the REAL ParallelTempering.swap() between the two chains, with the
    real worker loop serving the messages (lib/pt_inproc.py); the swap draw is tiny, so the
    exchange is accepted unless its probability is essentially zero."""
    from lib import pt_inproc
    from lib.scripted import ScriptedRNG
    prng = ScriptedRNG(7)
    prng.uniform_hook = lambda: 2.0 ** -40
    pt = pt_inproc.make_pt([ch_a, ch_b], prng, lambda seq: prng.choice(seq))
    pt.swap()
    return int(pt.successful_swaps.sum())


# --------------------------------------------------------------- operations after the recorded steps
# (the oracle -- alignment of every index, walkers, current point, read-outs, mode() -- is `look` below)
def post_ops(r, ch, kind, cfg, partner):
    """A few more operations on the real object after the recorded steps."""
    ops = []
    with S.quiet(), warnings.catch_warnings():
        warnings.simplefilter("ignore")
        for _ in range(r.randint(1, 3)):
            u = r.random()
            if u < 0.4:
                m = r.choice([1, 2, 3, 7])
                ch.advance(m)
                ops.append(f"advance({m})")
            elif u < 0.7 and kind != "ensemble" and partner is not None:
                done = exchange_via_worker(ch, partner)
                ops.append("exchange" if done else "exchange(rejected)")
            elif kind != "ensemble":
                ch.take_step()
                ops.append("take_step")
    return ops


class RunawayCall(Exception):
    pass


class EvalLimit:
    """post.delay hook: a tree whose chain state is inconsistent can make an accept loop spin for
    ever (every proposal is rejected against a stored log-probability that is not the current
    point's); the check must report, not hang."""

    def __init__(self, post, limit=20000):
        self.post, self.limit = post, limit

    def __call__(self, *_):
        if len(self.post.evals) > self.limit:
            raise RunawayCall(f"more than {self.limit} evaluations of the log-density by one sampler "
                              f"(an accept loop that never accepts)")


# --------------------------------------------------------------- shared inputs
def shared_inputs_bad(r, kind):
    """Two samplers built from the SAME input arrays, advanced in interleaved order,
    must each equal their solo run, and the arrays must be unchanged."""
    cfg = SC.make_config(r, kind)
    bad = []

    def arrays():
        if kind == "ensemble":
            return {"positions": np.array(cfg["positions"], dtype=float)}
        return {"start": np.array(cfg["start"], dtype=float), "widths": np.array(cfg["widths"], dtype=float)}

    def construct(arrs, seed):
        c2 = dict(cfg, rng_seed=seed)
        ch, post, rng, fn = SC.build(c2)
        post.delay = EvalLimit(post)
        # rebuild from the shared arrays (SC.build copies; here we pass the very same objects)
        from inference.mcmc.gibbs import GibbsChain, MetropolisChain
        from inference.mcmc.pca import PcaChain
        from inference.mcmc.hmc import HamiltonianChain
        from inference.mcmc.ensemble import EnsembleSampler
        b = cfg["bounds"]
        bounds = None if b is None else (np.array(b[0], dtype=float), np.array(b[1], dtype=float))
        with warnings.catch_warnings():
            warnings.simplefilter("ignore")
            if kind in ("gibbs", "metro"):
                cls = GibbsChain if kind == "gibbs" else MetropolisChain
                new = cls(posterior=post, start=arrs["start"], widths=arrs["widths"], temperature=cfg["T"],
                          display_progress=False)
                S.attach_rng(new, rng)
            elif kind == "pca":
                new = PcaChain(posterior=post, start=arrs["start"], widths=arrs["widths"], temperature=cfg["T"],
                               bounds=bounds, display_progress=False)
                S.attach_rng(new, rng)
            elif kind == "hmc":
                new = HamiltonianChain(posterior=post, start=arrs["start"], grad=post.gradient,
                                       epsilon=cfg["eps"], temperature=cfg["T"], bounds=bounds,
                                       display_progress=False)
                new.steps = cfg["steps"]
                new.rng = rng
            else:
                new = EnsembleSampler(posterior=post, starting_positions=arrs["positions"], alpha=cfg["alpha"],
                                      bounds=bounds, display_progress=False)
                new.rng = rng
        S.freeze_adaptation(new)
        return new

    def step(ch):
        with S.quiet():
            if kind == "ensemble":
                ch.advance(1)
            else:
                ch.take_step()

    shared = arrays()
    before = {k: v.copy() for k, v in shared.items()}
    a, b = construct(shared, 11), construct(shared, 22)
    for _ in range(3):
        step(a)
        step(b)
    solo_a, solo_b = construct(arrays(), 11), construct(arrays(), 22)
    for _ in range(3):
        step(solo_a)
    for _ in range(3):
        step(solo_b)
    for k, v in shared.items():
        if v.shape != before[k].shape or not np.array_equal(v, before[k]):
            bad.append(f"the caller's `{k}` array was modified by the sampler")
    for name, x, y in (("first", a, solo_a), ("second", b, solo_b)):
        sx, px, _ = SC.stored(x, kind)
        sy, py, _ = SC.stored(y, kind)
        if kind == "ensemble":
            sx, sy = [tuple(S.frs(v)) for v in x.walker_positions], [tuple(S.frs(v)) for v in y.walker_positions]
        if sx != sy or px != py:
            bad.append(f"the {name} of two samplers built from the same arrays differs from its solo run")
    return cfg, bad


# --------------------------------------------------------------- the chain as a store, at every moment
LAY = {"gibbs": "ColMajor", "metro": "ColMajor", "pca": "ColMajor", "hmc": "RowMajor", "ensemble": "RowMajor"}
NAME = {"gibbs": "GibbsChain", "metro": "MetropolisChain", "pca": "PcaChain", "hmc": "HamiltonianChain",
        "ensemble": "EnsembleSampler"}
EXCS = {"KeyboardInterrupt": KeyboardInterrupt, "FloatingPointError": FloatingPointError}


def store_of(ch, kind):
    """(data, probs, beta), exact.  data: one list per parameter (Gibbs family: Parameter.samples)
    or one row per stored step (theta / sample).  Never fails on a ragged chain."""
    if kind in ("gibbs", "metro", "pca"):
        return ([[C.frac(v) for v in p.samples] for p in ch.params], [C.frac(v) for v in ch.probs],
                C.frac(ch.inv_temp))
    if kind == "hmc":
        return [S.frs(t) for t in ch.theta], [C.frac(v) for v in ch.probs], C.frac(ch.inv_temp)
    if ch.sample is None:
        return [], [], F(1)
    return [S.frs(t) for t in ch.sample], S.frs(ch.sample_probs), F(1)


def shape_of(ch, kind):
    if kind in ("gibbs", "metro", "pca"):
        return ([len(p.samples) for p in ch.params], len(ch.probs))
    if kind == "hmc":
        return ([len(ch.theta)], len(ch.probs))
    return ([0 if ch.sample is None else int(np.shape(ch.sample)[0])],
            0 if ch.sample_probs is None else int(np.size(ch.sample_probs)))


def rows_of(kind, data, probs):
    """The recorded rows, or None when the store is ragged."""
    if LAY[kind] == "ColMajor":
        if any(len(c) != len(probs) for c in data):
            return None
        return [tuple(c[k] for c in data) for k in range(len(probs))]
    if len(data) != len(probs):
        return None
    return [tuple(rw) for rw in data]


def readouts_bad(ch, rows, probs):
    """The public read-outs the property is observed through, with burn=0."""
    if not rows:
        return []
    n = len(rows[0])
    try:
        with warnings.catch_warnings():
            warnings.simplefilter("ignore")
            smp = np.asarray(ch.get_sample(burn=0), dtype=float)
            prb = np.asarray(ch.get_probabilities(burn=0), dtype=float)
            cols = [np.asarray(ch.get_parameter(i, burn=0), dtype=float) for i in range(n)]
    except Exception as e:
        return [f"a read-out with burn=0 raised {e!r}"]
    bad = []
    if smp.shape != (len(rows), n) or [tuple(S.frs(v)) for v in smp] != rows:
        bad.append("get_sample(burn=0) is not the recorded chain")
    if prb.shape != (len(probs),) or S.frs(prb) != probs:
        bad.append("get_probabilities(burn=0) is not the recorded log-probabilities")
    for i, c in enumerate(cols):
        if c.shape != (len(rows),) or S.frs(c) != [rw[i] for rw in rows]:
            bad.append(f"get_parameter({i}, burn=0) is not column {i} of the recorded chain")
            break
    return bad


def mode_of(ch):
    with warnings.catch_warnings():
        warnings.simplefilter("ignore")
        return tuple(S.frs(np.atleast_1d(ch.mode())))


def look(ch, kind, fn, full=True):
    """C03 itself on the real object as it is NOW (exact arithmetic): shape of the store,
    k-th stored log-probability = logp(k-th stored row)/T, the current point, and (full) the
    public read-outs with burn=0 and mode().  -> list of failures"""
    data, probs, beta = store_of(ch, kind)
    rows = rows_of(kind, data, probs)
    if rows is None:
        return [f"{shape_of(ch, kind)[0]} recorded values per parameter / recorded rows but {len(probs)} recorded "
                f"log-probabilities"]
    bad = []
    for k, (x, p) in enumerate(zip(rows, probs)):
        want = F(float(fn(list(x)))) * beta
        if want != p:
            bad.append(f"index {k}: stored log-probability {float(p)!r}, logp(sample)/T = {float(want)!r}")
            break
    if kind == "ensemble":
        for i, (x, p) in enumerate(zip(ch.walker_positions, ch.walker_probs)):
            if F(float(fn(S.frs(x)))) != C.frac(p):
                bad.append(f"walker {i}: stored value is not logp(position)")
                break
    elif rows:
        cur = tuple(S.frs(ch.get_last()))
        if cur != rows[-1]:
            bad.append("get_last() is not the last recorded sample")
        elif F(float(fn(list(cur)))) * beta != probs[-1]:
            bad.append("the last recorded log-probability is not logp(get_last())/T")
    if bad or not full or not rows:
        return bad
    bad += readouts_bad(ch, rows, probs)
    try:
        m = mode_of(ch)
    except Exception as e:
        return bad + [f"mode() raised {e!r} on a chain of {len(rows)} recorded sample(s)"]
    best = max(probs)
    if not any(rw == m and p == best for rw, p in zip(rows, probs)):
        k = probs.index(best)
        mine = [float(p) for rw, p in zip(rows, probs) if rw == m]
        bad.append(f"mode() = {[float(v) for v in m]} "
                   + (f"(recorded with log-probability {mine[0]!r})" if mine else "(not a recorded sample)")
                   + f" but recorded sample {k} = {[float(v) for v in rows[k]]} has the maximal recorded "
                     f"log-probability {float(best)!r}")
    return bad


# Stores and steps occur in many terms (the store before an interrupted call is the store after it,
# and the same for every crash point of the call); they are written once per generated file as a
# Definition and referred to by name -- elaborating the rational literals is what costs time in Coq.
_SHARED = {}          # text -> (name, "Definition name : type := text.")
_SHARED_RE = re.compile(r"\bcst_\d+\b")


def shared(text, typ):
    hit = _SHARED.get(text)
    if hit is None:
        name = f"cst_{len(_SHARED)}"
        hit = _SHARED[text] = (name, f"Definition {name} : {typ} := {text}.")
    return hit[0]


def coq_store(data, probs):
    return shared(f"({S.qmat(data)}, {S.qlist(probs)})", "store")


def coq_opt(v):
    return "None" if v is None else f"(Some {S.qlist(v)})"


def coq_shape(sh):
    return f"({C.clist([C.cnat(v) for v in sh[0]])}, {C.cnat(sh[1])})"


def coq_shapes(shs):
    return C.clist([coq_shape(sh) for sh in shs])


def coq_look(ch, kind, qp):
    """check_store: the look evaluated inside Coq (store, get_last(), mode()); None if there is
    nothing recorded yet (ensemble before its first iteration)."""
    data, probs, beta = store_of(ch, kind)
    if not probs:
        return None
    cur = None if kind == "ensemble" else S.frs(ch.get_last())
    try:
        mode = list(mode_of(ch))
    except Exception:
        mode = []                  # nothing reported: not a stored row (look() gives the exception)
    return (f"(check_store {LAY[kind]} {C.cq(S.TOL)} {qp} {C.cq(beta)} {coq_store(data, probs)} "
            f"{coq_opt(cur)} {coq_opt(mode)})")


def record_one(ch, post, rng, kind):
    if kind in ("gibbs", "metro"):
        return S.record_gibbs_like(ch, post, rng, 1, kind)[0]
    if kind == "pca":
        return S.record_pca(ch, post, rng, 1)[0]
    if kind == "hmc":
        return S.record_hmc(ch, post, rng, 1)[0]
    return S.record_ensemble(ch, post, rng, 1)[0]


def peak_variant(r, cfg):
    """The same configuration with the (uncorrelated) log-density re-centred so that the chain
    STARTS at its peak, or a fraction of a proposal width next to it: the starting point is,
    and mostly stays, the best recorded point."""
    n = cfg["n"]
    how = r.choice(["at", "next to", "next to"])
    off = [F(0)] * n if how == "at" else [F(cfg["widths"][i]) * F(r.choice([-1, 1]), r.choice([8, 16]))
                                          for i in range(n)]
    return dict(cfg, c={}, m=[F(cfg["start"][i]) + off[i] for i in range(n)], start_is=how + " the peak")


def run_with_looks(cfg, nsteps, stop_at_first=True):
    """Build the sampler and take `nsteps` recorded steps, looking at the chain before the first
    and after every step.  -> (ch, post, rng, fn, recs, first failing look (steps, failures) | None,
    look terms [(steps, term)])"""
    kind = cfg["kind"]
    ch, post, rng, fn = SC.build(cfg)
    post.delay = EvalLimit(post)
    qp = S.coq_qpost(cfg["a"], cfg["m"], cfg["c"])
    failed, lterms, recs = None, [], []
    for k in range(nsteps + 1):
        if k:
            recs.append(record_one(ch, post, rng, kind))
        bad = look(ch, kind, fn)
        if bad and failed is None:
            failed = (k, bad)
            if stop_at_first:
                break
        if k in (0, nsteps):
            t = coq_look(ch, kind, qp)
            if t is not None:
                lterms.append((k, t))
    return ch, post, rng, fn, recs, failed, lterms


# --------------------------------------------------------------- calls cut short from inside the log-density
class CallHook:
    """Runs inside every evaluation of the log-density / its gradient of the real sampler: notes
    the shape of the store at that moment, looks at the chain (C03 from inside the call) and,
    when armed, raises at the k-th evaluation."""
    LIMIT = 5000

    def __init__(self, ch, kind, fn):
        self.ch, self.kind, self.fn = ch, kind, fn
        self.inside = None        # first failing look from inside an evaluation
        self.watch = True         # look at the chain from inside the evaluations (the reference runs do)
        self.begin()

    def begin(self):
        self.count, self.shapes, self.crash_at, self.exc, self.fired = 0, [], 0, None, False

    def arm(self, k, exc):
        self.crash_at, self.exc = k, exc

    def __call__(self, *_):
        self.count += 1
        if self.count > self.LIMIT:
            raise RunawayCall(f"more than {self.LIMIT} evaluations of the log-density in one call")
        self.shapes.append(shape_of(self.ch, self.kind))
        if self.watch and self.inside is None:
            bad = look(self.ch, self.kind, self.fn, full=False)
            if bad:
                self.inside = (self.count, bad)
        if self.crash_at and self.count == self.crash_at:
            self.crash_at, self.fired = 0, True
            raise self.exc("simulated interruption inside the log-density")


def hist_open(cfg):
    ch, post, rng, fn = SC.build(cfg)
    hook = CallHook(ch, cfg["kind"], fn)
    post.delay = hook                      # called from inside RecordingPosterior.__call__
    if post.gfn is not None:
        g0 = post.gfn

        def gfn(th, _g0=g0, _hook=hook):   # ... and from inside RecordingPosterior.gradient
            _hook()
            return _g0(th)
        post.gfn = gfn
    return ch, post, rng, fn, hook


def coq_step(ne, rows, probs):
    return shared(f"(mkStep {C.cnat(ne)} {S.qmat(rows)} {S.qlist(probs)})", "step")


def run_terms(prop, name, terms, chunk=60, jobs=12):
    """S.run_code_cases with (a) identical terms evaluated once and (b) the shared Definitions a
    chunk refers to written in front of it.  -> (codes per term, broken files)"""
    uniq, index = [], {}
    for t in terms:
        if t not in index:
            index[t] = len(uniq)
            uniq.append(t)
    by_name = {nm: d for nm, d in _SHARED.values()}
    files, spans = [], []
    for i in range(0, len(uniq), chunk):
        part = uniq[i:i + chunk]
        names = sorted({m for t in part for m in _SHARED_RE.findall(t)}, key=lambda v: int(v[4:]))
        body = "\n".join(by_name[nm] for nm in names) + "\nDefinition codes : list nat :=\n " + C.clist(part, ";\n ") + "."
        files.append(C.write_case_file(prop, f"{name}_{i // chunk}", HEADER, body,
                                       ["with_code 1 codes 0", "with_code 2 codes 0", "with_code 3 codes 0"]))
        spans.append((i, len(part)))
    outs = C.run_case_files(files, jobs=jobs)
    ucodes, broken = [None] * len(uniq), []
    for (start, n), f, (ok, res, log) in zip(spans, files, outs):
        if not ok or not all(k in res for k in (0, 1, 2)):
            broken.append(f"{f.name}: {log[-400:]}")
            continue
        for j in range(n):
            ucodes[start + j] = 0
        for c, key in ((1, 0), (2, 1), (3, 2)):
            for j in res[key]:
                ucodes[start + j] = c
    return [ucodes[index[t]] for t in terms], broken, len(uniq), len(files)


def coq_model_call(cfg, rec, before, k, shapes, after, qp):
    """The call with its step COMPUTED by the sampler model from the store before the call and
    the tape of draws (Gibbs / Metropolis / PCA)."""
    kind, pr = cfg["kind"], rec.pre
    tail = (f"{coq_store(*before)} {S.qlist(rec.tape)} {C.cnat(k)} {coq_shapes(shapes)} {coq_store(*after)}")
    if kind in ("gibbs", "metro"):
        return (f"(check_gibbs_call {C.cbool(kind == 'metro')} {C.cq(S.TOL)} {qp} {C.cq(pr['beta'])} "
                f"{pr['params']} {tail})")
    return (f"(check_pca_call {C.cq(S.TOL)} {qp} {C.cq(pr['beta'])} {S.qmat(pr['dirs'])} {S.qlist(pr['sigmas'])} "
            f"{S.bounds_coq(pr['bounds'])} {tail})")


def coq_ref_calls(kind, before, calls, after):
    """calls: [(ne, rows, probs, crash, shapes)] with the steps taken from the reference run."""
    cs = C.clist([f"({coq_step(ne, rows, probs)}, {C.cnat(k)}, {coq_shapes(shs)})" for ne, rows, probs, k, shs in calls])
    return f"(check_calls {LAY[kind]} {C.cq(S.TOL)} {coq_store(*before)} {cs} {coq_store(*after)})"


def hist_reference(cfg, nsteps, transitions=None):
    """transitions: indices of the steps that are also replayed through the transition model
    (None: all).  Uninterrupted run of the sampler, one take_step (ensemble: one iteration) at a time.
    -> (steps, failure | None, terms): per step the record, the evaluations, the store
    shapes seen from inside them, the store before / after and the rows it added."""
    kind = cfg["kind"]
    qp = S.coq_qpost(cfg["a"], cfg["m"], cfg["c"])
    ch, post, rng, fn, hook = hist_open(cfg)
    steps, terms, failure = [], [], None
    for i in range(nsteps):
        before = store_of(ch, kind)[:2]
        hook.begin()
        rec = record_one(ch, post, rng, kind)
        bad = look(ch, kind, fn, full=False)
        if hook.inside is not None and failure is None:
            failure = (i + 1, [f"seen from inside evaluation {hook.inside[0]} of the log-density: " + b
                               for b in hook.inside[1]])
        if bad:
            return steps, failure or (i + 1, bad), terms
        after = store_of(ch, kind)[:2]
        rows, nb = rows_of(kind, *after), len(before[1])
        st = {"rec": rec, "ne": hook.count, "shapes": list(hook.shapes), "before": before, "after": after,
              "rows": [list(rw) for rw in rows[nb:]], "probs": list(after[1][nb:])}
        steps.append(st)
        if transitions is None or i in transitions:
            terms += SC.coq_terms(cfg, [rec])
        if kind in ("gibbs", "metro", "pca"):
            terms.append(coq_model_call(cfg, rec, before, 0, st["shapes"], after, qp))
        else:
            terms.append(coq_ref_calls(kind, before, [(st["ne"], st["rows"], st["probs"], 0, st["shapes"])], after))
    return steps, failure, terms


def hist_run(cfg, sc, ref, transitions=True):
    """`pre` completed steps, one call (`entry`) whose `crash`-th evaluation raises, a look, `post`
    recorded steps with a look after each.  -> {"bad": [(moment, failures)], "terms": [...], "anomaly"}
    transitions=False: the resumed steps are looked at (Python oracle, check_store) but not replayed
    through the transition model (Hamiltonian / ensemble transitions cost ~1 s each inside Coq)."""
    kind = cfg["kind"]
    qp = S.coq_qpost(cfg["a"], cfg["m"], cfg["c"])
    ch, post, rng, fn, hook = hist_open(cfg)
    hook.watch = False             # the uninterrupted reference run has looked from inside every evaluation
    out = {"bad": [], "terms": [], "anomaly": None}

    def moment(label, full=True):
        bad = look(ch, kind, fn, full=full)
        if hook.inside is not None:
            bad = bad + [f"seen from inside evaluation {hook.inside[0]} of the log-density: " + b for b in hook.inside[1]]
            hook.inside = None
        if bad:
            out["bad"].append((label, bad))
        return bad

    with S.quiet(), warnings.catch_warnings():
        warnings.simplefilter("ignore")
        for _ in range(sc["pre"]):
            ch.advance(1) if kind == "ensemble" else ch.take_step()
        if moment(f"after {sc['pre']} completed step(s)", full=False):
            return out
        before = store_of(ch, kind)[:2]
        k = sc["crash"]
        hook.begin()
        hook.arm(k, EXCS[sc["exc"]])
        try:
            if sc["entry"] == "take_step":
                ch.take_step()
            else:
                ch.advance(sc["nadv"])
        except BaseException:
            if not hook.fired:
                raise
        if not hook.fired:
            out["anomaly"] = (f"the call made fewer than {k} evaluations although the same call of an identically "
                              f"built sampler made more")
            return out
        shapes = list(hook.shapes)
        after = store_of(ch, kind)[:2]
        label = f"right after {sc['entry']} was cut short by {sc['exc']} at evaluation {k} of the log-density"
        moment(label)
        # the interrupted call inside Coq
        part = ref[sc["pre"]: sc["pre"] + (sc["nadv"] if sc["entry"] == "advance" else 1)]
        if kind in ("gibbs", "metro", "pca") and sc["entry"] == "take_step":
            out["terms"].append(coq_model_call(cfg, part[0]["rec"], before, k, shapes, after, qp))
        elif kind == "ensemble" and sc["entry"] == "advance":
            out["terms"].append(coq_ref_calls(kind, before, [(sum(s_["ne"] for s_ in part),
                                                             [rw for s_ in part for rw in s_["rows"]],
                                                             [p for s_ in part for p in s_["probs"]], k, shapes)], after))
        else:
            calls, cum = [], 0
            for s_ in part:
                if k > cum + s_["ne"]:
                    calls.append((s_["ne"], s_["rows"], s_["probs"], 0, shapes[cum:cum + s_["ne"]]))
                    cum += s_["ne"]
                else:
                    calls.append((s_["ne"], s_["rows"], s_["probs"], k - cum, shapes[cum:]))
                    break
            out["terms"].append(coq_ref_calls(kind, before, calls, after))
        t = coq_look(ch, kind, qp)
        if t is not None:
            out["terms"].append(t)
        # the chain is resumed
        for j in range(sc["post"]):
            hook.begin()
            rec = record_one(ch, post, rng, kind)
            if transitions:
                out["terms"] += SC.coq_terms(cfg, [rec])
            moment(f"{j + 1} step(s) after the chain was resumed ({label[12:]})")
        t = coq_look(ch, kind, qp) if transitions else None
        if t is not None:
            out["terms"].append(t)
    return out


def hist_plan(r, tier):
    """-> [(cfg, reference steps, failure, reference terms, [scenario])]"""
    plans = []
    ncfg = 3 if tier == "quick" else 6
    kmax = 8 if tier == "quick" else 16
    for kind in SC.SAMPLERS:
        got = 0
        for _attempt in range(ncfg * 6):
            if got >= ncfg:
                break
            cfg = SC.make_config(r, kind)
            if kind in ("gibbs", "metro", "pca") and got < 2 and cfg["n"] < 2:
                continue                      # the coordinate-wise samplers mostly with several parameters
            got += 1
            pre = r.randint(1, 2) if kind == "ensemble" else r.randint(0, 2)
            nadv = r.randint(2, 3)
            try:
                ref, failure, rterms = hist_reference(cfg, pre + nadv,
                                                      None if kind in ("gibbs", "metro", "pca") or tier != "quick" else {pre})
            except Exception as e:
                ref, failure, rterms = [], (1, [f"an uninterrupted run of the sampler raised {e!r}"]), []
            scs = []
            if len(ref) == pre + nadv:
                K1 = ref[pre]["ne"]
                ks = list(range(1, K1 + 1))
                if len(ks) > kmax:
                    ks = sorted(set([1, 2, K1 - 1, K1] + r.sample(ks, kmax - 4)))
                for k in ks:
                    scs.append({"pre": pre, "entry": "take_step", "nadv": 1, "crash": k,
                                "exc": r.choice(sorted(EXCS)), "post": r.randint(1, 2)})
                Kall = sum(s_["ne"] for s_ in ref[pre:pre + nadv])
                later = list(range(K1 + 1, Kall + 1))
                for k in sorted(set(r.sample(later, min(len(later), 2 if tier == "quick" else 6)) + [Kall])):
                    scs.append({"pre": pre, "entry": "advance", "nadv": nadv, "crash": k,
                                "exc": r.choice(sorted(EXCS)), "post": r.randint(1, 2)})
            plans.append((cfg, ref, failure, rterms, scs))
    return plans


# --------------------------------------------------------------- main
def audit_store_theorems(rep):
    try:
        info = C.coq_audit(PROP + "_store", STORE_THEOREMS, "IT.Properties.C03Store")
        rep.obligation(True, len(STORE_THEOREMS))
        rep.coverage["store_model_audit"] = info
    except C.ProofFailure as e:
        rep.obligation(False, len(STORE_THEOREMS))
        rep.violation("C03/proof", f"proof obligation no longer checks: {e.what}",
                      {"theorem_or_correspondence": e.what, "log": e.log[-1500:]}, False)


def run(rep: C.Report, tier: str) -> int:
    r = C.rng_for(PROP, "cases")
    rh = C.rng_for(PROP, "histories")
    C.clean_gen(PROP)
    _SHARED.clear()
    C.prove_and_audit(rep, PROP, THEOREMS)
    audit_pool = ThreadPoolExecutor(max_workers=1)
    audit_fut = audit_pool.submit(audit_store_theorems, rep)      # coqc runs beside the generation of the cases
    per_kind = 6 if tier == "quick" else 40
    per_kind_peak = 3 if tier == "quick" else 15
    nsteps = 6 if tier == "quick" else 12

    # every Coq term belongs to a group (one real object / one history); `reported` = the
    # property oracle has already produced a concrete failing input for that group
    terms, owners, groups, reported = [], [], [], set()

    def new_group(**kw):
        groups.append(kw)
        return len(groups) - 1

    def add_terms(gid, ts, label):
        for t in ts:
            terms.append(t)
            owners.append((gid, label))

    plan = []
    for kind in SC.SAMPLERS:
        for j in range(per_kind + (per_kind_peak if kind != "ensemble" else 0)):
            cfg = SC.make_config(r, kind)
            if j >= per_kind:
                cfg = peak_variant(r, cfg)
            plan.append(cfg)

    for cfg in plan:
        kind = cfg["kind"]
        ns = 3 if kind == "ensemble" else 4 if (cfg.get("start_is") and tier == "quick") else nsteps
        rep.count("sampler=" + kind)
        rep.count("T=" + str(cfg["T"]))
        rep.count("bounds=" + str(cfg["bounds"] is not None))
        rep.count("start=" + cfg.get("start_is", "anywhere"))
        gid = new_group(cfg=cfg, what=f"{kind}: recorded steps with a look before the first and after every step",
                        replay={"case": SC.describe(cfg), "recorded_steps": ns})
        try:
            with warnings.catch_warnings():
                warnings.simplefilter("ignore")
                ch, post, rng, fn, recs, failed, lterms = run_with_looks(cfg, ns)
        except Exception as e:
            rep.violation("C03/exception", f"{kind}: the sampler failed on a valid configuration: {e!r}",
                          {"case": SC.describe(cfg)}, True)
            reported.add(gid)
            continue
        rep.case((SC.describe(cfg),), nontrivial=True)
        rep.count("looks", len(recs) + 1)
        if failed is not None:
            k, bad = failed
            reported.add(gid)
            rep.violation(f"C03/alignment/{kind}",
                          f"{kind}: " + ("before the first step: " if k == 0 else f"after {k} step(s): ") + "; ".join(bad[:2]),
                          {"case": SC.describe(cfg), "recorded_steps": k}, True)
            continue
        if cfg.get("start_is"):
            p_ = SC.stored(ch, kind)[1]
            rep.count("start_is_best_recorded_point=" + str(bool(p_ and p_[0] == max(p_))))
        ts = SC.coq_terms(cfg, recs)
        add_terms(gid, ts, "transition")
        add_terms(gid, [t for _, t in lterms], "look")
        rep.count("transitions", len(ts))
        rep.count("posterior_evaluations", len(post.evals))
        if len(rep.samples) < 3:
            rc = recs[0]
            rep.sample({"sampler": kind, "config": SC.describe(cfg),
                        "first_transition": {"tape": [str(t) for t in rc.tape],
                                             "evaluations": [[[str(v) for v in p], str(q)] for p, q in rc.events],
                                             "post": {k: str(v) for k, v in rc.post.items()}}})
        # ---- more operations, then the property itself on the implementation (every object, exact)
        partner = None
        if kind in ("gibbs", "pca", "hmc", "metro"):
            try:
                partner = SC.build(dict(cfg, T=cfg["T"] * 2, rng_seed=cfg["rng_seed"] + 1))[0]
            except Exception:
                partner = None
        try:
            ops = post_ops(r, ch, kind, cfg, partner)
        except Exception as e:
            rep.violation("C03/exception", f"{kind}: an operation failed: {e!r}", {"case": SC.describe(cfg)}, True)
            reported.add(gid)
            continue
        for o in ops:
            rep.count("op=" + o.split("(")[0])
        bad = look(ch, kind, fn)
        if partner is not None:
            bad += ["partner chain: " + b for b in look(partner, kind, fn)]
        if bad:
            reported.add(gid)
            rep.violation(f"C03/alignment/{kind}", f"{kind}: " + "; ".join(bad[:2]),
                          {"case": SC.describe(cfg), "operations_after_recorded_steps": ops,
                           "recorded_steps": ns}, True)
        else:
            t = coq_look(ch, kind, S.coq_qpost(cfg["a"], cfg["m"], cfg["c"]))
            if t is not None:
                add_terms(gid, [t], "look after " + ", ".join(ops))

    # ---- histories with calls cut short from inside the log-density
    n_hist = 0
    try:
        with warnings.catch_warnings():
            warnings.simplefilter("ignore")
            hplans = hist_plan(rh, tier)
    except Exception as e:
        hplans = []
        rep.violation("C03/exception", f"a sampler failed on a valid configuration (reference run of the "
                                       f"interrupted-call histories): {e!r}", {}, True)
    for cfg, ref, failure, rterms, scs in hplans:
        kind = cfg["kind"]
        rep.count("interrupted:sampler=" + kind)
        gid = new_group(cfg=cfg, what=f"{kind}: uninterrupted reference run, looked at from inside every evaluation",
                        replay={"case": SC.describe(cfg), "recorded_steps": len(ref)})
        add_terms(gid, rterms, "reference call")
        if failure is not None:
            k, bad = failure
            reported.add(gid)
            rep.violation(f"C03/alignment/{kind}", f"{kind}: during / after step {k}: " + "; ".join(bad[:2]),
                          {"case": SC.describe(cfg), "recorded_steps": k, "watch_inside_evaluations": True}, True)
        for isc, sc in enumerate(scs):
            K = ref[sc["pre"]]["ne"]
            rep.count("interrupted:entry=" + sc["entry"])
            rep.count("interrupted:exception=" + sc["exc"])
            rep.count("interrupted:crash_point=" + ("first evaluation" if sc["crash"] == 1 else
                                                    "last evaluation of the step" if sc["crash"] == K else
                                                    "in a later step of advance()" if sc["crash"] > K else "inside"))
            rp = {"case": SC.describe(cfg), "history": sc}
            gid = new_group(cfg=cfg, what=f"{kind}: {sc['pre']} step(s), {sc['entry']} cut short at evaluation "
                                          f"{sc['crash']} by {sc['exc']}, {sc['post']} more step(s)", replay=rp)
            try:
                res = hist_run(cfg, sc, ref, transitions=(kind in ("gibbs", "metro", "pca") or isc == len(scs) // 2
                                                          or (tier != "quick" and isc % 3 == 0)))
            except Exception as e:
                reported.add(gid)
                rep.violation(f"C03/interrupted/{kind}",
                              f"{NAME[kind]}: a call that was not cut short raised {e!r} ({groups[gid]['what']})", rp, True)
                continue
            n_hist += 1
            rep.case(("history", SC.describe(cfg), sorted(sc.items())))
            add_terms(gid, res["terms"], "interrupted call / look / resumed transition")
            if res["bad"]:
                label, bad = res["bad"][0]
                reported.add(gid)
                rep.violation(f"C03/interrupted/{kind}", f"{NAME[kind]} {label}: " + "; ".join(bad[:2]), rp, True)
            elif res["anomaly"]:
                reported.add(gid)
                rep.violation(f"C03/interrupted/{kind}/correspondence", f"{NAME[kind]}: {res['anomaly']}",
                              dict(rp, theorem_or_correspondence="determinism of the scripted run"), False)
            if len(rep.samples) < 4 and kind == "gibbs" and cfg["n"] >= 2:
                rep.sample({"interrupted_history": sc, "sampler": NAME[kind], "config": SC.describe(cfg),
                            "store_shapes_seen_by_the_step": ref[sc["pre"]]["shapes"][:6]})
    rep.coverage["interrupted_call_histories"] = n_hist

    # ---- correspondence inside Coq
    audit_fut.result()
    audit_pool.shutdown()
    codes, broken, n_uniq, n_files = run_terms(PROP, "trace", terms)
    rep.coverage["coq_terms"] = {"generated": len(terms), "distinct": n_uniq}
    for b in broken:
        rep.obligation(False)
        rep.violation("C03/correspondence-run", "a generated case file did not evaluate",
                      {"theorem_or_correspondence": "coq/gen/C03 case file", "log": b}, False)
    rep.obligation(True, max(1, n_files) - len(broken))
    n_ok = sum(1 for c in codes if c == 0)
    rep.coverage["traces_validated_against_impl"] = n_ok
    rep.coverage["undecided_transitions"] = sum(1 for c in codes if c == 2)
    seen = set()
    for (gid, label), code in zip(owners, codes):
        if code in (1, 3) and gid not in seen:
            seen.add(gid)
            if gid in reported:
                continue                      # the oracle already gave the concrete failing input
            g = groups[gid]
            cfg = g["cfg"]
            # failing-input search: does the property itself fail on this configuration?
            found = False
            if "history" not in g["replay"]:
                try:
                    with warnings.catch_warnings():
                        warnings.simplefilter("ignore")
                        failed = run_with_looks(cfg, g["replay"]["recorded_steps"])[5]
                    if failed is not None:
                        found = True
                        rep.violation(f"C03/alignment/{cfg['kind']}",
                                      f"{cfg['kind']}: after {failed[0]} step(s): " + "; ".join(failed[1][:2]),
                                      {"case": SC.describe(cfg), "recorded_steps": failed[0]}, True)
                except Exception as e:
                    found = True
                    rep.violation("C03/exception", f"{cfg['kind']}: {e!r}", {"case": SC.describe(cfg)}, True)
            if not found:
                rep.violation(f"C03/correspondence/{cfg['kind']}",
                              f"{g['what']}: the real sampler is not the model ({label})",
                              dict(g["replay"], theorem_or_correspondence=f"Model.Samplers / Model.ChainStore check "
                                                                         f"for {cfg['kind']} ({label})"), False)

    # ---- shared inputs / independence / caller's arrays
    for kind in SC.SAMPLERS:
        for _ in range(2 if tier == "quick" else 10):
            try:
                with warnings.catch_warnings():
                    warnings.simplefilter("ignore")
                    cfg, bad = shared_inputs_bad(r, kind)
            except Exception as e:
                rep.violation("C03/exception", f"{kind} (shared inputs): {e!r}", {}, True)
                continue
            rep.count("shared_inputs_runs")
            rep.case(("shared", SC.describe(cfg)))
            if bad:
                rep.violation(f"C03/shared-inputs/{kind}", f"{kind}: " + "; ".join(bad),
                              {"case": SC.describe(cfg), "scenario": "two samplers from the same arrays, 3 interleaved steps"},
                              True)

    rep.assumptions = [
        "the user's log-density is a member of the rational quadratic family in executions (a Section variable in the theorems)",
        "adaptation of proposal widths / step size is frozen (chk_int raised) during recorded transitions",
        "aliasing and independence of samplers are decided by the run, not by a theorem (value-semantics model)",
        "Hamiltonian and ensemble transitions are compared to 1e-9 relative (their float arithmetic is not exact); Gibbs / Metropolis / PCA exactly",
        "user code runs (and an exception can surface inside a step) only at the evaluations of the log-density / its gradient: "
        "the crash points of the store model; interruptions between two byte-codes of the sampler itself (asynchronous "
        "signals outside user code) are not modelled",
        "that a PcaChain step stores one value per parameter is decided by the run (completed calls are compared), the "
        "Gibbs / Metropolis / Hamiltonian cases by theorem",
    ]
    return rep.finish(
        level="proof",
        checker_cmd="make -C /verif/coq + coqc on coq/gen/C03/*.v (vm_compute of Model.Samplers on recorded transitions, "
                    "of Model.ChainStore on looks and on calls cut short)",
        trusted_base=C.KERNEL_TB + ["axioms: none (C03 theorems are closed under the global context)",
                                    "Common/ExpBounds rational enclosure of exp (proved in Proofs/ExpBoundsProofs.v)"],
        rule="random configurations per sampler (1-4 parameters, dyadic quadratic log-density with and without "
             "correlations, T in {0.5,1,2,4,8}, bounds / non-negativity / boundaries, mass kinds, stretch alpha), plus "
             "chains that START at / next to the peak of the log-density (the start is the best recorded point) x "
             "recorded transitions with scripted draws, the chain looked at (alignment, current point, read-outs with "
             "burn=0, mode()) BEFORE the first and after EVERY step; then advance / exchange-through-the-real-worker-loop "
             "/ take_step and the exact alignment oracle; histories with a call (take_step at every evaluation of the "
             "step, advance in a later step) cut short by KeyboardInterrupt / FloatingPointError raised from inside the "
             "log-density or its gradient, the chain looked at from inside every evaluation, right after the interruption "
             "and after every resumed step; plus shared-input-array scenarios; every configuration is distinct and "
             "non-trivial (at least one accepted and, typically, rejected proposals)")


def replay(path):
    import json
    d = json.load(open(path))
    rp = d["replay"]
    if "case" not in rp or not rp["case"]:
        print("replay names a broken theorem / correspondence:", rp.get("theorem_or_correspondence"))
        return 1
    cfg = SC.undescribe(rp["case"])
    if rp.get("scenario"):
        print("shared-input scenario; re-run the check with the same seed to reproduce")
        return 1
    with warnings.catch_warnings():
        warnings.simplefilter("ignore")
        if rp.get("history"):
            sc = rp["history"]
            ref, failure, _ = hist_reference(cfg, sc["pre"] + sc["nadv"])
            if failure is not None:
                print("property failures (uninterrupted run):", failure)
            if len(ref) < sc["pre"] + sc["nadv"]:
                return 1
            res = hist_run(cfg, sc, ref)
            print("property failures:", res["bad"] or res["anomaly"])
            return 1 if (failure or res["bad"] or res["anomaly"]) else 0
        if rp.get("watch_inside_evaluations"):
            try:
                failure = hist_reference(cfg, rp.get("recorded_steps", 6))[1]
            except Exception as e:
                failure = (1, [f"an uninterrupted run of the sampler raised {e!r}"])
            print("property failures:", failure)
            return 1 if failure else 0
        ch, post, rng, fn, recs, failed, _ = run_with_looks(cfg, rp.get("recorded_steps", 6))
        bad = [] if failed is None else [f"after {failed[0]} step(s)"] + failed[1]
        if failed is None and rp.get("operations_after_recorded_steps"):
            print("(the operations after the recorded steps are drawn from the check's stream; re-run the check "
                  "with the same seed to reproduce them)")
    print("property failures:", bad)
    return 1 if bad else 0
