"""C18 -- acquisition functions compute what they define; proposals respect bounds;
add_evaluation.

Theorems: coq/theories/Properties/C18.v (RealModel/Acquisition.v, Model/Optimiser.v).

Tie to the code, on every run:
 (a) [interval goals] EI / UCB / MaxVariance  __call__, opt_func, opt_func_gradient of the
     real classes on a real fitted GpRegressor: mu, sigma, dmu, dvar are READ from the
     regressor at the query point (exact rationals of the doubles), the implementation's
     value v is converted exactly, and coq-interval (`integral`, because Phi is an RInt)
     proves  |model(mu, sigma, ...) - v| <= tol  inside Coq.  z runs from -8 to +8 with a
     dense cluster on both sides of the branch switch z = -3.
 (b) [vm_compute] starting_positions with a scripted `random`: every start is, within
     1e-12*scale, a clipped candidate / the uniform draw of Model.Optimiser, and in the box.
 (c) [vm_compute + R] every propose/add sequence of length <= 4 on a real GpOptimiser, both
     optimisers: final x / y / y_err / mu_max equal Model.Optimiser.add_all exactly;
     proposals inside the bounds [R]; the next model is fitted to the grown data [R];
     every array the caller passed in is compared bytes / shape / dtype before and after.
 (d) [vm_compute + interval goals + R] WORLDS: two or three GpOptimiser objects alive in one
     process, built with the default acquisition (argument omitted), a class, or an instance
     made by the caller, their construction / propose / add calls interleaved.  After EVERY
     operation EVERY optimiser is observed (x, y, y_err, mu_max, what its acquisition object
     holds: incumbent, whose regressor, how many points) and must equal
     Model.OptimiserWorld.wstep; the acquisition value / objective / gradient of every optimiser
     at a query point is checked against ITS OWN regressor and ITS OWN incumbent (interval
     goals on a sample, definition by quadrature on all), operations on one optimiser must
     leave the others bit-for-bit as they were.
 (e) [interval goals + vm_compute + R] UNITS and ELEMENT TYPES (Properties/C18Scale.v):
     regressors fitted to the same kind of objective in other units (y-values of order
     1e-11 .. 1e6: every run has one with predictive sigma far below 1e-9, one in between, one
     with sigma far above 1) -- the same goals as in (a), whose tolerances are all relative;
     worlds and lives of the optimiser in those units; lives whose initial data arrive as
     int64 / int32 / int16 arrays, lists / tuples of Python ints or float32 arrays and whose
     evaluations are added as float64 arrays, Python floats, tuples, numpy scalars, float32 /
     int64 arrays, Python ints or the proposal object: after every addition the arrays'
     dtypes and data equal Model.OptimiserTyped.typed_add_all (numpy's promoted type, the
     point exactly as given), and [R] the stored / re-fitted evaluation is the one that was made.
 Configuration values (a): UpperConfidenceBound is built with kappa omitted / 0 / 0.0 /
     int / numpy scalar / positional / small / large: the goal is ucb_call (ucb_kappa arg).
Property oracle (when something disagrees, and on a sample of agreeing points):
 the definition  E max(f - ymax, 0)  by quadrature of the Gaussian density (scipy.quad in
 the search, coq-interval `integral` enclosure as the machine-checked form), central
 differences of the implementation's own opt_func for the gradients.
"""
from __future__ import annotations

import json
import math
import os
import traceback
import warnings
from concurrent.futures import ProcessPoolExecutor
from fractions import Fraction

# one BLAS thread per process: the check runs many processes side by side
for _v in ("OMP_NUM_THREADS", "OPENBLAS_NUM_THREADS", "MKL_NUM_THREADS"):
    os.environ.setdefault(_v, "1")

import numpy as np  # noqa: E402

from lib import common as C
from lib import interval as I

PROP = "C18"
THEOREMS = ["C18_helpers", "C18_ei_branches_agree", "C18_tail_identity", "C18_ei_antiderivative",
            "C18_ei_nonneg", "C18_ln_ei_gradient", "C18_ucb_gradient", "C18_maxvar_gradient",
            "C18_starts_in_bounds", "C18_add_evaluation_spec", "C18_add_all_spec",
            "C18_caller_arrays_unchanged", "C18_resize_refuted",
            "C18_ucb_configuration", "C18_ucb_falsy_default_refuted",
            "C18_world_data_own", "C18_world_data_own_new", "C18_world_acquisition_own",
            "C18_world_defaults_unshared", "C18_world_propose_pure",
            "C18_world_shared_default_refuted"]

PREAMBLE = """From Coq Require Import Reals Lra.
From Coquelicot Require Import Coquelicot.
From Interval Require Import Tactic.
From IT Require Import RealModel.Acquisition Proofs.AcquisitionProofs RealModel.AcquisitionConfig.
Open Scope R_scope.
"""

TYPED_HEADER = """From Coq Require Import List QArith.
From IT Require Import Model.Optimiser Model.OptimiserTyped.
Import ListNotations.
Open Scope Q_scope.
"""

CASE_HEADER = """From Coq Require Import List QArith.
From IT Require Import Model.Optimiser Model.OptimiserWorld.
Import ListNotations.
Open Scope Q_scope.
"""

Z_TARGETS = [-8.0, -7.0, -6.0, -5.0, -4.0, -3.5, -3.1, -3.01, -3.0 - 1e-4, -3.0 - 1e-7, -3.0 - 1e-11,
             -3.0, -3.0 + 1e-11, -3.0 + 1e-7, -3.0 + 1e-4, -2.99, -2.9, -2.5, -2.0, -1.0, -0.25,
             0.0, 0.5, 1.0, 2.0, 3.0, 5.0, 8.0]


# how UpperConfidenceBound is constructed: (kind, value).  "default" omits the argument (the
# model's ucb_kappa None = 2); every other kind passes the value, which is then the kappa
# (ucb_kappa (Some value)) -- 0 included, as float, int, numpy scalar and positionally.
KAPPA_ARGS = [("float", 0.0), ("default", None), ("float", 0.5), ("int", 0), ("float", 2.0),
              ("npfloat", 0.0), ("float", 3.25), ("pos", 0.0), ("float", 1e-3), ("int", 3),
              ("float", 1.0), ("npfloat", 16.0), ("pos", 1.5)]


def make_ucb(kind, value):
    *_, UCB, _ = impl()
    if kind == "default":
        return UCB()
    if kind == "int":
        return UCB(kappa=int(value))
    if kind == "npfloat":
        return UCB(kappa=np.float64(value))
    if kind == "pos":
        return UCB(float(value))
    return UCB(kappa=float(value))


def kappa_expected(kind, value):
    return 2.0 if kind == "default" else float(value)


def kappa_model(kind, value):
    return "(ucb_kappa None)" if kind == "default" else f"(ucb_kappa (Some {C.cR(float(value))}))"


def impl():
    from inference.gp import (GpOptimiser, GpRegressor, ExpectedImprovement,
                              UpperConfidenceBound, MaxVariance)
    return GpOptimiser, GpRegressor, ExpectedImprovement, UpperConfidenceBound, MaxVariance


# ============================================================ (a) acquisition values
def fit_gp(r, d, seed):
    """A real GpRegressor fitted (hyper-parameters optimised) to smooth data."""
    _, GpRegressor, *_ = impl()
    n = r.randint(4, 7)
    x = np.array([[r.uniform(-2, 2) for _ in range(d)] for _ in range(n)])
    w = [r.uniform(0.5, 1.5) for _ in range(d)]
    y = np.array([math.sin(sum(wi * xi for wi, xi in zip(w, row))) + 0.3 * row[0] for row in x])
    np.random.seed(seed)
    with warnings.catch_warnings():
        warnings.simplefilter("ignore")
        gp0 = GpRegressor(x, y, optimizer="diffev")
        theta = np.array(gp0.hyperpars, dtype=float)
        gp = GpRegressor(x, y, hyperpars=theta)      # same state, reproducible from theta
    return gp, x, y, theta


def kernel_py(z):
    """phi, Phi, h = z Phi + phi in floats -- used ONLY to scale tolerances and to pick
    the working precision of the interval goals."""
    phi = math.exp(-0.5 * z * z) / math.sqrt(2 * math.pi)
    Phi = 0.5 * math.erfc(-z / math.sqrt(2))
    if z < -4:
        h = phi / (z * z) * (1 - 3 / z ** 2 + 15 / z ** 4)
    else:
        h = z * Phi + phi
    return phi, Phi, h


def tactic_for(z, what):
    """proof script of one EI goal; the z-score literal is checked by `field`."""
    bits = 45 + (z * z / (2 * math.log(2)) + 2 * math.log2(abs(z) + 1) if z < 0 else 0)
    prec = int(max(64, bits + 25))
    relw = int(max(45, bits + 5))
    return prec, relw


def ei_goal(kind, gid, mu, sig, ymax, val, dmu=None, dvar=None):
    fm, fs, fy = C.frac(mu), C.frac(sig), C.frac(ymax)
    z = (fm - fy) / fs
    zf = float(z)
    phi, Phi, h = kernel_py(zf)
    prec, relw = tactic_for(zf, kind)
    zl = C.cR(z)
    if z == 0:
        # equal integration bounds: use the lemma Phi 0 = 1/2 instead of the integrator
        pre = (f"rewrite (zscore_literal _ _ _ {zl}); [ | interval | field]. "
               f"unfold ei_kernel. rewrite Phi_0. unfold phi. interval with (i_prec {prec}, i_degree 20)")
    else:
        pre = (f"rewrite (zscore_literal _ _ _ {zl}); [ | interval | field]. "
               f"unfold ei_kernel, Phi, phi. integral with (i_prec {prec}, i_relwidth {relw}, i_degree 20)")
    args = f"{C.cR(fm)} {C.cR(fs)} {C.cR(fy)}"
    v = C.frac(val)
    if kind == "call":
        tol = Fraction(1, 10 ** 9) * abs(v) + Fraction(1, 10 ** 60)
        stmt = f"Rabs (ei_spec {args} - {C.cR(v)}) <= {C.cR(tol)}"
        tac = "unfold ei_spec. " + pre
    elif kind == "opt":
        tol = Fraction(1, 10 ** 9) * max(abs(v), 1)
        stmt = f"Rabs (- ln (ei_spec {args}) - {C.cR(v)}) <= {C.cR(tol)}"
        tac = "unfold ei_spec. " + pre
    else:
        # gradient component: tolerance scaled by the two terms of the formula
        A = Phi / (float(fs) * h)
        B = 0.5 * phi / (float(fs) ** 2 * h)
        scale = abs(float(dmu)) * A + abs(float(dvar)) * B
        tol = Fraction(1, 10 ** 9) * C.frac(scale) + Fraction(1, 10 ** 60)
        stmt = (f"Rabs (- ln_ei_grad_spec {args} {C.cR(dmu)} {C.cR(dvar)} - {C.cR(v)}) <= {C.cR(tol)}")
        tac = "unfold ln_ei_grad_spec, ei_spec. cbv zeta. " + pre
    return (gid, stmt, tac)


def definition_goal(gid, mu, sig, ymax, val):
    """E max(f - ymax, 0) under N(mu, sig^2), truncated 9 sigma above max(mu, ymax)
    (the neglected mass is < 1e-14 of the value), enclosed by `integral`."""
    fm, fs, fy = C.frac(mu), C.frac(sig), C.frac(ymax)
    up = max(fm, fy) + 9 * fs
    v = C.frac(val)
    tol = Fraction(1, 10 ** 7) * abs(v)
    stmt = (f"Rabs (RInt (fun t => (t - {C.cR(fy)}) * (phi ((t - {C.cR(fm)}) / {C.cR(fs)}) / {C.cR(fs)})) "
            f"{C.cR(fy)} {C.cR(up)} - {C.cR(v)}) <= {C.cR(tol)}")
    return (gid, stmt, "unfold phi. integral with (i_prec 64, i_relwidth 34)")


def definition_quad(mu, sig, ymax):
    from scipy.integrate import quad
    lo = ymax
    up = max(mu, ymax) + 12 * sig
    f = lambda t: (t - ymax) * math.exp(-0.5 * ((t - mu) / sig) ** 2) / (sig * math.sqrt(2 * math.pi))
    v, err = quad(f, lo, up, epsabs=0, epsrel=1e-11, limit=400)
    return v


def simple_goal(gid, model, val, scale):
    v = C.frac(val)
    tol = Fraction(1, 10 ** 12) * C.frac(scale) + Fraction(1, 10 ** 200)
    return (gid, f"Rabs ({model} - {C.cR(v)}) <= {C.cR(tol)}", "unfold ucb_call, ucb_opt_func, ucb_opt_grad, ucb_kappa, mv_call, mv_opt_func, mv_opt_grad. interval with (i_prec 120)")


def acquisition_points(rep, tier, scaled=None):
    """Runs the implementation; returns (records, goals)."""
    _, _, EI, UCB, MV = impl()
    r = C.rng_for(PROP, "acq")
    recs, goals = [], []
    n_gp = 1 if tier == "quick" else 3
    zi = 0
    ki = r.randrange(len(KAPPA_ARGS))       # every way of passing kappa comes round in every run
    for d in (1, 2, 3):
        for g in range(n_gp):
            gp, X, Y, theta = fit_gp(r, d, seed=C.seed() * 1000 + 10 * d + g)
            ei, mv = EI(), MV()
            for a in (ei, mv):
                a.update_gp(gp)
            natural_max = float(ei.mu_max)
            n_q = (len(Z_TARGETS) // (3 * n_gp) + 1) if tier == "quick" else len(Z_TARGETS)
            n_nat = 1 if tier == "quick" else 4
            for q in range(n_q + n_nat + 1):
                if q == n_q + n_nat:
                    # the incumbent is exactly 0.0 (a falsy value): the point with the z nearest 0
                    cands = [np.array([r.uniform(-2.5, 2.5) for _ in range(d)]) for _ in range(8)]
                    def _absz(c):
                        m_, s_ = gp(c)
                        return abs(float(m_[0])) / float(s_[0]) if float(s_[0]) > 1e-6 else 1e300
                    x = min(cands, key=_absz)
                    if not (_absz(x) <= 7.5):
                        rep.count("EI incumbent=zero skipped (|mu/sigma| > 7.5)")
                        continue
                else:
                    x = np.array([r.uniform(-2.5, 2.5) for _ in range(d)])
                mu_a, sig_a = gp(x)
                mu, sig = float(mu_a[0]), float(sig_a[0])
                if not (sig > 1e-6):
                    continue
                # UpperConfidenceBound: one way of passing kappa per query point
                kkind, kval = KAPPA_ARGS[ki % len(KAPPA_ARGS)]
                ki += 1
                kappa = kappa_expected(kkind, kval)
                try:
                    ucb = make_ucb(kkind, kval)
                    ucb.update_gp(gp)
                except Exception as e:
                    ucb = e
                dmu_a, dvar_a = gp.spatial_derivatives(x)
                dmu = np.atleast_1d(np.asarray(dmu_a, dtype=float))
                dvar = np.atleast_1d(np.asarray(dvar_a, dtype=float))
                base = {"d": d, "x": x.tolist(), "train_x": X.tolist(), "train_y": Y.tolist(),
                        "theta": theta.tolist(), "mu": mu, "sig": sig,
                        "dmu": dmu.tolist(), "dvar": dvar.tolist()}
                # ---- EI: natural incumbent if its z is within reach, else steered
                if q == n_q + n_nat:
                    ymax = 0.0
                    steer = "zero"
                elif q >= n_q:
                    ymax = natural_max
                    znat = (mu - ymax) / sig
                    steer = "natural"
                    if not (-8.0 <= znat <= 8.0):
                        ymax = mu - r.uniform(-6, 2) * sig
                        steer = "natural-out-of-reach->steered"
                else:
                    zt = Z_TARGETS[zi % len(Z_TARGETS)]
                    zi += 1
                    ymax = mu - zt * sig
                    steer = "steered"
                ei.mu_max = ymax
                Zc = (mu - ymax) / sig        # as the code computes it (coverage report only)
                try:
                    with warnings.catch_warnings():
                        warnings.simplefilter("ignore")
                        v_call = float(ei(x))
                        v_opt = float(ei.opt_func(x))
                        fv, fg = ei.opt_func_gradient(x)
                        fv = float(fv)
                        fg = np.atleast_1d(np.asarray(fg, dtype=float))
                    rec = dict(base, acq="EI", ymax=ymax, z=Zc, steer=steer, call=v_call, opt=v_opt,
                               optg_val=fv, grad=fg.tolist())
                except Exception as e:
                    rec = dict(base, acq="EI", ymax=ymax, z=Zc, error=repr(e))
                k = len(recs)
                recs.append(rec)
                rep.count("EI branch=" + ("tail" if Zc < -3 else "ordinary"))
                rep.count(f"EI z-bin={max(-8, min(8, int(math.floor(Zc))))}")
                rep.count("EI incumbent=" + steer)
                rep.count(f"d={d}")
                rep.case(("EI", x.tolist(), ymax, theta.tolist()))
                if "error" not in rec:
                    finite = all(map(math.isfinite, [v_call, v_opt, fv] + fg.tolist()))
                    if not finite or fg.shape != (d,):
                        rec["error"] = f"non-finite or mis-shaped output {v_call, v_opt, fv, fg}"
                    else:
                        goals.append(ei_goal("call", f"{k}_call", mu, sig, ymax, v_call))
                        goals.append(ei_goal("opt", f"{k}_opt", mu, sig, ymax, v_opt))
                        goals.append(ei_goal("opt", f"{k}_optg", mu, sig, ymax, fv))
                        for c in range(d):
                            goals.append(ei_goal("grad", f"{k}_grad{c}", mu, sig, ymax, fg[c],
                                                 dmu[c], dvar[c]))
                # ---- UCB and MaxVariance at the same point
                for name, a in (("UCB", ucb), ("MV", mv)):
                    try:
                        if isinstance(a, Exception):
                            raise a
                        v_call = float(a(x))
                        v_opt = float(a.opt_func(x))
                        fv, fg = a.opt_func_gradient(x)
                        fv = float(np.asarray(fv).reshape(-1)[0]) if np.asarray(fv).size == 1 else None
                        fg = np.atleast_1d(np.asarray(fg, dtype=float))
                        rec = dict(base, acq=name, kappa=kappa, kappa_kind=kkind, kappa_arg=kval,
                                   call=v_call, opt=v_opt, optg_val=fv, grad=fg.tolist())
                    except Exception as e:
                        rec = dict(base, acq=name, kappa=kappa, kappa_kind=kkind, kappa_arg=kval,
                                   error=repr(e))
                    k = len(recs)
                    recs.append(rec)
                    rep.case((name, x.tolist(), kkind, kval, theta.tolist()))
                    if name == "UCB":
                        rep.count(f"UCB kappa={kkind}:{kval}")
                    if "error" in rec:
                        continue
                    if fv is None or fg.shape != (d,) or not all(map(math.isfinite, [v_call, v_opt, fv] + fg.tolist())):
                        rec["error"] = "non-finite or mis-shaped output"
                        continue
                    m, s, kq = C.cR(mu), C.cR(sig), kappa_model(kkind, kval)
                    if name == "UCB":
                        sc = abs(mu) + abs(kappa * sig)
                        goals.append(simple_goal(f"{k}_call", f"ucb_call {kq} {m} {s}", v_call, sc))
                        goals.append(simple_goal(f"{k}_opt", f"ucb_opt_func {kq} {m} {s}", v_opt, sc))
                        goals.append(simple_goal(f"{k}_optg", f"ucb_opt_func {kq} {m} {s}", fv, sc))
                        for c in range(d):
                            sc2 = abs(dmu[c]) + abs(0.5 * kappa * dvar[c] / sig)
                            goals.append(simple_goal(f"{k}_grad{c}",
                                                     f"ucb_opt_grad {kq} {s} {C.cR(dmu[c])} {C.cR(dvar[c])}",
                                                     fg[c], sc2))
                    else:
                        sc = sig * sig
                        goals.append(simple_goal(f"{k}_call", f"mv_call {s}", v_call, sc))
                        goals.append(simple_goal(f"{k}_opt", f"mv_opt_func {s}", v_opt, sc))
                        goals.append(simple_goal(f"{k}_optg", f"mv_opt_func {s}", fv, sc))
                        for c in range(d):
                            goals.append(simple_goal(f"{k}_grad{c}", f"mv_opt_grad {C.cR(dvar[c])}",
                                                     fg[c], abs(dvar[c])))
    if scaled is not None:
        scaled_points(rep, tier, recs, goals, scaled)
    return recs, goals


# ---- the same objective in other UNITS: y-values of order 1e-11 .. 1e6 -------------------
# (Properties/C18Scale.v: C18_units_covariance -- the formulas hold at every scale alike;
# C18_sigma_floor_refuted -- an absolute floor / tolerance on sigma does not).  Every run has
# at least one regressor whose predictive sigma is far below 1e-9, one in between and one
# with sigma far above 1.
Y_SCALES_TINY = [1e-11, 1e-10, 3e-10]
Y_SCALES_SMALL = [1e-8, 1e-6, 1e-4]
Y_SCALES_LARGE = [1e3, 1e6]
Z_SCALED_TAIL = [-5.0, -4.0, -3.5, -3.0 - 1e-7]
Z_SCALED_ORD = [-3.0 + 1e-7, -2.5, -1.0, 0.0, 0.5, 2.0]


def _fit_theta(job):
    """Pool worker: hyper-parameters of a GpRegressor fitted to (x, y)."""
    x, y, seed, optimizer = job
    try:
        _, GpRegressor, *_ = impl()
        np.random.seed(seed)
        with warnings.catch_warnings():
            warnings.simplefilter("ignore")
            gp0 = GpRegressor(np.array(x), np.array(y), optimizer=optimizer)
        return {"theta": np.array(gp0.hyperpars, dtype=float).tolist()}
    except Exception as e:
        return {"error": repr(e)}


def scaled_setup(tier, pool):
    """The regressors of scaled_points: data generated here, the hyper-parameter fits run in the
    pool while the other points are evaluated."""
    r = C.rng_for(PROP, "acq-scale")
    if tier == "quick":
        plan = [(r.choice(Y_SCALES_TINY), r.choice([1, 2])), (r.choice(Y_SCALES_SMALL), r.choice([1, 2, 3])),
                (r.choice(Y_SCALES_LARGE), r.choice([1, 2]))]
    else:
        allsc = Y_SCALES_TINY + Y_SCALES_SMALL + Y_SCALES_LARGE
        plan = [(s_, 1 + (i + k) % 3) for i, s_ in enumerate(allsc) for k in (0, 1)]
    jobs = []
    for g, (scale, d) in enumerate(plan):
        n = r.randint(4, 7)
        x = [[r.uniform(-2, 2) for _ in range(d)] for _ in range(n)]
        w = [r.uniform(0.5, 1.5) for _ in range(d)]
        y = [scale * (math.sin(sum(wi * xi for wi, xi in zip(w, row))) + 0.3 * row[0]) for row in x]
        fut = pool.submit(_fit_theta, (x, y, C.seed() * 1000 + 500 + g, r.choice(["diffev", "bfgs"])))
        jobs.append((scale, d, x, y, fut))
    return {"r": r, "jobs": jobs, "n_pts": 2 if tier == "quick" else 3}


def scaled_points(rep, tier, recs, goals, setup):
    """EI / UCB / MaxVariance on regressors fitted to y-values of order `scale`; the goals are
    the same statements as at scale 1 (relative tolerances; no constant in them has the
    dimension of y)."""
    _, GpRegressor, EI, UCB, MV = impl()
    r, n_pts = setup["r"], setup["n_pts"]
    ki = r.randrange(len(KAPPA_ARGS))
    for g, (scale, d, xl, yl, fut) in enumerate(setup["jobs"]):
        fit = fut.result()
        X, Y = np.array(xl), np.array(yl)
        try:
            if "error" in fit:
                raise RuntimeError(fit["error"])
            theta = np.array(fit["theta"], dtype=float)
            with warnings.catch_warnings():
                warnings.simplefilter("ignore")
                gp = GpRegressor(X, Y, hyperpars=theta)
        except Exception as e:
            recs.append({"acq": "EI", "d": d, "yscale": scale, "error": "GpRegressor could not be fitted to y-values "
                         f"of order {scale:g}: {e!r}", "x": [], "train_x": X.tolist(), "train_y": Y.tolist(), "theta": []})
            continue
        ei, mv = EI(), MV()
        for a in (ei, mv):
            a.update_gp(gp)
        natural_max = float(ei.mu_max)
        rep.count(f"scaled regressor y-scale={scale:g} d={d}")
        done = 0
        for attempt in range(4 * n_pts):
            if done >= n_pts:
                break
            x = np.array([r.uniform(-2.5, 2.5) for _ in range(d)])
            mu_a, sig_a = gp(x)
            mu, sig = float(mu_a[0]), float(sig_a[0])
            if not (sig > 1e-6 * scale):
                continue
            kkind, kval = KAPPA_ARGS[ki % len(KAPPA_ARGS)]
            ki += 1
            kappa = kappa_expected(kkind, kval)
            ucb = make_ucb(kkind, kval)
            ucb.update_gp(gp)
            dmu_a, dvar_a = gp.spatial_derivatives(x)
            dmu = np.atleast_1d(np.asarray(dmu_a, dtype=float))
            dvar = np.atleast_1d(np.asarray(dvar_a, dtype=float))
            base = {"d": d, "x": x.tolist(), "train_x": X.tolist(), "train_y": Y.tolist(),
                    "theta": theta.tolist(), "mu": mu, "sig": sig, "yscale": scale,
                    "dmu": dmu.tolist(), "dvar": dvar.tolist()}
            # incumbent: tail target, ordinary target, then the natural one (steered into reach)
            if done % 3 == 0:
                zt, steer = r.choice(Z_SCALED_TAIL), "steered"
                ymax = mu - zt * sig
            elif done % 3 == 1:
                zt, steer = r.choice(Z_SCALED_ORD), "steered"
                ymax = mu - zt * sig
            else:
                ymax, steer = natural_max, "natural"
                if not (-6.0 <= (mu - ymax) / sig <= 6.0):
                    ymax, steer = mu - r.uniform(-4, 2) * sig, "natural-out-of-reach->steered"
            done += 1
            ei.mu_max = ymax
            Zc = (mu - ymax) / sig
            try:
                with warnings.catch_warnings():
                    warnings.simplefilter("ignore")
                    v_call = float(ei(x))
                    v_opt = float(ei.opt_func(x))
                    fv, fg = ei.opt_func_gradient(x)
                    fv = float(fv)
                    fg = np.atleast_1d(np.asarray(fg, dtype=float))
                rec = dict(base, acq="EI", ymax=ymax, z=Zc, steer=steer, call=v_call, opt=v_opt,
                           optg_val=fv, grad=fg.tolist())
            except Exception as e:
                rec = dict(base, acq="EI", ymax=ymax, z=Zc, error=repr(e))
            k = len(recs)
            recs.append(rec)
            rep.count("EI branch=" + ("tail" if Zc < -3 else "ordinary") + " (scaled)")
            rep.count(f"EI y-scale={scale:g}")
            rep.count("EI sigma<1e-9" if sig < 1e-9 else ("EI sigma>1" if sig > 1 else "EI sigma in [1e-9,1]"))
            rep.case(("EI", x.tolist(), ymax, theta.tolist(), scale))
            if "error" not in rec:
                if not all(map(math.isfinite, [v_call, v_opt, fv] + fg.tolist())) or fg.shape != (d,):
                    rec["error"] = f"non-finite or mis-shaped output {v_call, v_opt, fv, fg}"
                else:
                    goals.append(ei_goal("call", f"{k}_call", mu, sig, ymax, v_call))
                    goals.append(ei_goal("opt", f"{k}_opt", mu, sig, ymax, v_opt))
                    goals.append(ei_goal("opt", f"{k}_optg", mu, sig, ymax, fv))
                    for c in range(d):
                        goals.append(ei_goal("grad", f"{k}_grad{c}", mu, sig, ymax, fg[c], dmu[c], dvar[c]))
                    if done == 1:
                        rec["want_definition"] = True      # the goal is made in run()
            for name, a in (("UCB", ucb), ("MV", mv)):
                try:
                    v_call = float(a(x))
                    v_opt = float(a.opt_func(x))
                    fv, fg = a.opt_func_gradient(x)
                    fv = float(np.asarray(fv).reshape(-1)[0]) if np.asarray(fv).size == 1 else None
                    fg = np.atleast_1d(np.asarray(fg, dtype=float))
                    rec = dict(base, acq=name, kappa=kappa, kappa_kind=kkind, kappa_arg=kval,
                               call=v_call, opt=v_opt, optg_val=fv, grad=fg.tolist())
                except Exception as e:
                    rec = dict(base, acq=name, kappa=kappa, kappa_kind=kkind, kappa_arg=kval, error=repr(e))
                k = len(recs)
                recs.append(rec)
                rep.case((name, x.tolist(), kkind, kval, theta.tolist(), scale))
                if "error" in rec:
                    continue
                if fv is None or fg.shape != (d,) or not all(map(math.isfinite, [v_call, v_opt, fv] + fg.tolist())):
                    rec["error"] = "non-finite or mis-shaped output"
                    continue
                m, s, kq = C.cR(mu), C.cR(sig), kappa_model(kkind, kval)
                if name == "UCB":
                    sc = abs(mu) + abs(kappa * sig)
                    goals.append(simple_goal(f"{k}_call", f"ucb_call {kq} {m} {s}", v_call, sc))
                    goals.append(simple_goal(f"{k}_opt", f"ucb_opt_func {kq} {m} {s}", v_opt, sc))
                    goals.append(simple_goal(f"{k}_optg", f"ucb_opt_func {kq} {m} {s}", fv, sc))
                    for c in range(d):
                        sc2 = abs(dmu[c]) + abs(0.5 * kappa * dvar[c] / sig)
                        goals.append(simple_goal(f"{k}_grad{c}",
                                                 f"ucb_opt_grad {kq} {s} {C.cR(dmu[c])} {C.cR(dvar[c])}", fg[c], sc2))
                else:
                    goals.append(simple_goal(f"{k}_call", f"mv_call {s}", v_call, sig * sig))
                    goals.append(simple_goal(f"{k}_opt", f"mv_opt_func {s}", v_opt, sig * sig))
                    goals.append(simple_goal(f"{k}_optg", f"mv_opt_func {s}", fv, sig * sig))
                    for c in range(d):
                        goals.append(simple_goal(f"{k}_grad{c}", f"mv_opt_grad {C.cR(dvar[c])}", fg[c], abs(dvar[c])))


def rebuild_acq(rec):
    """Re-create the regressor and acquisition object of a record (replay / oracle)."""
    _, GpRegressor, EI, UCB, MV = impl()
    gp = GpRegressor(np.array(rec["train_x"]), np.array(rec["train_y"]),
                     hyperpars=np.array(rec["theta"]))
    if rec["acq"] == "EI":
        a = EI()
        a.update_gp(gp)
        a.mu_max = rec["ymax"]
    elif rec["acq"] == "UCB":
        a = make_ucb(rec.get("kappa_kind", "float"), rec.get("kappa_arg", rec["kappa"]))
        a.update_gp(gp)
    else:
        a = MV()
        a.update_gp(gp)
    return gp, a


def acq_oracle(rec):
    """The property itself on the implementation, independent of the Coq model:
    value against the definition, gradient against central differences."""
    bad = []
    if "error" in rec:
        return [f"{rec['acq']} failed on a valid input: {rec['error']}"]
    gp, a = rebuild_acq(rec)
    x = np.array(rec["x"])
    mu_a, sig_a = gp(x)
    mu, sig = float(mu_a[0]), float(sig_a[0])
    with warnings.catch_warnings():
        warnings.simplefilter("ignore")
        v = float(a(x))
        o = float(a.opt_func(x))
        fv, fg = a.opt_func_gradient(x)
    fv = float(np.asarray(fv).reshape(-1)[0])
    fg = np.atleast_1d(np.asarray(fg, dtype=float))
    ysc0 = float(rec.get("yscale", 1.0))
    if rec["acq"] == "EI":
        ref = definition_quad(mu, sig, rec["ymax"])
        if not (abs(v - ref) <= 1e-6 * abs(ref)):
            bad.append(f"EI(x) = {v!r} but E max(f - ymax, 0) = {ref!r} (z = {(mu - rec['ymax']) / sig:.6g}, "
                       f"mu = {mu!r}, sigma = {sig!r}, ymax = {rec['ymax']!r}"
                       + (f", y-values of order {ysc0:g}" if ysc0 != 1.0 else "") + ")")
        if ref > 0 and not (abs(o + math.log(ref)) <= 1e-6 * max(1, abs(o))):
            bad.append(f"opt_func(x) = {o!r} but -ln E max(f - ymax, 0) = {-math.log(ref)!r}")
    elif rec["acq"] == "UCB":
        ref = mu + rec["kappa"] * sig
        if not (abs(v - ref) <= 1e-9 * (abs(mu) + abs(rec["kappa"] * sig))):
            bad.append(f"UCB(x) = {v!r} but mu + kappa sigma = {ref!r} (UpperConfidenceBound built with "
                       f"kappa {rec.get('kappa_kind', 'float')}:{rec.get('kappa_arg', rec['kappa'])!r}, "
                       f"the object holds kappa = {getattr(a, 'kappa', None)!r})")
        if not (abs(o + ref) <= 1e-9 * (abs(mu) + abs(rec["kappa"] * sig))):
            bad.append(f"UCB opt_func(x) = {o!r} but -(mu + kappa sigma) = {-ref!r}")
    else:
        if not (abs(v - sig * sig) <= 1e-9 * sig * sig):
            bad.append(f"MaxVariance(x) = {v!r} but sigma^2 = {sig * sig!r}")
        if not (abs(o + sig * sig) <= 1e-9 * sig * sig):
            bad.append(f"MaxVariance opt_func(x) = {o!r} but -sigma^2 = {-sig * sig!r}")
    # the unit of the objective: ln EI is dimensionless, UCB has the unit of y, MaxVariance y^2
    ysc = float(rec.get("yscale", 1.0))
    unit = 1.0 if rec["acq"] == "EI" else (ysc if rec["acq"] == "UCB" else ysc * ysc)
    if not (abs(fv - o) <= 1e-9 * max(unit, abs(o))):
        bad.append(f"opt_func_gradient value {fv!r} differs from opt_func {o!r}")
    # central differences of the implementation's own objective
    d = len(x)
    for c in range(d):
        hs = 1e-5
        e = np.zeros(d)
        e[c] = hs
        with warnings.catch_warnings():
            warnings.simplefilter("ignore")
            cd = (float(a.opt_func(x + e)) - float(a.opt_func(x - e))) / (2 * hs)
            cd2 = (float(a.opt_func(x + e / 2)) - float(a.opt_func(x - e / 2))) / hs
        rich = (4 * cd2 - cd) / 3            # Richardson step; |cd - cd2| estimates the error
        if not (abs(rich - fg[c]) <= 1e-3 * abs(fg[c]) + 4 * abs(cd - cd2) + 1e-6 * (unit + np.abs(fg).max())):
            bad.append(f"gradient[{c}] = {fg[c]!r} but central differences of opt_func give {rich!r}")
    return bad


# ============================================================ (b) starting positions
class ScriptedRandom:
    """stands in for numpy.random.random inside inference.gp.acquisition"""

    def __init__(self, r):
        self.r, self.log = r, []

    def __call__(self, size=None):
        n = 1 if size is None else int(np.prod(size))
        mode = self.r.random()
        vals = []
        for _ in range(n):
            if mode < 0.2:
                v = Fraction(self.r.choice([0, 1, (1 << 20) - 1]), 1 << 20)   # extremes
            else:
                v = Fraction(self.r.randint(0, (1 << 20) - 1), 1 << 20)
            vals.append(v)
        self.log.append(vals)
        out = np.array([float(v) for v in vals])
        return out if size is not None else float(out[0])


def starts_cases(rep, tier):
    import inference.gp.acquisition as acqmod
    _, GpRegressor, EI, UCB, MV = impl()
    r = C.rng_for(PROP, "starts")
    cases, metas, pybad = [], [], []
    n_cases = 24 if tier == "quick" else 150
    c1, c2 = Fraction(0.01), Fraction(0.02)
    for k in range(n_cases):
        d = r.choice([1, 2, 3])
        bounds = []
        for _ in range(d):
            lo = Fraction(r.randint(-16, 8), 2)
            w = Fraction(r.randint(1, 32), 4)
            bounds.append((lo, lo + w))
        n = r.randint(3, 6)
        rows = []
        for i in range(n):
            kind = r.choice(["in", "in", "edge", "edge_shrunk", "out"])
            row = []
            for (lo, hi) in bounds:
                w = hi - lo
                if kind == "in":
                    row.append(lo + w * Fraction(r.randint(2, 62), 64))
                elif kind == "edge":
                    row.append(r.choice([lo, hi]))          # on the box edge: outside the shrunk box
                elif kind == "edge_shrunk":
                    # just inside the shrunk box, so the +-2% samples reach beyond it
                    row.append(r.choice([lo + w * Fraction(3, 256), hi - w * Fraction(3, 256)]))
                else:
                    row.append(r.choice([lo - w / 4, hi + w / 8]))
            rows.append(row)
        if len({tuple(rw) for rw in rows}) < n:
            continue
        X = np.array([[float(v) for v in row] for row in rows])
        Y = np.array([math.sin(float(sum(row))) for row in rows])
        with warnings.catch_warnings():
            warnings.simplefilter("ignore")
            gp = GpRegressor(X, Y, hyperpars=np.array([0.0, 0.0] + [0.5] * d))
        a = r.choice([EI, UCB, MV])()
        a.update_gp(gp)
        sr = ScriptedRandom(r)
        keylog = []
        orig = a.opt_func

        def key(s, _o=orig, _l=keylog):
            v = _o(s)
            _l.append((np.array(s, dtype=float).tolist(), float(v)))
            return v
        a.opt_func = key
        saved = acqmod.random
        acqmod.random = sr
        bl = [(float(lo), float(hi)) for lo, hi in bounds]
        try:
            with warnings.catch_warnings():
                warnings.simplefilter("ignore")
                starts = a.starting_positions(bl)
            starts = [np.asarray(s, dtype=float).tolist() for s in starts]
            err = None
        except Exception as e:
            starts, err = None, repr(e)
        finally:
            acqmod.random = saved
        meta = {"d": d, "bounds": [[str(lo), str(hi)] for lo, hi in bounds],
                "gp_x": [[str(v) for v in row] for row in rows], "acq": type(a).__name__,
                "script": [[str(v) for v in u] for u in sr.log], "starts": starts, "error": err}
        metas.append(meta)
        rep.case(("starts", meta["bounds"], meta["gp_x"], meta["script"]))
        rep.count("starts d=%d" % d)
        if err is not None or len(starts) != n:
            pybad.append((len(metas) - 1, f"starting_positions failed / wrong count: {err}"))
            cases.append(None)
            continue
        # [R] inside the box; the chosen local start is the first least-key candidate
        for s in starts:
            if not all(lo <= v <= hi for v, (lo, hi) in zip(s, bl)):
                pybad.append((len(metas) - 1, f"start {s} outside the bounds {bl}"))
        # which data points get a local search is decided by the shrunk box (the rule of the code and of
        # the model); the key calls are consumed in that order, 20 per local search
        lwr_s = np.array([lo_ + 0.01 * (hi_ - lo_) for lo_, hi_ in bl])
        upr_s = np.array([hi_ - 0.01 * (hi_ - lo_) for lo_, hi_ in bl])
        pos = 0
        for x0, s in zip(X, starts):
            if not bool(((x0 >= lwr_s) & (x0 <= upr_s)).all()):
                continue                      # a uniform draw: no key calls
            blk = keylog[pos:pos + 20]
            pos += 20
            if len(blk) == 20:
                best = min(range(20), key=lambda i: (blk[i][1], i))
                if blk[best][0] != s:
                    pybad.append((len(metas) - 1, "chosen start is not the least-opt_func candidate: chose "
                                  f"{s} (key {[v for c, v in blk if c == s][:2]}), least is {blk[best]}"))
        scale = max(max(abs(lo), abs(hi)) for lo, hi in bounds)
        tol = Fraction(1, 10 ** 12) * max(scale, 1)
        bs = C.clist([f"({C.cq(lo)}, {C.cq(hi)})" for lo, hi in bounds])
        xs = C.clist([C.clist([C.cq(v) for v in row]) for row in rows])
        sc = C.clist([C.clist([C.cq(v) for v in u]) for u in sr.log])
        ob = C.clist([C.clist([C.cq(v) for v in s]) for s in starts])
        cases.append(f"({C.cq(c1)}, {C.cq(c2)}, {C.cq(tol)}, {bs}, {xs}, {sc}, {ob})")
    return cases, metas, pybad


# ============================================================ (c) propose / add sequences
def _snap(a):
    if isinstance(a, np.ndarray):
        return ("nd", a.shape, str(a.dtype), a.tobytes())
    return ("py", repr(a))


def objective(p):
    v = np.atleast_1d(np.asarray(p, dtype=float)).reshape(-1)
    return round((math.sin(float(v.sum())) + 0.25 * float(v[0])) * 1024) / 1024


def run_sequence(cfg):
    """Child-process worker: one GpOptimiser life.  Returns plain data."""
    out = {"cfg": cfg, "events": [], "error": None}
    try:
        import random as _random
        GpOptimiser, _, EI, UCB, MV = impl()
        r = _random.Random(cfg["seed"])
        np.random.seed(cfg["seed"] % (2 ** 31))
        d = cfg["d"]
        n = 3 + d
        xdt = cfg.get("x_dtype", "float64")      # element type / container of the initial x-data
        ydt = cfg.get("y_dtype", "float64")
        ysc = float(cfg.get("y_scale", 1.0))     # unit of the objective
        typed = "x_dtype" in cfg
        if not typed:
            bounds = [(-2.0, 2.0 + 0.5 * i) for i in range(d)]
            rows = [[r.randint(-16, 16) / 8.0 for _ in range(d)] for _ in range(n)]
            while len({tuple(q) for q in rows}) < n:
                rows = [[r.randint(-16, 16) / 8.0 for _ in range(d)] for _ in range(n)]
            yv = [objective(q) for q in rows]
        else:
            # a grid of initial evaluations written without decimal points (integer kinds), or
            # float32 data; box [-8, 8 + i/2]
            bounds = [(-8.0, 8.0 + 0.5 * i) for i in range(d)]
            draw = (lambda: float(r.randint(-8, 8))) if xdt != "float32" else (lambda: r.randint(-64, 64) / 8.0)
            rows = [[draw() for _ in range(d)] for _ in range(n)]
            while len({tuple(q) for q in rows}) < n:
                rows = [[draw() for _ in range(d)] for _ in range(n)]
            if ydt in ("int64", "pyint"):
                yv = [float(round(4 * objective(q))) for q in rows]
            else:
                yv = [objective(q) * ysc for q in rows]
        ev = [r.choice([0.0625, 0.125, 0.25]) * ysc for _ in rows] if cfg["with_err"] else None
        if typed and xdt in ("int64", "int32", "int16", "float32"):
            irows = rows if xdt == "float32" else [[int(v) for v in q] for q in rows]
            x_in = np.array(irows, dtype=xdt)
            if cfg["x_kind"] == "nd1" and d == 1:
                x_in = x_in.reshape(-1).copy()
        elif typed and xdt == "pyint":
            x_in = [[int(v) for v in q] for q in rows] if d > 1 else [int(q[0]) for q in rows]
        elif typed and xdt == "pytuple":
            x_in = [tuple(int(v) for v in q) for q in rows]
        elif cfg["x_kind"] == "nd1" and d == 1:
            x_in = np.array([q[0] for q in rows])
        elif cfg["x_kind"] == "list":
            x_in = [list(q) for q in rows] if d > 1 else [q[0] for q in rows]
        else:
            x_in = np.array(rows)
        if typed and ydt == "int64":
            y_in = np.array([int(v) for v in yv])
        elif typed and ydt == "pyint":
            y_in = [int(v) for v in yv]
        elif typed and ydt == "float32":
            y_in = np.array(yv, dtype=np.float32)
        else:
            y_in = np.array(yv) if cfg["y_kind"] == "nd" else list(yv)
        e_in = None if ev is None else (np.array(ev) if cfg["y_kind"] == "nd" else list(ev))
        acq = {"EI": EI, "UCB": UCB, "MV": MV}[cfg["acq"]]
        out["init"] = {"x": rows, "y": yv, "yerr": ev, "bounds": bounds,
                       "x_dtype": np.asarray(x_in).dtype.name, "y_dtype": np.asarray(y_in).dtype.name,
                       "yerr_dtype": None if e_in is None else np.asarray(e_in).dtype.name}
        # the search bounds are one of the arrays the caller passes in: as a float ndarray
        # (n_dims, 2) when the data are arrays, as a list of tuples otherwise
        bounds_in = np.array(bounds, dtype=float) if cfg["y_kind"] == "nd" else list(bounds)
        bounds_snap = _snap(bounds_in)
        before = [_snap(x_in), _snap(y_in), _snap(e_in)]
        with warnings.catch_warnings():
            warnings.simplefilter("ignore")
            G = GpOptimiser(x_in, y_in, bounds=bounds_in, y_err=e_in, acquisition=acq,
                            optimizer=cfg["optimizer"])
        after = [_snap(x_in), _snap(y_in), _snap(e_in)]
        out["init_changed"] = [nm for nm, b, a in zip(("x", "y", "y_err"), before, after) if a != b]
        out["init_shapes"] = [str(b[1:3]) + " -> " + str(a[1:3]) for b, a in zip(before, after) if a != b]
        last_prop = None
        n_added = 0
        for op in cfg["ops"]:
            if op == "P":
                with warnings.catch_warnings():
                    warnings.simplefilter("ignore")
                    p = G.propose_evaluation()
                pv = np.atleast_1d(np.asarray(p, dtype=float)).reshape(-1).tolist()
                inb = len(pv) == d and all(lo <= v <= hi for v, (lo, hi) in zip(pv, bounds))
                out["events"].append({"op": "P", "proposal": pv, "in_bounds": inb,
                                      "type": type(p).__name__, "shape": getattr(p, "shape", None),
                                      "bounds_changed": _snap(bounds_in) != bounds_snap,
                                      "bounds_now": np.asarray(bounds_in, dtype=float).tolist()})
                last_prop = p
            else:
                kind = cfg["newx_kind"]
                if isinstance(kind, list):            # one kind per addition
                    kind = kind[n_added % len(kind)]
                n_added += 1
                if last_prop is not None and kind == "proposal":
                    nx = last_prop
                    pt = np.atleast_1d(np.asarray(nx, dtype=float)).reshape(-1).tolist()
                elif typed:
                    taken = {tuple(q) for q in np.asarray(G.x, dtype=float).reshape(len(G.y), -1).tolist()}
                    if kind in ("pyint", "i64"):
                        mk = lambda: [float(r.randint(-7, 7)) for _ in range(d)]
                    elif kind == "f32":
                        mk = lambda: [r.randint(-60, 60) / 8.0 + 1 / 64 for _ in range(d)]
                    else:
                        mk = lambda: [r.uniform(-7.5, 7.5) for _ in range(d)]      # any double
                    pt = mk()
                    for _ in range(50):
                        if tuple(pt) not in taken:
                            break
                        pt = mk()
                    if tuple(pt) in taken:
                        pt = [v + 1 / 64 for v in pt]
                        kind = "nd"
                    if kind == "pyint":
                        nx = [int(v) for v in pt] if d > 1 else int(pt[0])
                    elif kind == "i64":
                        nx = np.array([int(v) for v in pt])
                    elif kind == "f32":
                        nx = np.array(pt, dtype=np.float32)
                    elif kind == "tuple":
                        nx = tuple(pt)
                    elif kind == "npscalar":
                        nx = np.float64(pt[0]) if d == 1 else np.array(pt)
                    elif kind == "view":
                        holder = np.array([pt, pt])
                        nx = holder[0]
                    elif kind == "list":
                        nx = list(pt) if d > 1 else pt[0]
                    elif kind == "row":
                        nx = np.array([pt])
                    else:
                        nx = np.array(pt)
                else:
                    pt = [r.randint(-15, 15) / 8.0 + 1 / 64 for _ in range(d)]
                    if kind == "view":
                        holder = np.array([pt, pt])
                        nx = holder[0]
                    elif kind == "list":
                        nx = list(pt) if d > 1 else pt[0]
                    elif kind == "row":
                        nx = np.array([pt])
                    else:
                        nx = np.array(pt)
                last_prop = None
                ykind = cfg.get("newy_kind")
                if isinstance(ykind, list):
                    ykind = ykind[(n_added - 1) % len(ykind)]
                if ykind == "pyint" and ysc == 1.0:
                    ny = float(round(4 * objective(pt)))
                else:
                    ny = objective(pt) * ysc
                # the error of the new point is sometimes exactly 0.0 (valid, and falsy)
                ne = (0.0 if r.random() < 0.25 else 0.125 * ysc) if cfg["with_err"] else None
                if ykind == "pyint" and ysc == 1.0:
                    ny_in = int(ny)
                elif ykind == "f32" and ysc == 1.0:
                    ny_in = np.float32(ny)
                elif ykind == "pyfloat":
                    ny_in = ny
                else:
                    ny_in = np.array(ny) if cfg["y_kind"] == "nd" else ny
                ne_in = None if ne is None else (np.array(ne) if cfg["y_kind"] == "nd" else ne)
                held = [G.x, G.y, G.y_err]           # the optimiser's previous arrays
                before = [_snap(nx), _snap(ny_in), _snap(ne_in), _snap(x_in), _snap(y_in), _snap(e_in)]
                evn = {"op": "A", "new_x": pt, "new_y": ny, "new_err": ne, "kind": kind,
                       "new_x_dtype": np.asarray(nx).dtype.name, "new_y_dtype": np.asarray(ny_in).dtype.name,
                       "new_err_dtype": None if ne_in is None else np.asarray(ne_in).dtype.name,
                       "data_dtype": np.asarray(G.x).dtype.name}
                try:
                    with warnings.catch_warnings():
                        warnings.simplefilter("ignore")
                        G.add_evaluation(nx, ny_in, ne_in)
                except Exception as e:
                    evn["exception"] = repr(e)
                    out["events"].append(evn)
                    break
                after = [_snap(nx), _snap(ny_in), _snap(ne_in), _snap(x_in), _snap(y_in), _snap(e_in)]
                names = ("new_x", "new_y", "new_y_err", "x", "y", "y_err")
                evn["changed"] = [nm + ": " + str(b[1:3]) + " -> " + str(a[1:3])
                                  for nm, b, a in zip(names, before, after) if a != b]
                gx = np.asarray(G.gp.x, dtype=float)
                evn["gp_matches"] = bool(gx.shape == np.asarray(G.x).shape and np.array_equal(gx, G.x)
                                         and np.array_equal(np.asarray(G.gp.y, dtype=float), G.y))
                evn["mu_max"] = float(G.acquisition.mu_max)
                evn["opt_mu_max"] = float(G.mu_max)
                # the evaluation as it is now stored / as the next model was fitted to it
                evn["stored_x"] = np.asarray(G.x, dtype=float).reshape(len(G.y), -1)[-1].tolist()
                evn["stored_y"] = float(np.asarray(G.y, dtype=float)[-1])
                evn["fitted_x"] = np.asarray(G.gp.x, dtype=float).reshape(len(G.gp.y), -1)[-1].tolist()
                evn["fitted_y"] = float(np.asarray(G.gp.y, dtype=float)[-1])
                evn["state"] = {"x": np.asarray(G.x, dtype=float).reshape(len(G.y), -1).tolist(),
                                "x_shape": list(np.asarray(G.x).shape),
                                "y": np.asarray(G.y, dtype=float).tolist(),
                                "yerr": None if G.y_err is None else np.asarray(G.y_err, dtype=float).tolist(),
                                "mu_max": float(G.acquisition.mu_max),
                                "x_dtype": np.asarray(G.x).dtype.name, "y_dtype": np.asarray(G.y).dtype.name,
                                "yerr_dtype": None if G.y_err is None else np.asarray(G.y_err).dtype.name}
                out["events"].append(evn)
        out["final"] = {"x": np.asarray(G.x, dtype=float).reshape(len(G.y), -1).tolist(),
                        "x_shape": list(np.asarray(G.x).shape),
                        "y": np.asarray(G.y, dtype=float).tolist(),
                        "yerr": None if G.y_err is None else np.asarray(G.y_err, dtype=float).tolist(),
                        "mu_max": float(G.acquisition.mu_max)}
    except Exception as e:
        out["error"] = repr(e) + "\n" + traceback.format_exc()[-1500:]
    return out


def all_sequences(max_len=4):
    """The words of length max_len over {P, A}.  Every word of length <= max_len is a prefix
    of one of them, and the checks are made after every operation, so running these covers
    every propose/add sequence of length <= max_len."""
    n = max_len
    return ["".join("PA"[(m >> i) & 1] for i in range(n)) for m in range(2 ** n)]


def sequence_configs(tier):
    r = C.rng_for(PROP, "seq")
    cfgs = []
    reps = 1 if tier == "quick" else 3
    for rep_i in range(reps):
        for optimizer in ("bfgs", "diffev"):
            for ops in all_sequences(4):
                d = r.choice([1, 1, 2, 3]) if optimizer == "bfgs" else r.choice([1, 2, 2, 3])
                cfgs.append({"ops": ops, "optimizer": optimizer, "d": d,
                             "acq": r.choice(["EI", "EI", "UCB", "MV"]),
                             "with_err": r.random() < 0.35,
                             "x_kind": r.choice(["nd1", "nd2", "list"]) if d == 1 else r.choice(["nd2", "nd2", "list"]),
                             "y_kind": r.choice(["nd", "nd", "list"]),
                             "newx_kind": r.choice(["proposal", "proposal", "nd", "view", "list", "row"]),
                             "seed": r.randint(1, 10 ** 9)})
    return cfgs


X_DTYPES = ["int64", "pyint", "float32", "int32", "pytuple", "int16"]
NEWX_FLOATY = ["nd", "list", "tuple", "npscalar", "view", "row", "proposal"]
NEWX_ALL = NEWX_FLOATY + ["f32", "pyint", "i64", "nd", "proposal"]
SEQ_Y_SCALES = [1.0, 1e-11, 1.0, 1e-8, 1e3, 1.0, 1e-4, 1e6]


def dtype_sequence_configs(tier):
    """Lives of one optimiser whose initial data arrive as integer arrays (int64 / int32 / int16),
    lists / tuples of Python ints or float32 arrays, the evaluations added as float64 arrays,
    Python floats, tuples, numpy scalars, float32 arrays, Python ints, int64 arrays or the object
    propose_evaluation returned; y as float64 (also in other units), integer or float32.  Own
    random stream: the configurations of sequence_configs are what they were."""
    r = C.rng_for(PROP, "seq-dtype")
    words = [w for w in all_sequences(4) if w.count("A") >= 2]
    n = 12 if tier == "quick" else 48
    rot, rot2 = r.randrange(len(X_DTYPES)), r.randrange(len(SEQ_Y_SCALES))
    cfgs = []
    for i in range(n):
        xdt = X_DTYPES[(i + rot) % len(X_DTYPES)]
        d = r.choice([1, 1, 2, 3])
        ydt = r.choice(["float64", "float64", "float64", "int64", "pyint", "float32"])
        ysc = SEQ_Y_SCALES[(i + rot2) % len(SEQ_Y_SCALES)] if ydt == "float64" else 1.0
        kinds = [r.choice(NEWX_FLOATY)] + [r.choice(NEWX_ALL) for _ in range(3)]
        cfgs.append({"ops": r.choice(words), "optimizer": ("bfgs", "diffev")[i % 2], "d": d,
                     "acq": r.choice(["EI", "EI", "UCB", "MV"]), "with_err": r.random() < 0.3,
                     "x_kind": r.choice(["nd1", "nd2"]), "y_kind": r.choice(["nd", "nd", "list"]),
                     "x_dtype": xdt, "y_dtype": ydt, "y_scale": ysc, "newx_kind": kinds,
                     "newy_kind": [r.choice(["pyfloat", "nd", "pyint", "f32"]) for _ in range(4)],
                     "seed": r.randint(1, 10 ** 9)})
    return cfgs


DT_COQ = {"int16": "I16", "int32": "I32", "int64": "I64", "float32": "F32", "float64": "F64"}


def typed_case_texts(res):
    """one Model.OptimiserTyped case per prefix ending in an addition: the element types of the
    initial arrays and of every part of every added evaluation as numpy sees the caller's
    objects, the dtypes and the data observed afterwards.  None if a dtype is outside the model."""
    ini = res["init"]
    evs = res["events"]
    names = [ini["x_dtype"], ini["y_dtype"]] + ([ini["yerr_dtype"]] if ini["yerr"] is not None else [])
    for evn in evs:
        if evn["op"] == "A":
            names += [evn["new_x_dtype"], evn["new_y_dtype"]] + ([evn["new_err_dtype"]] if evn["new_err"] is not None else [])
            if "state" in evn:
                names += [evn["state"]["x_dtype"], evn["state"]["y_dtype"]]
    if any(nm not in DT_COQ for nm in names):
        return None
    x0 = C.clist([C.clist([C.cq(v) for v in row]) for row in ini["x"]])
    y0 = f"({DT_COQ[ini['y_dtype']]}, {C.clist([C.cq(v) for v in ini['y']])})"
    e0 = "None" if ini["yerr"] is None else f"(Some ({DT_COQ[ini['yerr_dtype']]}, {C.clist([C.cq(v) for v in ini['yerr']])}))"
    out, news = [], []
    for evn in evs:
        if evn["op"] != "A" or "exception" in evn:
            continue
        ne = "None" if evn["new_err"] is None else f"(Some ({DT_COQ[evn['new_err_dtype']]}, {C.cq(evn['new_err'])}))"
        news.append(f"(mk_tnew {DT_COQ[evn['new_x_dtype']]} {C.clist([C.cq(v) for v in evn['new_x']])} "
                    f"{DT_COQ[evn['new_y_dtype']]} {C.cq(evn['new_y'])} {ne})")
        if "state" not in evn:
            continue
        fin = evn["state"]
        fx = C.clist([C.clist([C.cq(v) for v in row]) for row in fin["x"]])
        fy = C.clist([C.cq(v) for v in fin["y"]])
        fe = "None" if fin["yerr"] is None else "(Some " + C.clist([C.cq(v) for v in fin["yerr"]]) + ")"
        ode = "None" if fin["yerr"] is None or fin["yerr_dtype"] not in DT_COQ else f"(Some {DT_COQ[fin['yerr_dtype']]})"
        obs = (f"(Some ({DT_COQ[fin['x_dtype']]}, {DT_COQ[fin['y_dtype']]}, {ode}, "
               f"mk_state {fx} {fy} {fe} {C.cq(fin['mu_max'])}))")
        out.append(f"({DT_COQ[ini['x_dtype']]}, {x0}, {y0}, {e0}, {C.clist(news)}, {obs})")
    return out


def add_case_texts(res):
    """one case per prefix ending in an addition"""
    out = []
    evs = res["events"]
    for i, evn in enumerate(evs):
        if evn["op"] == "A" and "state" in evn:
            out.append(add_case_text(res, evs[:i + 1], evn["state"]))
    return out


def add_case_text(res, events, fin):
    ini = res["init"]
    x0 = C.clist([C.clist([C.cq(v) for v in row]) for row in ini["x"]])
    y0 = C.clist([C.cq(v) for v in ini["y"]])
    e0 = "None" if ini["yerr"] is None else "(Some " + C.clist([C.cq(v) for v in ini["yerr"]]) + ")"
    news = []
    for evn in events:
        if evn["op"] == "A" and "exception" not in evn:
            ne = "None" if evn["new_err"] is None else f"(Some {C.cq(evn['new_err'])})"
            news.append(f"({C.clist([C.cq(v) for v in evn['new_x']])}, {C.cq(evn['new_y'])}, {ne})")
    fx = C.clist([C.clist([C.cq(v) for v in row]) for row in fin["x"]])
    fy = C.clist([C.cq(v) for v in fin["y"]])
    fe = "None" if fin["yerr"] is None else "(Some " + C.clist([C.cq(v) for v in fin["yerr"]]) + ")"
    obs = f"(Some (mk_state {fx} {fy} {fe} {C.cq(fin['mu_max'])}))"
    return f"({x0}, {y0}, {e0}, {C.clist(news)}, {obs})"


def sequence_findings(res):
    """[R] checks on one life of the optimiser.  Returns list of (key, what)."""
    bad = []
    cfg = res["cfg"]
    if res["error"]:
        msg = res["error"].splitlines()[0]
        key = "C18/caller-arrays" if "resize" in res["error"] else "C18/exception"
        return [(key, f"GpOptimiser failed on a valid input: {msg}")]
    if res["init_changed"]:
        bad.append(("C18/caller-arrays", "GpOptimiser.__init__ modified the caller's "
                    + ", ".join(res["init_changed"]) + " (" + "; ".join(res["init_shapes"]) + ")"))
    n_add = 0
    for evn in res["events"]:
        if evn["op"] == "P":
            if not evn["in_bounds"]:
                bad.append(("C18/proposal-bounds", f"proposal {evn['proposal']} outside the bounds"))
            if evn.get("bounds_changed"):
                bad.append(("C18/caller-arrays", "propose_evaluation modified the caller's bounds array: now "
                            f"{evn['bounds_now']}"))
        else:
            if "exception" in evn:
                key = "C18/caller-arrays" if "resize" in evn["exception"] else "C18/exception"
                bad.append((key, f"add_evaluation failed on a valid new_x ({evn['kind']}): {evn['exception']}"))
                continue
            n_add += 1
            if evn["changed"]:
                bad.append(("C18/caller-arrays", "add_evaluation modified the caller's " + "; ".join(evn["changed"])))
            if not evn["gp_matches"]:
                bad.append(("C18/refit", "the regressor after add_evaluation is not fitted to the grown data"))
            # the evaluation that was added is part of the data exactly as given
            if "stored_x" in evn:
                how = (f"(initial x-data {res['init'].get('x_dtype')}, data were {evn.get('data_dtype')}, "
                       f"new_x given as {evn['kind']} / {evn.get('new_x_dtype')})")
                if evn["stored_x"] != evn["new_x"] or evn["stored_y"] != evn["new_y"]:
                    bad.append(("C18/data", f"the evaluation y = {evn['new_y']!r} made at x = {evn['new_x']} is stored as "
                                f"y = {evn['stored_y']!r} at x = {evn['stored_x']} {how}"))
                elif evn["fitted_x"] != evn["new_x"] or evn["fitted_y"] != evn["new_y"]:
                    bad.append(("C18/refit", f"the evaluation y = {evn['new_y']!r} made at x = {evn['new_x']} reaches the next "
                                f"model as y = {evn['fitted_y']!r} at x = {evn['fitted_x']} {how}"))
            if evn["mu_max"] != evn["opt_mu_max"]:
                bad.append(("C18/incumbent", "acquisition.mu_max differs from GpOptimiser.mu_max"))
    fin = res["final"]
    if fin["x_shape"] != [len(res["init"]["y"]) + n_add, cfg["d"]]:
        bad.append(("C18/data", f"x has shape {fin['x_shape']} after {n_add} additions"))
    return bad


# ============================================================ (d) worlds: several optimisers alive
def _world_problem(j, d):
    """bounds and value offset of optimiser j: the boxes are disjoint and the values of
    different optimisers differ by tens, so a foreign regressor / incumbent is far away"""
    lo = -2.0 + 12.0 * j
    return [(lo, lo + 4.0 + 0.5 * k) for k in range(d)], 64.0 * j, lo + 2.0


def _world_value(pt, centre, offset):
    v = np.asarray(pt, dtype=float).reshape(-1) - centre
    return round((math.sin(float(v.sum())) + 0.25 * float(v[0])) * 1024) / 1024 + offset


def _acq_expected(kind, kappa, mu, sig, ymax, dmu, dvar):
    """The property itself for one acquisition value: returns (value, objective, gradient or
    None, skipped-reason or None)."""
    if kind == "EI":
        z = (mu - ymax) / sig
        if not (-7.5 <= z <= 7.5):
            return None, None, None, "EI z out of reach of the quadrature"
        ref = definition_quad(mu, sig, ymax)
        return ref, (-math.log(ref) if ref > 0 else None), None, None
    if kind == "UCB":
        ref = mu + kappa * sig
        return ref, -ref, [-(a + 0.5 * kappa * b / sig) for a, b in zip(dmu, dvar)], None
    return sig * sig, -sig * sig, [-b for b in dvar], None


def run_world(cfg):
    """Child-process worker: one process in which several GpOptimiser objects live, their
    operations interleaved as cfg["events"] says.  After every event every optimiser is observed."""
    out = {"cfg": cfg, "steps": [], "error": None, "opts": []}
    try:
        import random as _random
        GpOptimiser, _, EI, UCB, MV = impl()
        classes = {"EI": EI, "UCB": UCB, "MV": MV}
        r = _random.Random(cfg["seed"])
        np.random.seed(cfg["seed"] % (2 ** 31))
        ysc = float(cfg.get("y_scale", 1.0))     # unit of the objectives of this world
        heap = []          # acquisition objects in order of allocation (mirrors the model's heap)
        opts = []          # the optimisers in order of construction
        info = []          # per optimiser: plain data about its problem
        held = []          # per optimiser: the arrays the caller passed to the constructor
        pending = {}       # optimiser -> object returned by its last propose_evaluation
        for k, evn in enumerate(cfg["events"]):
            step = {"event": evn, "k": k}
            try:
                with warnings.catch_warnings():
                    warnings.simplefilter("ignore")
                    if evn["op"] == "L":
                        heap.append(make_ucb(evn["kappa_kind"], evn["kappa_arg"]) if evn["acq"] == "UCB"
                                    else classes[evn["acq"]]())
                    elif evn["op"] == "N":
                        j, d = len(opts), evn["d"]
                        bounds, offset, centre = _world_problem(j, d)
                        n = 3 + d
                        rows = None
                        while rows is None or len({tuple(q) for q in rows}) < n:
                            rows = [[centre + r.randint(-16, 16) / 8.0 for _ in range(d)] for _ in range(n)]
                        yv = [_world_value(q, centre, offset) * ysc for q in rows]
                        shift = max(yv) if evn["shift"] == "max0" else 0.0
                        yv = [v - shift for v in yv]
                        ev = [r.choice([0.0625, 0.125, 0.25]) * ysc for _ in rows] if evn["with_err"] else None
                        x_in = np.array([q[0] for q in rows]) if (evn["x_kind"] == "nd1" and d == 1) else np.array(rows)
                        y_in = np.array(yv)
                        e_in = None if ev is None else np.array(ev)
                        b_in = np.array(bounds, dtype=float) if evn["bounds_kind"] == "nd" else list(bounds)
                        kw = {}
                        if evn["acq_arg"] == "class":
                            kw["acquisition"] = classes[evn["acq"]]
                        elif evn["acq_arg"] == "instance":
                            kw["acquisition"] = heap[evn["ref"]]
                        G = GpOptimiser(x_in, y_in, bounds=b_in, y_err=e_in, optimizer=cfg["optimizer"], **kw)
                        if evn["acq_arg"] != "instance":
                            heap.append(G.acquisition)
                        opts.append(G)
                        held.append([x_in, y_in, e_in, b_in])
                        held[-1].append([_snap(a) for a in held[-1]])
                        queries = [[lo + (hi - lo) * r.uniform(0.03, 0.97) for lo, hi in bounds] for _ in range(10)]
                        info.append({"d": d, "bounds": bounds, "offset": offset, "centre": centre,
                                     "shift": shift, "with_err": evn["with_err"], "queries": queries,
                                     "acq": evn["acq"], "kappa": evn.get("kappa", 2.0),
                                     "init": {"x": rows, "y": yv, "yerr": ev}})
                    elif evn["op"] == "P":
                        j = evn["i"]
                        p = (opts[j].propose_evaluation(optimizer=evn["override"]) if evn.get("override")
                             else opts[j].propose_evaluation())
                        pv = np.atleast_1d(np.asarray(p, dtype=float)).reshape(-1).tolist()
                        step["proposal"] = pv
                        step["in_bounds"] = len(pv) == info[j]["d"] and all(
                            lo <= v <= hi for v, (lo, hi) in zip(pv, info[j]["bounds"]))
                        pending[j] = p
                    else:
                        j = evn["i"]
                        inf = info[j]
                        if j in pending:
                            nx = pending.pop(j)
                            pt = np.atleast_1d(np.asarray(nx, dtype=float)).reshape(-1).tolist()
                        else:
                            pt = [inf["centre"] + r.randint(-15, 15) / 8.0 + 1 / 64 for _ in range(inf["d"])]
                            nx = np.array(pt)
                        ny = _world_value(pt, inf["centre"], inf["offset"]) * ysc - inf["shift"]
                        ne = (0.0 if r.random() < 0.25 else 0.125 * ysc) if inf["with_err"] else None
                        step["new"] = {"x": pt, "y": ny, "err": ne}
                        opts[j].add_evaluation(nx, np.array(ny), None if ne is None else np.array(ne))
            except Exception as e:
                step["exception"] = repr(e) + " | " + traceback.format_exc()[-600:]
                out["steps"].append(step)
                break
            # ---- observe EVERY optimiser
            obs = []
            for j, G in enumerate(opts):
                a, inf = G.acquisition, info[j]
                ob = {"x": np.asarray(G.x, dtype=float).reshape(len(G.y), -1).tolist(),
                      "y": np.asarray(G.y, dtype=float).tolist(),
                      "yerr": None if G.y_err is None else np.asarray(G.y_err, dtype=float).tolist(),
                      "opt_mu_max": float(G.mu_max) if hasattr(G, "mu_max") else None,
                      "acq_type": type(a).__name__,
                      "acq_mu_max": float(a.mu_max),
                      "owner": next((m for m, H in enumerate(opts) if a.gp is H.gp), 999),
                      "n": int(len(a.gp.y)),
                      "shared_with": [m for m, H in enumerate(opts) if m != j and H.acquisition is a],
                      "gp_matches": bool(np.array_equal(np.asarray(G.gp.x, dtype=float).reshape(len(G.gp.y), -1),
                                                        np.asarray(G.x, dtype=float).reshape(len(G.y), -1))
                                         and np.array_equal(np.asarray(G.gp.y, dtype=float), G.y)),
                      "caller_changed": [nm for nm, arr, sn in zip(("x", "y", "y_err", "bounds"), held[j][:4], held[j][4])
                                         if _snap(arr) != sn]}
                # the acquisition of THIS optimiser against ITS OWN regressor and ITS OWN data
                own_max = max(ob["y"])
                pick = None
                # candidates: fixed random points of the box, then points next to the best datum
                # (there |z| is small); a function of the optimiser's OWN data only
                best = ob["x"][ob["y"].index(own_max)]
                near = []
                for off in (0.3, -0.3, 0.1, -0.1, 0.03, -0.03, 0.6, -0.6):
                    c0 = min(max(best[0] + off, inf["bounds"][0][0]), inf["bounds"][0][1])
                    near.append([c0] + list(best[1:]))
                for q in inf["queries"] + near:
                    qa = np.array(q)
                    mu_a, sig_a = G.gp(qa)
                    mu, sig = float(mu_a[0]), float(sig_a[0])
                    if sig > 1e-6 * ysc and (inf["acq"] != "EI" or abs((mu - own_max) / sig) <= 7.0):
                        pick = (q, mu, sig)
                        break
                if pick is not None:
                    q, mu, sig = pick
                    qa = np.array(q)
                    dmu_a, dvar_a = G.gp.spatial_derivatives(qa)
                    dmu = np.atleast_1d(np.asarray(dmu_a, dtype=float)).tolist()
                    dvar = np.atleast_1d(np.asarray(dvar_a, dtype=float)).tolist()
                    val = {"q": q, "mu": mu, "sig": sig, "own_max": own_max, "dmu": dmu, "dvar": dvar}
                    try:
                        with warnings.catch_warnings():
                            warnings.simplefilter("ignore")
                            val["call"] = float(a(qa))
                            val["opt"] = float(a.opt_func(qa))
                            fv, fg = a.opt_func_gradient(qa)
                            val["optg"] = float(np.asarray(fv).reshape(-1)[0])
                            val["grad"] = np.atleast_1d(np.asarray(fg, dtype=float)).tolist()
                    except Exception as e:
                        val["error"] = repr(e)
                    with warnings.catch_warnings():
                        warnings.simplefilter("ignore")
                        ref, oref, gref, skipped = _acq_expected(inf["acq"], inf["kappa"], mu, sig, own_max, dmu, dvar)
                    val.update(ref=ref, opt_ref=oref, grad_ref=gref, skipped=skipped)
                    ob["value"] = val
                obs.append(ob)
            step["obs"] = obs
            out["steps"].append(step)
        out["opts"] = info
    except Exception as e:
        out["error"] = repr(e) + "\n" + traceback.format_exc()[-1500:]
    return out


WORLD_TEMPLATES = [
    ["N0", "N1", "A0", "A1", "P0", "A0", "P1"],
    ["N0", "A0", "N1", "P0", "A1", "A0"],
    ["N0", "N1", "P1", "P0", "A1", "A0"],
    ["N0", "N1", "N2", "A1", "A0", "A2"],
]


def world_configs(tier):
    """Interleaved lives of 2..3 optimisers.  The first four worlds of each round use the
    DEFAULT acquisition everywhere (the argument is omitted), the others mix default / class /
    caller-made instance (never one instance for two optimisers: that sharing would be the
    caller's own doing)."""
    r = C.rng_for(PROP, "world")
    cfgs = []
    rounds = 1 if tier == "quick" else 4
    for rnd in range(rounds):
        plans = [(t, "default", opt) for t, opt in zip(WORLD_TEMPLATES, ("bfgs", "diffev", "bfgs", "diffev"))]
        for m in range(6 if tier == "quick" else 10):
            if r.random() < 0.5:
                t = list(r.choice(WORLD_TEMPLATES))
            else:
                # a random interleaving: N0 first, N1 among the next two, then anything alive
                t, alive, n_tot = ["N0"], 1, r.choice([2, 2, 3])
                for pos in range(r.randint(5, 6)):
                    if alive < n_tot and (pos == 1 or (pos == 0 and r.random() < 0.5) or r.random() < 0.3):
                        t.append(f"N{alive}")
                        alive += 1
                    else:
                        t.append(r.choice("APA") + str(r.randrange(alive)))
                if alive < 2:
                    t.insert(1, "N1")
            plans.append((t, "mixed", ("bfgs", "diffev")[m % 2]))
        for t, mode, optimizer in plans:
            events, heap_n = [], 0
            for w in t:
                if w[0] == "N":
                    arg = "default" if mode == "default" else r.choice(["default", "default", "class", "instance"])
                    acq = "EI" if arg == "default" else r.choice(["EI", "EI", "UCB", "MV"])
                    kkind, kval = r.choice([("float", 0.0), ("float", 0.5), ("default", None), ("int", 0), ("float", 2.0)])
                    d = r.choice([1, 1, 2])
                    evn = {"op": "N", "acq_arg": arg, "acq": acq, "d": d,
                           "with_err": r.random() < 0.3, "shift": r.choice(["none", "none", "max0"]),
                           "x_kind": r.choice(["nd1", "nd2"]), "bounds_kind": r.choice(["nd", "list"]),
                           "kappa": 2.0}
                    if arg == "instance":
                        events.append({"op": "L", "acq": acq, "kappa_kind": kkind, "kappa_arg": kval})
                        evn["ref"] = heap_n
                        evn["kappa"] = kappa_expected(kkind, kval)
                        heap_n += 1
                    else:
                        heap_n += 1
                    events.append(evn)
                elif w[0] == "A":
                    events.append({"op": "A", "i": int(w[1:])})
                else:
                    events.append({"op": "P", "i": int(w[1:]), "override": r.choice([None, None, "bfgs", "diffev"])})
            cfgs.append({"events": events, "optimizer": optimizer, "mode": mode,
                         "word": " ".join(t), "seed": r.randint(1, 10 ** 9)})
    # units of the objectives: the worlds with the default acquisition everywhere stay at 1, the
    # mixed ones cycle through 1e-11 .. 1e6 (own random stream; any six consecutive entries hold
    # a scale <= 1e-8 and a scale >= 1e3)
    rs = C.rng_for(PROP, "world-scale")
    rot, m = rs.randrange(len(WORLD_Y_SCALES)), 0
    for c in cfgs:
        if c["mode"] == "mixed":
            c["y_scale"] = WORLD_Y_SCALES[(m + rot) % len(WORLD_Y_SCALES)]
            m += 1
    return cfgs


WORLD_Y_SCALES = [1e-11, 1e6, 1.0, 1e-8, 1.0, 1e3, 1e-4, 1.0, 1e-10, 1e3]


def _qrows(rows):
    return C.clist([C.clist([C.cq(v) for v in row]) for row in rows])


def _qopt_list(v):
    return "None" if v is None else "(Some " + C.clist([C.cq(t) for t in v]) + ")"


def world_case_text(res):
    """(ops, observations) up to the last event that completed"""
    ops, obs = [], []
    n_opt = 0
    for st in res["steps"]:
        if "obs" not in st:
            break
        evn = st["event"]
        if evn["op"] == "L":
            ops.append("W_alloc")
        elif evn["op"] == "N":
            ini = res["opts"][n_opt]["init"] if n_opt < len(res["opts"]) else None
            if ini is None:
                break
            n_opt += 1
            arg = {"default": "Acq_default", "class": "Acq_class"}.get(evn["acq_arg"]) or f"(Acq_instance {C.cnat(evn['ref'])})"
            ops.append(f"W_new {arg} {_qrows(ini['x'])} {C.clist([C.cq(v) for v in ini['y']])} {_qopt_list(ini['yerr'])}")
        elif evn["op"] == "A":
            nw = st["new"]
            ne = "None" if nw["err"] is None else f"(Some {C.cq(nw['err'])})"
            ops.append(f"W_add {C.cnat(evn['i'])} {C.clist([C.cq(v) for v in nw['x']])} {C.cq(nw['y'])} {ne}")
        else:
            ops.append(f"W_propose {C.cnat(evn['i'])}")
        row = []
        for ob in st["obs"]:
            mm = "None" if ob["opt_mu_max"] is None else f"(Some {C.cq(ob['opt_mu_max'])})"
            row.append(f"({_qrows(ob['x'])}, {C.clist([C.cq(v) for v in ob['y']])}, {_qopt_list(ob['yerr'])}, {mm}, "
                       f"({C.cq(ob['acq_mu_max'])}, {C.cnat(ob['owner'])}, {C.cnat(ob['n'])}))")
        obs.append(C.clist(row))
    return "(" + C.clist(ops, ";\n   ") + ",\n  " + C.clist(obs, ";\n   ") + ")"


def _ev_name(evn):
    if evn["op"] == "L":
        return f"{evn['acq']}() made by the caller"
    if evn["op"] == "N":
        how = {"default": "default acquisition", "class": f"acquisition={evn['acq']} class",
               "instance": f"acquisition=<the caller's {evn['acq']} instance>"}[evn["acq_arg"]]
        return f"GpOptimiser(...) constructed ({how})"
    return ("add_evaluation on" if evn["op"] == "A" else "propose_evaluation on") + f" optimiser {evn['i']}"


def world_findings(res):
    """[R] the property itself on one world.  Returns list of (key, what)."""
    bad = []
    if res["error"]:
        return [("C18/exception", "world run failed: " + res["error"].splitlines()[0])]
    prev = None
    for st in res["steps"]:
        evn, k = st["event"], st["k"]
        after = f"after event {k} ({_ev_name(evn)})"
        if "exception" in st:
            bad.append(("C18/exception", f"{_ev_name(evn)} failed on a valid input with other optimisers alive: "
                        + st["exception"].split(" | ")[0]))
            break
        if evn["op"] == "P" and not st["in_bounds"]:
            bad.append(("C18/proposal-bounds", f"{after}: proposal {st['proposal']} outside its bounds"))
        for j, ob in enumerate(st["obs"]):
            inf = res["opts"][j] if j < len(res["opts"]) else None
            own_max = max(ob["y"])
            if ob["acq_mu_max"] != own_max:
                bad.append(("C18/incumbent", f"{after}: the acquisition of optimiser {j} has incumbent mu_max = "
                            f"{ob['acq_mu_max']!r} but the maximum of its own data is {own_max!r}"))
            if ob["opt_mu_max"] is not None and ob["opt_mu_max"] != own_max:
                bad.append(("C18/incumbent", f"{after}: GpOptimiser.mu_max of optimiser {j} = {ob['opt_mu_max']!r} "
                            f"but the maximum of its own data is {own_max!r}"))
            if ob["owner"] != j or ob["n"] != len(ob["y"]):
                whose = f"the regressor of optimiser {ob['owner']}" if ob["owner"] != 999 else "a regressor no optimiser holds any more"
                bad.append(("C18/acquisition-model", f"{after}: the acquisition of optimiser {j} evaluates {whose} "
                            f"({ob['n']} points; its own has {len(ob['y'])})"
                            + (f"; it is the same object as the acquisition of optimiser(s) {ob['shared_with']}"
                               if ob["shared_with"] else "")))
            if not ob["gp_matches"]:
                bad.append(("C18/refit", f"{after}: the regressor of optimiser {j} is not fitted to its data"))
            if ob["caller_changed"]:
                bad.append(("C18/caller-arrays", f"{after}: the caller's {', '.join(ob['caller_changed'])} of optimiser {j} was modified"))
            v = ob.get("value")
            if v is not None and inf is not None:
                kind = inf["acq"]
                if "error" in v:
                    bad.append(("C18/acquisition/" + kind, f"{after}: acquisition of optimiser {j} failed at its query point "
                                f"{v['q']}: {v['error']}"))
                elif v["skipped"] is None:
                    tol = (1e-6 * abs(v["ref"]) if kind == "EI" else
                           1e-9 * (abs(v["mu"]) + abs(inf["kappa"] * v["sig"])) if kind == "UCB" else 1e-9 * v["sig"] ** 2)
                    name = {"EI": "E max(f - ymax, 0)", "UCB": "mu + kappa sigma", "MV": "sigma^2"}[kind]
                    if not (abs(v["call"] - v["ref"]) <= tol):
                        bad.append(("C18/acquisition/" + kind, f"{after}: {kind}(x) of optimiser {j} at x = {v['q']} is {v['call']!r} "
                                    f"but {name} under its own regressor (mu = {v['mu']!r}, sigma = {v['sig']!r}) and its own "
                                    f"incumbent {v['own_max']!r} is {v['ref']!r}"))
                    if v["opt_ref"] is not None and not (abs(v["opt"] - v["opt_ref"]) <= (1e-6 * max(1, abs(v["opt_ref"])) if kind == "EI" else tol)):
                        bad.append(("C18/acquisition/" + kind, f"{after}: opt_func(x) of optimiser {j} is {v['opt']!r} but the "
                                    f"objective under its own regressor and incumbent is {v['opt_ref']!r}"))
                    if v["optg"] != v["opt"] and not (abs(v["optg"] - v["opt"]) <= (1e-9 * max(1, abs(v["opt"])) if kind == "EI" else tol)):
                        bad.append(("C18/acquisition/" + kind, f"{after}: opt_func_gradient value {v['optg']!r} differs from opt_func {v['opt']!r} (optimiser {j})"))
                    if v["grad_ref"] is not None:
                        for c, (g, gr) in enumerate(zip(v["grad"], v["grad_ref"])):
                            sc = (abs(v["dmu"][c]) + abs(0.5 * inf["kappa"] * v["dvar"][c] / v["sig"]) if kind == "UCB"
                                  else abs(v["dvar"][c]))
                            if not (abs(g - gr) <= 1e-9 * sc):
                                bad.append(("C18/acquisition/" + kind, f"{after}: gradient[{c}] of optimiser {j} is {g!r}, "
                                            f"the gradient of its own objective is {gr!r}"))
        # an operation on one optimiser leaves every other optimiser bit-for-bit as it was
        if prev is not None:
            target = evn.get("i") if evn["op"] == "A" else None
            for j, (o0, o1) in enumerate(zip(prev, st["obs"])):
                if j == target:
                    continue
                keys = ("x", "y", "yerr", "opt_mu_max", "acq_mu_max", "owner", "n")
                diff = [kk for kk in keys if o0[kk] != o1[kk]]
                v0, v1 = o0.get("value"), o1.get("value")
                if v0 and v1 and "error" not in v0 and "error" not in v1 and v0["q"] == v1["q"]:
                    diff += [kk for kk in ("call", "opt", "optg", "grad") if v0.get(kk) != v1.get(kk)]
                if diff:
                    bad.append(("C18/interference", f"{after}: optimiser {j}, which was not operated on, changed: "
                                + ", ".join(f"{kk}: {o0.get(kk, (v0 or {}).get(kk))!r} -> {o1.get(kk, (v1 or {}).get(kk))!r}"
                                            for kk in diff[:3])))
        prev = st.get("obs")
    return bad


def world_goals(results, tier):
    """interval goals for a sample of world observations: the acquisition value / objective /
    gradient of an optimiser against the model at ITS OWN regressor's moments and ITS OWN
    incumbent (the maximum of the y the world correspondence ties to the model's st_ymax).
    Observations made right after ANOTHER optimiser was constructed or updated come first."""
    pool = []
    for wi, res in enumerate(results):
        if res["error"]:
            continue
        for st in res["steps"]:
            if "obs" not in st:
                continue
            evn = st["event"]
            for j, ob in enumerate(st["obs"]):
                v = ob.get("value")
                if not v or "error" in v or j >= len(res["opts"]):
                    continue
                if not all(map(math.isfinite, [v["call"], v["opt"], v["optg"]] + v["grad"])):
                    continue
                foreign = (evn["op"] == "A" and evn["i"] != j) or (evn["op"] == "N" and j != len(st["obs"]) - 1)
                pool.append((0 if foreign else 1, wi, st["k"], j, v, res["opts"][j]))
    pool.sort(key=lambda t: t[:4])
    budget = 10 if tier == "quick" else 80
    # spread over the worlds: at most two observations per world in the first pass
    chosen, per = [], {}
    for t in pool:
        if per.get(t[1], 0) < 2 and len(chosen) < budget:
            chosen.append(t)
            per[t[1]] = per.get(t[1], 0) + 1
    goals, index = [], {}
    for (_, wi, k, j, v, inf) in chosen:
        gid0 = f"w{wi}s{k}o{j}"
        index[gid0] = (wi, k, j)
        mu, sig, ymax, d = v["mu"], v["sig"], v["own_max"], len(v["grad"])
        if inf["acq"] == "EI":
            goals.append(ei_goal("call", gid0 + "_call", mu, sig, ymax, v["call"]))
            goals.append(ei_goal("opt", gid0 + "_opt", mu, sig, ymax, v["opt"]))
            goals.append(ei_goal("opt", gid0 + "_optg", mu, sig, ymax, v["optg"]))
            for c in range(d):
                goals.append(ei_goal("grad", gid0 + f"_grad{c}", mu, sig, ymax, v["grad"][c], v["dmu"][c], v["dvar"][c]))
        elif inf["acq"] == "UCB":
            kappa = inf["kappa"]
            m, s_, kq = C.cR(mu), C.cR(sig), f"(ucb_kappa (Some {C.cR(kappa)}))"
            sc = abs(mu) + abs(kappa * sig)
            goals.append(simple_goal(gid0 + "_call", f"ucb_call {kq} {m} {s_}", v["call"], sc))
            goals.append(simple_goal(gid0 + "_opt", f"ucb_opt_func {kq} {m} {s_}", v["opt"], sc))
            goals.append(simple_goal(gid0 + "_optg", f"ucb_opt_func {kq} {m} {s_}", v["optg"], sc))
            for c in range(d):
                sc2 = abs(v["dmu"][c]) + abs(0.5 * kappa * v["dvar"][c] / sig)
                goals.append(simple_goal(gid0 + f"_grad{c}", f"ucb_opt_grad {kq} {s_} {C.cR(v['dmu'][c])} {C.cR(v['dvar'][c])}",
                                         v["grad"][c], sc2))
        else:
            s_ = C.cR(sig)
            goals.append(simple_goal(gid0 + "_call", f"mv_call {s_}", v["call"], sig * sig))
            goals.append(simple_goal(gid0 + "_opt", f"mv_opt_func {s_}", v["opt"], sig * sig))
            goals.append(simple_goal(gid0 + "_optg", f"mv_opt_func {s_}", v["optg"], sig * sig))
            for c in range(d):
                goals.append(simple_goal(gid0 + f"_grad{c}", f"mv_opt_grad {C.cR(v['dvar'][c])}", v["grad"][c], abs(v["dvar"][c])))
    return goals, index


# ============================================================ driver
SCALE_THEOREMS = ["C18_units_covariance", "C18_sigma_floor_refuted", "C18_sigma_floor_invisible_above",
                  "C18_promotion_exact", "C18_typed_add_evaluation_spec", "C18_typed_add_all_spec",
                  "C18_typed_refines_untyped", "C18_cast_to_data_dtype_refuted"]


def _audit_job(theorems):
    """Pool worker: Check + Print Assumptions of Properties/C18Scale.v."""
    try:
        return {"ok": C.coq_audit(PROP + "_scale", theorems, "IT.Properties.C18Scale")}
    except C.ProofFailure as e:
        return {"what": e.what, "log": e.log}
    except Exception as e:      # noqa: BLE001
        return {"what": f"audit of IT.Properties.C18Scale crashed: {e!r}", "log": ""}


def run(rep: C.Report, tier: str) -> int:
    C.clean_gen(PROP)
    C.prove_and_audit(rep, PROP, THEOREMS)
    try:      # expected improvement as an improper integral over the predictive normal (Proofs/EiIntegral.v)
        _ei = ["C18_ei_is_expected_improvement", "C18_ei_call_is_expected_improvement", "C18_ei_limit_of_proper_integrals",
               "C18_ei_proper_integrals", "C18_gauss_pdf_vanishes", "C18_is_RInt_gen_of_primitive"]
        _a = C.coq_audit(PROP + "_integral", _ei, "IT.Properties.C18Integral")
        rep.obligation(True, len(_ei))
        rep.coverage["ei_integral_audit"] = _a
    except C.ProofFailure as _e:
        rep.obligation(False, 6)
        rep.violation("C18/proof", f"proof obligation no longer checks: {_e.what}",
                      {"theorem_or_correspondence": _e.what, "log": _e.log[-1000:]}, False)

    # units of the objective, element types of the data (Properties/C18Scale.v): audited by a pool
    # worker (below) while the implementation is run; collected before the sequences are judged.
    # (Not a thread: the pool forks its workers, and a fork while a thread sits in subprocess can
    # leave a worker dead-locked.)

    # start the optimiser lives first (they run in worker processes meanwhile)
    cfgs = sequence_configs(tier) + dtype_sequence_configs(tier)
    wcfgs = world_configs(tier)
    pool = ProcessPoolExecutor(max_workers=14)
    _audit_fut = pool.submit(_audit_job, SCALE_THEOREMS)
    scaled = scaled_setup(tier, pool)                       # short hyper-parameter fits
    wfuts = [pool.submit(run_world, c) for c in wcfgs]      # the longer lives first
    futs = [pool.submit(run_sequence, c) for c in cfgs]

    # ---- (a) acquisition values and gradients
    import time as _t
    t0 = _t.time()
    recs, goals = acquisition_points(rep, tier, scaled)
    rep.coverage["t_acq_impl_s"] = round(_t.time() - t0, 1)
    # the definition E max(f - ymax, 0), enclosed inside Coq, on a sample of EI points
    ei_idx = [k for k, rc in enumerate(recs) if rc["acq"] == "EI" and "error" not in rc and "yscale" not in rc]
    step = max(1, len(ei_idx) // (8 if tier == "quick" else 40))
    for k in ei_idx[::step]:
        rc = recs[k]
        goals.append(definition_goal(f"{k}_definition", rc["mu"], rc["sig"], rc["ymax"], rc["call"]))
    # ... and on the first EI point of every regressor fitted to y-values in other units
    for k, rc in enumerate(recs):
        if rc.get("want_definition") and "error" not in rc:
            goals.append(definition_goal(f"{k}_definition", rc["mu"], rc["sig"], rc["ymax"], rc["call"]))
    # the worlds are done by now (a few seconds of work in the pool): their interval goals go
    # into the same batch
    wresults = [f.result() for f in wfuts]
    wgoals, windex = world_goals(wresults, tier)
    n_acq_goals = len(goals)
    goals = goals + wgoals
    # heavy goals (far tail) spread over the chunks
    heavy = [g for g in goals if "i_degree" in g[2]]
    light = [g for g in goals if "i_degree" not in g[2]]
    heavy.sort(key=lambda g: -int(g[2].split("i_prec ")[1].split(",")[0]))
    nchunks = 12
    buckets = [[] for _ in range(nchunks)]
    for i, g in enumerate(heavy):
        buckets[i % nchunks].append(g)
    for i, g in enumerate(light):
        buckets[i % nchunks].append(g)
    ordered = [g for b in buckets for g in b]
    chunk = max(1, (len(ordered) + nchunks - 1) // nchunks)
    failed, broken = I.check_goals(PROP, "acq", ordered, preamble=PREAMBLE, chunk=chunk, jobs=12,
                                   timeout=600)
    rep.coverage["t_acq_goals_s"] = round(_t.time() - t0, 1)
    rep.obligation(True, len(goals) - len(failed))
    rep.obligation(False, len(failed))
    rep.coverage["interval_goals"] = n_acq_goals
    rep.coverage["world_interval_goals"] = len(wgoals)
    rep.coverage["interval_goals_failed"] = len(failed)
    wfailed = [(gid, log) for gid, log in failed if gid.startswith("w")]
    failed = [(gid, log) for gid, log in failed if not gid.startswith("w")]
    for b in broken:
        rep.obligation(False)
        rep.violation("C18/goal-file", "a file of interval goals could not be processed",
                      {"theorem_or_correspondence": "coq/gen/C18/acq_*.v", "log": b}, False)
    bad_recs = {}
    for gid, log in failed:
        bad_recs.setdefault(int(gid.split("_")[0]), []).append(gid)
    for k, rc in enumerate(recs):
        if "error" in rc:
            bad_recs.setdefault(k, []).append("error")
    for k in sorted(bad_recs)[:12]:
        rc = recs[k]
        why = acq_oracle(rc)
        if why:
            rep.violation("C18/acquisition/" + rc["acq"], "; ".join(why[:3]),
                          {"case": {"kind": "acquisition", "record": rc}}, True)
        else:
            rep.violation("C18/acquisition-correspondence",
                          f"{rc['acq']}: implementation and model disagree ({bad_recs[k]}), "
                          "but the property was not seen to fail at this point",
                          {"theorem_or_correspondence": "RealModel.Acquisition vs acquisition.py "
                           + ",".join(bad_recs[k]), "case": {"kind": "acquisition", "record": rc}}, False)
    # second opinion [R] on a slice of agreeing points
    for k in range(0, len(recs), 5 if tier == "quick" else 2):
        if k not in bad_recs:
            why = acq_oracle(recs[k])
            if why:
                rep.violation("C18/acquisition/" + recs[k]["acq"], "; ".join(why[:3]),
                              {"case": {"kind": "acquisition", "record": recs[k]}}, True)
    for rc in recs[:2]:
        rep.sample({k: rc[k] for k in ("acq", "d", "x", "mu", "sig", "call", "opt", "grad") if k in rc})

    # ---- (b) starting positions
    scases, smetas, spybad = starts_cases(rep, tier)
    live = [(i, c) for i, c in enumerate(scases) if c is not None]
    files, index = [], []
    CH = 30
    for i in range(0, len(live), CH):
        ch = live[i:i + CH]
        body = "Definition cases : list starts_case :=\n " + C.clist([t for _, t in ch], ";\n ") + "."
        files.append(C.write_case_file(PROP, f"starts_{i // CH}", CASE_HEADER, body,
                                       ["failing check_starts_case cases 0"]))
        index.append([k for k, _ in ch])
    sbad = {}
    for k, what in spybad:
        sbad.setdefault(k, []).append(what)
    for p, idx, (ok, res, log) in zip(files, index, C.run_case_files(files, jobs=6)):
        if not ok or 0 not in res:
            rep.obligation(False)
            rep.violation("C18/starts-run", f"case file {p.name} did not evaluate",
                          {"theorem_or_correspondence": p.name, "log": log}, False)
            continue
        rep.obligation(True)
        for j in res[0]:
            sbad.setdefault(idx[j], []).append("differs from Model.Optimiser.starts")
    rep.coverage["starts_cases"] = len(live)
    for k in sorted(sbad)[:5]:
        m = smetas[k]
        outside = m["starts"] is not None and any(
            not (Fraction(lo) <= C.frac(v) <= Fraction(hi))
            for s in m["starts"] for v, (lo, hi) in zip(s, m["bounds"]))
        shr = []
        if m["starts"] is not None:
            for s in m["starts"]:
                for v, (lo, hi) in zip(s, m["bounds"]):
                    lo, hi = Fraction(lo), Fraction(hi)
                    w = hi - lo
                    if not (lo + w / 128 <= C.frac(v) <= hi - w / 128):
                        shr.append(s)
        found = outside or m["error"] is not None or bool(shr)
        what = "; ".join(sbad[k][:2])
        if shr and not outside:
            what += f"; start {shr[0]} is not clipped into the 1%-shrunk search box"
        rep.violation("C18/starting_positions", what,
                      ({"case": {"kind": "starts", "meta": m}} if found else
                       {"theorem_or_correspondence": "Model.Optimiser.check_starts_case",
                        "case": {"kind": "starts", "meta": m}}), found)

    _a = _audit_fut.result()
    if "ok" in _a:
        rep.obligation(True, len(SCALE_THEOREMS))
        rep.coverage["scale_typed_audit"] = _a["ok"]
    else:
        rep.obligation(False, len(SCALE_THEOREMS))
        rep.violation("C18/proof", f"proof obligation no longer checks: {_a['what']}",
                      {"theorem_or_correspondence": _a["what"], "log": _a["log"][-1000:]}, False)

    # ---- (c) sequences
    rep.coverage["t_before_seq_s"] = round(_t.time() - t0, 1)
    results = [f.result() for f in futs]
    rep.coverage["t_seq_done_s"] = round(_t.time() - t0, 1)
    pool.shutdown()
    acases, aidx = [], []
    tcases, tidx = [], []
    for i, res in enumerate(results):
        cfg = res["cfg"]
        rep.case(("seq", json.dumps(cfg, sort_keys=True)))
        rep.count(f"seq optimizer={cfg['optimizer']}")
        rep.count(f"seq len={len(cfg['ops'])}")
        rep.count(f"seq d={cfg['d']} acq={cfg['acq']}")
        if "x_dtype" in cfg:
            rep.count(f"seq initial x dtype={cfg['x_dtype']} y dtype={cfg['y_dtype']}")
            rep.count(f"seq y-scale={cfg['y_scale']:g}")
            for e_ in res["events"]:
                if e_["op"] == "A":
                    rep.count(f"seq data {e_.get('data_dtype')} + new_x {e_['kind']}/{e_.get('new_x_dtype')}")
        else:
            rep.count(f"seq x={cfg['x_kind']} new_x={cfg['newx_kind']}")
        finds = sequence_findings(res)
        seen = set()
        for key, what in finds:
            if key in seen:
                continue
            seen.add(key)
            rep.violation(key, what, {"case": {"kind": "sequence", "cfg": cfg}}, True)
        if res["error"] is None:
            for t in add_case_texts(res):
                acases.append(t)
                aidx.append(i)
            tt = typed_case_texts(res)
            if tt is None:
                rep.count("seq with an element type outside Model.OptimiserTyped (no typed case)")
            else:
                for t in tt:
                    tcases.append(t)
                    tidx.append(i)
    rep.coverage["sequences"] = len(results)
    rep.coverage["proposals"] = sum(1 for r_ in results for e in r_["events"] if e["op"] == "P")
    rep.coverage["additions"] = sum(1 for r_ in results for e in r_["events"] if e["op"] == "A")
    files, index = [], []
    CH = 40
    for i in range(0, len(acases), CH):
        body = ("Definition cases : list add_case :=\n " + C.clist(acases[i:i + CH], ";\n ") + ".")
        files.append(C.write_case_file(PROP, f"add_{i // CH}", CASE_HEADER, body,
                                       ["failing check_add_case cases 0"]))
        index.append(aidx[i:i + CH])
    # the same lives against Model.OptimiserTyped (files evaluated together with the add_* ones)
    tfiles, tindex = [], []
    for i in range(0, len(tcases), CH):
        body = ("Definition cases : list typed_add_case :=\n " + C.clist(tcases[i:i + CH], ";\n ") + ".")
        tfiles.append(C.write_case_file(PROP, f"tadd_{i // CH}", TYPED_HEADER, body,
                                        ["failing check_typed_add_case cases 0"]))
        tindex.append(tidx[i:i + CH])
    _both = C.run_case_files(files + tfiles, jobs=8)
    for p, idx, (ok, res, log) in zip(files, index, _both[:len(files)]):
        if not ok or 0 not in res:
            rep.obligation(False)
            rep.violation("C18/add-run", f"case file {p.name} did not evaluate",
                          {"theorem_or_correspondence": p.name, "log": log}, False)
            continue
        rep.obligation(True)
        for j in res[0][:3]:
            r_ = results[idx[j]]
            fin, ini = r_["final"], r_["init"]
            adds = [e for e in r_["events"] if e["op"] == "A"]
            want_y = ini["y"] + [e["new_y"] for e in adds]
            visible = fin["y"] != want_y or fin["mu_max"] != max(want_y) or \
                fin["x"] != ini["x"] + [e["new_x"] for e in adds]
            rep.violation("C18/add_evaluation",
                          "data after add_evaluation differ from Model.Optimiser.add_all"
                          + (f": y = {fin['y']}, mu_max = {fin['mu_max']}, expected y = {want_y}" if visible else ""),
                          ({"case": {"kind": "sequence", "cfg": r_["cfg"]}} if visible else
                           {"theorem_or_correspondence": "Model.Optimiser.check_add_case",
                            "case": {"kind": "sequence", "cfg": r_["cfg"]}}), visible)
    # the same lives against Model.OptimiserTyped: element types of the arrays after every addition
    # (numpy's promoted type) and the data, exactly
    tseen = set()
    for p, idx, (ok, res, log) in zip(tfiles, tindex, _both[len(files):]):
        if not ok or 0 not in res:
            rep.obligation(False)
            rep.violation("C18/typed-add-run", f"case file {p.name} did not evaluate",
                          {"theorem_or_correspondence": p.name, "log": log}, False)
            continue
        rep.obligation(True)
        for j in res[0]:
            if idx[j] in tseen:
                continue
            tseen.add(idx[j])
            if len(tseen) > 3:
                break
            r_ = results[idx[j]]
            adds = [e for e in r_["events"] if e["op"] == "A" and "state" in e]
            lost = [e for e in adds if e["stored_x"] != e["new_x"] or e["stored_y"] != e["new_y"]]
            if lost:
                e = lost[0]
                what = (f"the evaluation y = {e['new_y']!r} made at x = {e['new_x']} is stored as y = {e['stored_y']!r} at "
                        f"x = {e['stored_x']} (data {e.get('data_dtype')}, new_x {e['kind']} / {e.get('new_x_dtype')}); "
                        "differs from Model.OptimiserTyped.typed_add_all")
            else:
                what = ("element types after add_evaluation differ from numpy's promotion (Model.OptimiserTyped.typed_add_all): "
                        + "; ".join(f"{e.get('data_dtype')} + {e.get('new_x_dtype')} -> {e['state']['x_dtype']}" for e in adds[:4]))
            rep.violation("C18/add_evaluation-typed", what,
                          ({"case": {"kind": "sequence", "cfg": r_["cfg"]}} if lost else
                           {"theorem_or_correspondence": "Model.OptimiserTyped.check_typed_add_case",
                            "case": {"kind": "sequence", "cfg": r_["cfg"]}}), bool(lost))
    rep.coverage["typed_traces_validated_against_impl"] = len(tcases)
    rep.coverage["traces_validated_against_impl"] = len(acases)
    if results:
        rep.sample({"sequence": results[0]["cfg"], "events": results[0]["events"][:2]})

    # ---- (d) worlds: several optimisers alive in one process
    wfinds = []
    for wi, res in enumerate(wresults):
        cfg = res["cfg"]
        rep.case(("world", json.dumps(cfg, sort_keys=True)))
        rep.count(f"world optimizer={cfg['optimizer']} acquisitions={cfg['mode']}")
        rep.count(f"world optimisers={sum(1 for e in cfg['events'] if e['op'] == 'N')}")
        for e in cfg["events"]:
            if e["op"] == "N":
                rep.count(f"world acquisition={e['acq_arg']}:{e['acq']}")
        rep.count("world observations", sum(len(st.get("obs", [])) for st in res["steps"]))
        finds = world_findings(res)
        wfinds.append(finds)
        seen = set()
        for key, what in finds:
            if key in seen:
                continue
            seen.add(key)
            rep.violation(key, what, {"case": {"kind": "world", "cfg": cfg}}, True)
    rep.coverage["worlds"] = len(wresults)
    live = [(wi, world_case_text(res)) for wi, res in enumerate(wresults) if res["error"] is None]
    files, index = [], []
    CH = 4
    for i in range(0, len(live), CH):
        ch = live[i:i + CH]
        body = "Definition cases : list world_case :=\n " + C.clist([t for _, t in ch], ";\n ") + "."
        files.append(C.write_case_file(PROP, f"world_{i // CH}", CASE_HEADER, body,
                                       ["failing check_world_case cases 0", "world_diffs cases"]))
        index.append([wi for wi, _ in ch])
    for p, idx, (ok, res, log) in zip(files, index, C.run_case_files(files, jobs=6)):
        if not ok or 0 not in res or 1 not in res:
            rep.obligation(False)
            rep.violation("C18/world-run", f"case file {p.name} did not evaluate",
                          {"theorem_or_correspondence": p.name, "log": log}, False)
            continue
        rep.obligation(True)
        for j in res[0]:
            wi = idx[j]
            stepno = res[1][j] - 1 if j < len(res[1]) else -1
            cfg = wresults[wi]["cfg"]
            evs = wresults[wi]["steps"]
            where = (f"after event {stepno} ({_ev_name(evs[stepno]['event'])})" if 0 <= stepno < len(evs) else "")
            visible = bool(wfinds[wi])
            if visible:
                continue          # already reported above, with the concrete failure
            rep.violation("C18/world",
                          f"world '{cfg['word']}': the optimisers differ from Model.OptimiserWorld.wstep {where}",
                          {"theorem_or_correspondence": "Model.OptimiserWorld.check_world_case",
                           "case": {"kind": "world", "cfg": cfg}}, False)
    rep.coverage["world_traces_validated_against_impl"] = len(live)
    if wgoals:
        seenw = set()
        for gid, log in wfailed:
            wi, k, j = windex[gid.rsplit("_", 1)[0]]
            if wi in seenw or wfinds[wi]:
                continue
            seenw.add(wi)
            rep.violation("C18/acquisition-correspondence",
                          f"world '{wresults[wi]['cfg']['word']}': acquisition of optimiser {j} after event {k} and "
                          f"the model at its own regressor / incumbent disagree ({gid})",
                          {"theorem_or_correspondence": "RealModel.Acquisition vs acquisition.py " + gid,
                           "case": {"kind": "world", "cfg": wresults[wi]["cfg"]}}, False)
    rep.coverage["t_worlds_done_s"] = round(_t.time() - t0, 1)
    if wresults and wresults[0]["steps"]:
        st0 = wresults[0]["steps"][min(1, len(wresults[0]["steps"]) - 1)]
        rep.sample({"world": wresults[0]["cfg"]["word"], "event": st0["event"],
                    "observed": [{k: ob[k] for k in ("y", "acq_mu_max", "owner", "n")} for ob in st0.get("obs", [])]})

    rep.assumptions = [
        "mu, sigma, dmu, dvar are read from the real GpRegressor (C02/C16 are about those); the "
        "model takes them as exact rationals",
        "scipy.special.erf / erfcx are modelled by their integral definitions (Acquisition.erf, erfcx)",
        "the far tail is sampled down to z = -8; for z < -8 the agreement of the two branches is "
        "theorem C18_ei_branches_agree (all z), not sampled",
        "sigma (z Phi + phi) = E max(f - ymax, 0) is proved as an improper integral over the predictive normal for all "
        "mu, ymax, sigma > 0 (Properties/C18Integral.v); it is additionally enclosed by `integral` at sampled points "
        "(goal *_definition)",
        "scipy.optimize (L-BFGS-B, differential_evolution) keeping iterates inside the bounds is "
        "observed [R], not proved",
        "element types: int16/32/64 and float32/64 with numpy's promotion table (Model.OptimiserTyped.promote); "
        "values beyond 2^53 in magnitude (where numpy's int64 -> float64 promotion rounds), unsigned and 8-bit "
        "integer coordinates (the kernels' integer overflow is C02's D42) are outside the model and not generated",
        "several optimisers: object identity of acquisition objects / regressors is modelled by heap "
        "indices (Model.OptimiserWorld); a caller handing ONE acquisition instance to two optimisers "
        "is outside the theorem (hypothesis unshared_run) and is not generated",
    ]
    ax = (rep.coverage.get("proof_audit") or {}).get("axioms_used", [])
    return rep.finish(
        level="proof",
        checker_cmd="make -C /verif/coq (coqc 8.16.1) + coqc on coq/gen/C18/acq_*.v (coq-interval "
                    "integral/interval) + coq/gen/C18/{starts,add,tadd,world}_*.v (vm_compute)",
        trusted_base=C.KERNEL_TB + ["coq-interval 4.x reflexive evaluator (Uint63/Bignums primitives)",
                                    "axioms: " + (", ".join(ax) if ax else "none")],
        rule="EI/UCB/MaxVariance at random query points of real fitted GpRegressors (d = 1..3), EI "
             "incumbent steered so that z covers [-8, 8] with a cluster at -3 +- {0,1e-11,1e-7,1e-4,...} "
             "plus natural incumbents; starting_positions with scripted uniforms on boxes with data "
             "inside / on the edge / outside; all 30 propose/add words of length <= 4 (run as the 16 words of length 4, checked after every operation) x {bfgs, diffev} "
             "with ndarray (1-D, 2-D), list, view, row and proposal-object arguments; UpperConfidenceBound "
             "built with kappa omitted / 0.0 / int 0 / numpy 0.0 / positional / 1e-3 .. 16 (cycled, all in "
             "every run), EI with incumbent exactly 0.0; worlds of 2..3 optimisers alive in one process "
             "(default acquisition everywhere in four fixed interleavings, default / class / caller-made "
             "instance mixed in random ones, data maxima of exactly 0.0, propose with optimizer override), "
             "every optimiser observed after every operation; the objective in other units: regressors "
             "fitted to y-values of order {1e-11,1e-10,3e-10} / {1e-8,1e-6,1e-4} / {1e3,1e6} (one of each "
             "group per quick run, all of them in two dimensions each thorough) with tail / ordinary / natural incumbents, mixed "
             "worlds and typed lives cycling through y-scales 1e-11..1e6; lives with initial x as int64 / "
             "int32 / int16 arrays, lists / tuples of Python ints, float32 arrays (each twice per quick run), "
             "y as float64 / int64 / Python ints / float32, additions as float64 array / Python floats / "
             "tuple / numpy scalar / view / row / float32 array / Python ints / int64 array / proposal; "
             "distinct = distinct (kind, inputs)")


# ============================================================ replay
def replay(path):
    d = json.load(open(path))
    rp = d["replay"]
    case = rp.get("case")
    if not case:
        print("replay names a broken theorem / correspondence:", rp.get("theorem_or_correspondence"))
        return 1
    if case["kind"] == "acquisition":
        why = acq_oracle(case["record"])
        print("property failures:", why)
        return 1 if why else 0
    if case["kind"] == "sequence":
        res = run_sequence(case["cfg"])
        finds = sequence_findings(res)
        print("events:", json.dumps(C.jsonable(res.get("events")), indent=1)[:3000])
        print("property failures:", finds)
        return 1 if finds else 0
    if case["kind"] == "world":
        res = run_world(case["cfg"])
        finds = world_findings(res)
        for st in res["steps"]:
            print("event", st["k"], _ev_name(st["event"]), "->",
                  [{k: ob[k] for k in ("y", "acq_mu_max", "owner", "n", "shared_with")} for ob in st.get("obs", [])]
                  if "obs" in st else st.get("exception"))
        print("property failures:", finds)
        return 1 if finds else 0
    if case["kind"] == "starts":
        print("starting_positions case:", json.dumps(case["meta"], indent=1)[:3000])
        return 1
    return 1
