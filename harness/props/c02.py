"""C02 -- GP regression returns the exact Gaussian-process posterior.

Theorems: coq/theories/Properties/C02.v about Matrix/GpModel.v instantiated at
MathComp matrices (any realFieldType, any sizes).  Tie to the code (DESIGN 2.3):
for every generated configuration the real GpRegressor is constructed and
called on all three paths (__call__, build_posterior, build_posterior(mean_only));
the kernel matrices / mean vectors the implementation itself builds, the caller's
error data, the implementation's own Cholesky factor and every output are
written as exact rationals to coq/gen/C02/*.v, where the SAME model text,
instantiated at ListOps (list (list Q), verified Bareiss inverse), is evaluated
by vm_compute and compared entry by entry inside Coq (Matrix/GpCheck.v, eleven
obligations per case, tolerance 1e-7 * scale).

Conditioning: hyper-parameters are resampled until cond(K_xx + S) <= 1e4, so
that the double-precision Cholesky / triangular solves are accurate to
~1e-11 * scale and the 1e-7 tolerance never decides a correct run.

Kernel / mean values as functions of the COORDINATES (Properties/C02Kernel.v,
Proofs/GpTranslationProofs.v): the matrices K_xx, K_qx, K_qq and the vectors mu,
mu_q that the kernel / mean objects return INSIDE the regressor are compared,
entry by entry, with the real-valued models of covariance.py / mean.py
(gp_Kxx, gp_Kqx, gp_Kqq, gp_mu, gp_muq) by coq-interval goals in
coq/gen/C02/kgoals_*.v.  Two fifths of the configurations are run a second time
with a large common offset (2^10 .. 2^31, exact in double) added to every
training and query point (and to the change-point locations): data such as
time stamps or map coordinates, whose magnitude is huge compared with the
length-scales.  Theorem C02_gp_inputs_translation_invariant says the posterior
cannot change.

The caller's arguments (Properties/C02Inputs.v, Proofs/GpInputsProofs.v, Model/GpInputs.v):
GpRegressor.__init__ and process_points turn what the caller hands over -- scalar, flat
or 2-D; list, tuple or array; python ints / floats, numpy integers of any width, float32 --
into the coordinate rows at which the kernels are evaluated.  The model is polymorphic
in the entries (nothing is ever converted), evaluated by vm_compute on the exact values
(coq/gen/C02/inputs_0.v) and compared exactly with gp.n_dimensions, gp.x and
gp.process_points(points) of every case.  One fifth of the configurations is run a
further time on INTEGER-VALUED data (grid stride 1 .. 3.6e12: sample indices, pixel
numbers, seconds, nano-seconds; half of the wide dtypes with an offset as above) held
as int64 / int32 / int16 / int8 / uint8 / uint16 arrays or python ints, queried at
fractional positions held as float64, float32, python numbers or (integral ones) int64.
Theorem C02_inputs_depend_on_values_only says that the posterior is that of the same
numbers held as float64; the kernel / mean values the regressor uses are tied to the
exact coordinates by the coq-interval goals as for any case.

If anything disagrees, the property itself is evaluated on the implementation
(closed form in exact rationals from the implementation's own matrices,
variance bounds, training-order permutation, y_err versus diag y_cov, and -- for
offset data -- the closed form with the kernel matrices of the same data moved
back to the origin; the closed form with cross-covariances taken from
build_covariance on training + query points; for data held in another dtype the run on the
same numbers held as float64).
"""
from __future__ import annotations

import math
import warnings
from fractions import Fraction

import numpy as np

from lib import common as C
from lib import interval as I
from lib import matrix as MX

PROP = "C02"
THEOREMS = ["C02_mean_closed", "C02_cov_closed", "C02_closed_model",
            "C02_pointwise_eq_joint_diag", "C02_mean_only_eq_joint_mean",
            "C02_yerr_eq_ycov", "C02_train_perm_invariant", "C02_var_bounds",
            "C02_cov_sym", "C02_ycov_list_pinned_refuted", "C02_hetero_shape_pinned_refuted"]

# Properties/C02Kernel.v (stdlib Reals; audited as a second module)
KERNEL_THEOREMS = ["C02_base_kernels_stationary", "C02_sum_stationary", "C02_changepoint_translated",
                   "C02_sum_translated", "C02_means_stationary", "C02_gp_inputs_translation_invariant",
                   "C02_gp_inputs_translation_invariant_stationary"]

# Properties/GpRefinement.v: ListOps (what vm_compute runs) refines McOps rat (what the theorems are about)
REFINEMENT_THEOREMS = ["GpRefinement_q2r_morphism", "GpRefinement_repr_functional", "GpRefinement_repr_Qeq",
                       "GpRefinement_ListOps_is_instance", "GpRefinement_ops_mmul", "GpRefinement_ops_madd",
                       "GpRefinement_ops_mopp", "GpRefinement_ops_mtr", "GpRefinement_ops_mid", "GpRefinement_ops_mconst",
                       "GpRefinement_ops_mscal", "GpRefinement_ops_mhad", "GpRefinement_ops_mrecip", "GpRefinement_ops_mabs",
                       "GpRefinement_ops_mdiagv", "GpRefinement_ops_mdiagof", "GpRefinement_ops_msub", "GpRefinement_ops_msum",
                       "GpRefinement_ops_mtrace", "GpRefinement_ops_mhadsum", "GpRefinement_inverse",
                       "GpRefinement_inverse_failure", "GpRefinement_inverse_wf", "GpRefinement_posterior",
                       "GpRefinement_posterior_as_run", "GpRefinement_closed_forms", "GpRefinement_calculate_posterior",
                       "GpRefinement_inverse_checked", "GpRefinement_ListOps_mmul", "GpRefinement_ListOps_inverse",
                       "GpRefinement_ListOps_inverse_failure", "GpRefinement_ListOps_posterior",
                       "GpRefinement_ListOps_posterior_as_run"]

# Properties/C02Inputs.v: the caller's x / points -> coordinate rows (Model/GpInputs.v); the posterior
# depends on the real VALUES of the coordinates only, not on the dtype / container that holds them
INPUT_THEOREMS = ["C02_process_points_values", "C02_training_points_values", "C02_process_points_accepts",
                  "C02_normalisation_natural", "C02_inputs_depend_on_values_only",
                  "C02_query_cast_to_training_dtype_refuted", "C02_squared_distance_exact",
                  "C02_squared_distance_pinned_refuted", "C02_squared_distance_pinned_small"]

HEADER = MX.HEADER.format(mods="Matrix.GpModel Matrix.GpCheck")
INPUTS_HEADER = """From Coq Require Import List QArith.
From IT Require Import Model.GpInputs.
Import ListNotations.
Open Scope Q_scope.
"""
INPUT_OBLIGATIONS = {
    1: "GpRegressor.__init__: n_dimensions / the stored training coordinates differ from the caller's x "
       "(Model/GpInputs.v norm_x)",
    2: "process_points: the coordinate rows handed to the kernels differ from the caller's points "
       "(Model/GpInputs.v process_points)",
}
KCASES_HEADER = """From Coq Require Import Reals List.
From IT Require Import Model.Slices RealModel.Kernels RealModel.Means Proofs.GpTranslationProofs.
Import ListNotations.
Open Scope R_scope.
"""
KPREAMBLE = """From Coq Require Import Reals List.
From Interval Require Import Tactic.
From IT Require Import Model.Slices RealModel.Kernels RealModel.Means Proofs.GpTranslationProofs.
From ITGen Require Import C02.KCases.
Import ListNotations.
Open Scope R_scope.
Ltac kcbv := cbv -[Rplus Rminus Rmult Ropp Rdiv Rinv exp ln pow IZR Rabs Rle].
"""
EPS = 2.0 ** -52
MEAN_NP = {"const": lambda d: 1, "linear": lambda d: 1 + d, "quadratic": lambda d: 1 + 2 * d}

OBLIGATION_NAMES = {
    0: "model could not be evaluated (an inverse failed its run-time verification)",
    1: "self.L is not a lower-triangular factor of K_xx + S",
    2: "self.alpha differs from L^-T L^-1 (y - mu)",
    3: "__call__ mean differs from the model",
    4: "__call__ sigma^2 differs from the model",
    5: "build_posterior mean differs from the model",
    6: "build_posterior covariance differs from the model",
    7: "build_posterior(mean_only=True) differs from the model",
    8: "a mean output differs from the closed form m(q) + K_qx (K_xx+S)^-1 (y - m(x))",
    9: "a covariance output differs from the closed form K_qq - K_qx (K_xx+S)^-1 K_xq",
    10: "a predictive variance is outside [0, prior variance]",
}

KERNELS = [
    ["SE"], ["RQ"],
    ["sum", ["SE"], ["WN"]], ["sum", ["RQ"], ["WN"]],
    ["sum", ["SE"], ["RQ"]],
    ["sum", ["SE"], ["HN"]], ["sum", ["RQ"], ["HN"]],
    ["sum", ["SE"], ["SE"], ["WN"]],
    ["CP", [["SE"], ["SE"]], 0], ["CP", [["SE"], ["RQ"]], 0],
    ["sum", ["CP", [["SE"], ["RQ"], ["SE"]], 0], ["WN"]],
]
MEANS = ["const", "linear", "quadratic"]
ERRS = [("none", "array"), ("y_err", "array"), ("y_err", "list"), ("y_cov", "array"),
        ("y_cov", "list"), ("y_cov", "tuple"), ("y_cov_full", "array"), ("y_cov_full", "list")]
N_WEIGHTS = {2: 3, 3: 4, 4: 4, 5: 4, 6: 3, 7: 2, 8: 1}
COND_MAX = 1e4

# integer-valued data: the dtype / container holding the training coordinates, largest magnitude it
# can hold (2^53 where float64 has to hold the same numbers exactly) and the strides (distance
# between neighbouring grid positions) that are tried
# (float32 is left to the query points: numpy forms x.mean() of a float32 array in single precision, so the
# mean functions centre on a value that is 6e-8 off -- single-precision data, not a defect, but beyond the
# 1e-9 of the kernel / mean-value goals)
INT_DTYPES = ["int64", "int32", "pyint", "int16", "uint8", "uint16", "int8"]
DTYPE_RANGE = {"int64": (-2 ** 53, 2 ** 53), "pyint": (-2 ** 53, 2 ** 53), "int32": (-2 ** 31, 2 ** 31 - 1),
               "int16": (-2 ** 15, 2 ** 15 - 1), "uint16": (0, 2 ** 16 - 1), "int8": (-128, 127),
               "uint8": (0, 255)}
DTYPE_STRIDES = {"int64": [1, 1, 2, 10, 60, 1000, 86400, 10 ** 6, 10 ** 9, 3600 * 10 ** 9],
                 "pyint": [1, 1, 2, 10, 60, 1000, 86400, 10 ** 6, 10 ** 9, 3600 * 10 ** 9],
                 "int32": [1, 1, 2, 10, 60, 1000, 86400, 10 ** 6, 10 ** 8],
                 "int16": [1, 2, 10, 60, 1000, 2000], "uint16": [1, 10, 100, 4000],
                 "int8": [1, 2, 4, 7], "uint8": [1, 2, 8, 15]}
INT_GRID = 16          # training coordinates are stride * (0 .. INT_GRID)


def GP():
    from inference.gp import GpRegressor
    return GpRegressor


# ---------------------------------------------------------------- generation
def grid(r, lo, hi, q=64):
    return r.randint(int(lo * q), int(hi * q)) / q


def gen_points(r, case):
    n, d, b = case["n"], case["d"], case["b"]
    x = np.array(MX.unhex(case["x"], (n, d)))
    unit = case.get("unit") or 1.0      # integer-valued data: coordinate units per unit of the standard grid
    pts = []
    for _ in range(b):
        u = r.random()
        if u < 0.2:                       # exactly a training point
            pts.append(list(x[r.randrange(n)]))
        elif u < 0.3:                     # far outside the data
            pts.append([grid(r, 6, 9) * unit for _ in range(d)])
        else:
            pts.append([grid(r, -0.5, 4.5) * unit for _ in range(d)])
    return np.array(pts, dtype=float)


def rescale_hyperpars(case, hp, unit, lenfac):
    """Hyper-parameters drawn for data in [0,4]^d expressed in the units of data in [0, 4*unit]^d:
    length-scales and change-point widths times lenfac, change-point locations times unit, slopes of
    the mean function divided by unit, curvatures by unit^2."""
    n, d = case["n"], case["d"]
    hp = list(hp)
    m = MEAN_NP[case["mean"]](d)
    _, scales, cps = kernel_layout(case["kernel"], n, d)
    for idx, _k in scales:
        hp[m + idx] += math.log(lenfac)
    for loc, w, _ax in cps:
        hp[m + loc] *= unit
        hp[m + w] *= lenfac
    if case["mean"] in ("linear", "quadratic"):
        for j in range(1, 1 + d):
            hp[j] /= unit
    if case["mean"] == "quadratic":
        for j in range(1 + d, 1 + 2 * d):
            hp[j] /= unit ** 2
    return hp


def gen_case(r, k, tier, ints=None):
    """Configuration k.  The (kernel, mean, error-kind) grid is walked
    systematically so that every combination of kernel x mean and every error
    kind occurs; everything else is random.
    ints = {"dtype": .., "stride": s}: INTEGER-VALUED training coordinates s * (0 .. 16) per axis
    (sample indices, pixel numbers, time stamps), to be held in that dtype; query points on the
    s/16 grid; the hyper-parameters are those of the standard case in the units of the data."""
    unit = 1.0 if ints is None else 4.0 * ints["stride"]
    lenfac = unit
    kern = KERNELS[k % len(KERNELS)]
    mean = MEANS[(k // len(KERNELS)) % len(MEANS)]
    err_kind, container = ERRS[(k + k // (len(KERNELS) * len(MEANS))) % len(ERRS)]
    ns = [n for n, w in N_WEIGHTS.items() for _ in range(w) if ints is None or n <= 6]
    n = r.choice(ns)
    d = r.choice([1, 1, 2, 2, 3])
    if MX.kernel_has(kern, "CP") and n < 3:
        n = 3
    b = r.randint(1, 5)
    # training inputs: distinct points of a 1/64 grid in [0,4]^d, well separated in 1-D
    while True:
        if ints is None:
            x = np.array([[grid(r, 0, 4) for _ in range(d)] for _ in range(n)], dtype=float)
        else:
            x = np.array([[float(ints["stride"] * r.randint(0, INT_GRID)) for _ in range(d)] for _ in range(n)])
        dist = min(np.abs(x[i] - x[j]).max() for i in range(n) for j in range(i))
        if dist >= 0.25 * unit:
            break
    y = np.array([grid(r, -3, 3, 256) for _ in range(n)], dtype=float)
    case = {"n": n, "d": d, "b": b, "x": MX.hexlist(x), "y": MX.hexlist(y),
            "kernel": kern, "mean": mean,
            "x_form": r.choice(["2d", "2d", "list"] + (["1d"] if d == 1 else [])),
            "p_form": r.choice(["2d", "2d", "list"] + (["1d"] if d == 1 else []))}
    if ints is not None:
        case.update(x_dtype=ints["dtype"], unit=unit)
    case["points"] = MX.hexlist(gen_points(r, case))
    # error data
    e = np.array([grid(r, 0.15, 0.7, 256) for _ in range(n)], dtype=float)
    if err_kind == "none":
        err = {"kind": "none", "container": "array", "values": []}
    elif err_kind == "y_err":
        err = {"kind": "y_err", "container": container, "values": MX.hexlist(e)}
    elif err_kind == "y_cov":
        err = {"kind": "y_cov", "container": container, "values": MX.hexlist(np.diag(e ** 2)),
               "diag_of_y_err": MX.hexlist(e)}
    else:   # full SPD covariance: diag + B B^T with dyadic B (exactly symmetric in double)
        B = np.array([[grid(r, -0.4, 0.4, 16) for _ in range(2)] for _ in range(n)], dtype=float)
        cov = np.diag(e ** 2) + B @ B.T
        cov = (cov + cov.T) / 2
        err = {"kind": "y_cov", "container": container, "values": MX.hexlist(cov)}
    case["err"] = err
    # hyper-parameters: resample until the data covariance is well conditioned
    for attempt in range(200):
        noise_lo = 0.15 if attempt < 100 else 0.4
        hp = MX.mean_hyperpars(r, mean, d) + MX.kernel_hyperpars(r, kern, n, d, noise_lo=noise_lo)
        if ints is not None:
            hp = rescale_hyperpars(case, hp, unit, lenfac)
        case["hyperpars"] = MX.hexlist(hp)
        A = data_cov_float(case)
        if A is not None and np.all(np.isfinite(A)) and np.linalg.cond(A) <= COND_MAX:
            case["cond"] = float(np.linalg.cond(A))
            if r.random() < 0.35:      # reach the final hyper-parameters through set_hyperparameters
                fh = MX.mean_hyperpars(r, mean, d) + MX.kernel_hyperpars(r, kern, n, d, noise_lo=0.4)
                if ints is not None:
                    fh = rescale_hyperpars(case, fh, unit, lenfac)
                case["first_hyperpars"] = MX.hexlist(fh)
            return case
        if attempt % 20 == 19:      # shorter length scales help when there is no noise term
            if ints is not None:    # (the integer grid stays: the length-scales shrink instead)
                lenfac /= 1.5
                continue
            x = x * 1.5
            case["x"] = MX.hexlist(x)
            case["points"] = MX.hexlist(gen_points(r, case))
    raise RuntimeError("could not condition a case")


def fits_dtype(case):
    """All training coordinates are integers that the case's x_dtype holds exactly."""
    dt = case.get("x_dtype")
    if not dt:
        return True
    lo, hi = DTYPE_RANGE[dt]
    x = MX.unhex(case["x"])
    return all(float(v).is_integer() and lo <= v <= hi for v in x)


def choose_point_repr(r, case):
    """How the query points of an integer-data case are handed over: container (p_form) and number
    type (p_dtype; None = float64 as everywhere else)."""
    b, d = case["b"], case["d"]
    p = MX.unhex(case["points"])
    if b == 1 and r.random() < 0.6:
        case["p_form"] = "scalar" if d == 1 else "point"
    kinds = [None, None, None, "pymixed", "pymixed"]
    if all(float(np.float32(v)) == v for v in p):
        kinds.append("float32")
    if all(float(v).is_integer() for v in p):
        kinds += ["int64", "int64"]
    case["p_dtype"] = r.choice(kinds)
    if case["p_dtype"] == "pymixed":
        # a python list whose FIRST numbers are ints and later ones floats: an integral point goes first
        rows = p.reshape(b, d)
        first = next((i for i in range(b) if all(float(v).is_integer() for v in rows[i])), None)
        if first:
            rows[[0, first]] = rows[[first, 0]]
            case["points"] = MX.hexlist(rows)
    return case


def gen_int_case(r, k, j, tier):
    """The j-th integer-data case: configuration k of the grid, training coordinates held in
    INT_DTYPES[j % 7]; half of those whose dtype is wide enough also carry a large offset."""
    dt = INT_DTYPES[j % len(INT_DTYPES)]
    for _ in range(20):
        stride = r.choice(DTYPE_STRIDES[dt])
        try:
            case = gen_case(r, k, tier, ints={"dtype": dt, "stride": stride})
        except RuntimeError:          # could not be conditioned: other data
            continue
        assert fits_dtype(case)
        choose_point_repr(r, case)
        if dt in ("int64", "int32", "pyint") and r.random() < 0.5:
            tc = gen_shift(r, case, emax=29 if dt == "int32" else 30)
            if tc is not None:
                return choose_point_repr(r, tc)      # (integral / float32-exact may have changed)
        return case
    raise RuntimeError("could not generate an integer-data case")


def err_arrays(case):
    """(y_err, y_cov) as NumPy arrays (one of them None)."""
    n = case["n"]
    e = case["err"]
    if e["kind"] == "none":
        return None, None
    if e["kind"] == "y_err":
        return MX.unhex(e["values"]), None
    return None, MX.unhex(e["values"], (n, n))


def data_cov_float(case):
    """K_xx + S computed from the kernel object alone (no GpRegressor), only to
    condition the inputs."""
    n, d = case["n"], case["d"]
    x = MX.unhex(case["x"], (n, d))
    hp = MX.unhex(case["hyperpars"])
    cov = MX.make_kernel(case["kernel"])
    mean = MX.make_mean(case["mean"])
    cov.pass_spatial_data(x)
    mean.pass_spatial_data(x)
    K = cov.build_covariance(hp[mean.n_params:])
    ye, yc = err_arrays(case)
    if ye is not None:
        K = K + np.diag(ye ** 2)
    if yc is not None:
        K = K + yc
    return K


def contain(a, container):
    if container == "array":
        return a
    if container == "list":
        return a.tolist()

    def tup(v):
        return tuple(tup(u) for u in v) if isinstance(v, list) else v
    return tup(a.tolist())


# ---------------------------------------------------------------- offset data (translations)
def kernel_layout(spec, n, d, off=0):
    """Walks the flat covariance hyper-parameter vector of `spec` (same order as
    MX.kernel_hyperpars / the model's ksum, kcp).  Returns (n_params, scales, cps):
    scales = [(index of ln l_k, k)] for every SE / RQ length-scale, cps = [(index of the
    location, index of the width, axis)] for every change-point."""
    k = spec[0]
    if k == "SE":
        return d + 1, [(off + 1 + j, j) for j in range(d)], []
    if k == "RQ":
        return d + 2, [(off + 2 + j, j) for j in range(d)], []
    if k == "WN":
        return 1, [], []
    if k == "HN":
        return n, [], []
    subs = spec[1:] if k == "sum" else spec[1]
    tot, scales, cps = 0, [], []
    for s in subs:
        m, sc, cp = kernel_layout(s, n, d, off + tot)
        tot += m
        scales += sc
        cps += cp
    if k == "CP":
        for _ in range(len(subs) - 1):
            cps.append((off + tot, off + tot + 1, spec[2]))
            tot += 2
    return tot, scales, cps


def _moved(a, c, sign, what):
    """a + sign*c row by row, asserting that the double result is the exact sum."""
    out = np.array(a, dtype=float) + sign * np.array(c, dtype=float)[None, :]
    for row, orow in zip(np.asarray(a, dtype=float), out):
        for v, w, ck in zip(row, orow, c):
            assert C.frac(w) == C.frac(v) + sign * int(ck), f"translation of {what} is not exact"
    return out


def _move_locations(case, hexhp, c, sign, exact):
    n, d = case["n"], case["d"]
    hp = list(MX.unhex(hexhp))
    m = MEAN_NP[case["mean"]](d)
    for loc, _, ax in kernel_layout(case["kernel"], n, d)[2]:
        new = hp[m + loc] + sign * float(c[ax])
        if exact:
            assert C.frac(new) == C.frac(hp[m + loc]) + sign * int(c[ax]), "change-point location not exact"
        hp[m + loc] = new
    return MX.hexlist(hp)


def translate(case, c):
    """The same configuration with the integer vector c added to every training and
    query point (exactly) and to every change-point location (rounded to double; the
    origin counterpart `origin_case` subtracts c again, which is exact)."""
    n, d, b = case["n"], case["d"], case["b"]
    out = dict(case)
    out["x"] = MX.hexlist(_moved(MX.unhex(case["x"], (n, d)), c, +1, "x"))
    out["points"] = MX.hexlist(_moved(MX.unhex(case["points"], (b, d)), c, +1, "points"))
    out["hyperpars"] = _move_locations(case, case["hyperpars"], c, +1, False)
    if case.get("first_hyperpars"):
        out["first_hyperpars"] = _move_locations(case, case["first_hyperpars"], c, +1, False)
    out["shift"] = [int(v) for v in c]
    origin_case(out)          # asserts that the way back is exact
    return out


def origin_case(case):
    """The configuration of which `case` is the translate by case['shift']."""
    c = case.get("shift")
    if not c:
        return case
    n, d, b = case["n"], case["d"], case["b"]
    out = dict(case)
    out["x"] = MX.hexlist(_moved(MX.unhex(case["x"], (n, d)), c, -1, "x"))
    out["points"] = MX.hexlist(_moved(MX.unhex(case["points"], (b, d)), c, -1, "points"))
    out["hyperpars"] = _move_locations(case, case["hyperpars"], c, -1, True)
    if case.get("first_hyperpars"):
        out["first_hyperpars"] = _move_locations(case, case["first_hyperpars"], c, -1, False)
    out["shift"] = None
    return out


def gen_shift(r, case, emax=30):
    """Integer offsets  +-[2^e, 2^(e+1)),  e in 10..30, independently per coordinate.  (Data held in
    an integer dtype: redrawn until the dtype holds the translated coordinates; None if it never does.)"""
    for _ in range(200):
        c = []
        for _ in range(case["d"]):
            e = r.randint(10, emax)
            c.append(r.choice([1, 1, -1]) * r.randint(1 << e, (2 << e) - 1))
        try:
            tc = translate(case, c)
        except AssertionError:      # more than 53 bits needed: draw again
            continue
        if fits_dtype(tc):
            return tc
    return None


def cov_hyperpars(case):
    """The covariance part of the caller's hyper-parameter vector."""
    return MX.unhex(case["hyperpars"])[MEAN_NP[case["mean"]](case["d"]):]


def rel_allowance(case, u, v):
    """Relative error of one kernel value k(u, v) that round-off of the order of one ulp
    of the COORDINATES may cause (any implementation that forms u/l, v/l or
    (x - location)/width in double has it); 16x margin.  Negligible (<1e-11) near the
    origin, ~1e-8 at offsets of 2^20 -- a kernel evaluated through |u|^2 + |v|^2 - 2u.v
    is wrong by eps*(|u|/l)^2, i.e. |u| / (16 |u - v|) times more."""
    n, d = case["n"], case["d"]
    th = cov_hyperpars(case)
    _, scales, cps = kernel_layout(case["kernel"], n, d)
    lmin = [min([math.exp(th[idx]) for idx, k in scales if k == j], default=math.inf) for j in range(d)]
    r = sum((abs(u[j]) + abs(v[j])) * abs(u[j] - v[j]) / lmin[j] ** 2 for j in range(d))
    for _, w, ax in cps:
        r += (abs(u[ax]) + abs(v[ax])) / abs(th[w])
    return 16 * EPS * r


# ---------------------------------------------------------------- running the code
def held(a, dtype, form):
    """The (rows x d) float64 array `a` as the caller holds it: `dtype` None (float64), a numpy dtype
    name, 'pyint' (python ints) or 'pymixed' (python ints where integral, python floats elsewhere);
    `form` '2d', 'list' (list of rows), '1d' (flat), 'scalar' (one number), 'point' (one flat point).
    The conversion must be exact: these are the SAME real numbers."""
    a = np.asarray(a, dtype=float)
    if dtype in ("pyint", "pymixed"):
        def num(v):
            if dtype == "pyint" or float(v).is_integer():
                assert float(v).is_integer()
                return int(v)
            return float(v)
        rows = [[num(v) for v in row] for row in a]
        if form == "scalar":
            return rows[0][0]
        if form == "point":
            return rows[0]
        if form == "1d":
            return [v for row in rows for v in row]
        return rows
    if dtype:
        t = a.astype(getattr(np, dtype))
        assert np.array_equal(t.astype(float), a), f"{dtype} does not hold the coordinates exactly"
        a = t
    if form == "scalar":
        return a[0, 0]
    if form == "point":
        return a[0]
    if form == "1d":
        return a.reshape(-1)
    if form == "list":
        return [row for row in a]
    return a


def arg_q(a, form):
    """The Coq `arg Q` literal (Model/GpInputs.v) of the same argument: shape and exact values."""
    a = np.asarray(a, dtype=float)
    row = lambda rw: "[" + "; ".join(C.cq(v) for v in rw) + "]"
    if form == "scalar":
        return f"A0 {C.cq(a[0, 0])}"
    if form == "point":
        return f"A1 {row(a[0])}"
    if form == "1d":
        return f"A1 {row(a.reshape(-1))}"
    return "A2 [" + "; ".join(row(rw) for rw in a) + "]"


def exact_rows(arr):
    """A 2-D array returned by the implementation as rows of exact Fractions (integer dtypes through
    int, never through float)."""
    arr = np.asarray(arr)
    if arr.ndim != 2:
        raise ValueError(f"expected a 2-D array, got shape {arr.shape}")
    return [[C.frac(v) for v in row.tolist()] for row in arr]


def build(case):
    n, d = case["n"], case["d"]
    x = MX.unhex(case["x"], (n, d))
    y = MX.unhex(case["y"])
    xin = held(x, case.get("x_dtype"), case["x_form"])
    ye, yc = err_arrays(case)
    kw = {}
    if ye is not None:
        kw["y_err"] = contain(ye, case["err"]["container"])
    if yc is not None:
        kw["y_cov"] = contain(yc, case["err"]["container"])
    hp = MX.unhex(case["hyperpars"])
    if case.get("first_hyperpars"):
        # construct with other hyper-parameters, then move to the intended ones:
        # everything cached by set_hyperparameters (K_xx, mu, L, alpha) must follow
        # history dimension: ONE array object carries the hyper-parameters; it is handed to the
        # constructor with the first values and later overwritten IN PLACE with the intended ones
        # (a hyper-parameter scan) -- the regressor must follow the values, not the object
        buf = np.array(MX.unhex(case["first_hyperpars"]), dtype=float)
        gp = GP()(xin, y, hyperpars=buf,
                  kernel=MX.make_kernel(case["kernel"]), mean=MX.make_mean(case["mean"]), **kw)
        # use every path once under the first hyper-parameters, so that anything a
        # path caches on first use is stale afterwards
        parg, _ = query_arg(case)
        gp(parg)
        gp.build_posterior(parg)
        gp.build_posterior(parg, mean_only=True)
        buf[:] = np.asarray(hp, dtype=float)
        gp.set_hyperparameters(buf)
        return gp
    return GP()(xin, y, hyperpars=hp,
                kernel=MX.make_kernel(case["kernel"]), mean=MX.make_mean(case["mean"]), **kw)


def query_arg(case):
    b, d = case["b"], case["d"]
    p = MX.unhex(case["points"], (b, d))
    if case.get("p_dtype") or case["p_form"] in ("scalar", "point"):
        return held(p, case.get("p_dtype"), case["p_form"]), p
    if case["p_form"] == "1d":
        return p.reshape(-1), p
    if case["p_form"] == "list":
        return [list(row) for row in p], p
    return p, p


def run_impl(case):
    """Construct the regressor, call all three paths, read back the matrices the
    implementation builds.  status 'ok' or the stage that raised."""
    out = {"status": "ok"}
    stage = "constructor"
    try:
        with warnings.catch_warnings():
            warnings.simplefilter("ignore")
            gp = build(case)
            parg, p = query_arg(case)
            stage = "__call__"
            cm, cs = gp(parg)
            stage = "build_posterior"
            jm, jc = gp.build_posterior(parg)
            stage = "build_posterior(mean_only=True)"
            mo = gp.build_posterior(parg, mean_only=True)
            stage = "process_points"
            out.update(n_dims=int(gp.n_dimensions), x_obs=exact_rows(gp.x),
                       p_obs=exact_rows(gp.process_points(parg)))
            stage = "reading the kernel matrices"
            chp, mhp = gp.cov_hyperpars, gp.mean_hyperpars
            out.update(
                K_xx=np.array(gp.cov.build_covariance(chp), dtype=float),
                mu=np.array(gp.mean.build_mean(mhp), dtype=float).reshape(-1),
                L=np.array(gp.L, dtype=float), alpha=np.array(gp.alpha, dtype=float).reshape(-1),
                y=np.array(gp.y, dtype=float).reshape(-1),
                K_qx=np.array(gp.cov(p, gp.x, chp), dtype=float),
                K_qq=np.array(gp.cov(p, p, chp), dtype=float),
                kqq_pt=np.array([gp.cov(q[None, :], q[None, :], chp)[0, 0] for q in p], dtype=float),
                muq=np.array([float(gp.mean(q, mhp)) for q in p], dtype=float),
                call_mean=np.array(cm, dtype=float).reshape(-1),
                call_sig=np.array(cs, dtype=float).reshape(-1),
                post_mean=np.array(jm, dtype=float).reshape(-1),
                post_cov=np.array(jc, dtype=float),
                mean_only=np.array(mo, dtype=float).reshape(-1))
    except Exception as e:  # the documented interface accepts every generated input
        return {"status": "exception", "stage": stage, "error": f"{type(e).__name__}: {e}"}
    n, b = case["n"], case["b"]
    shapes = {"K_xx": (n, n), "L": (n, n), "K_qx": (b, n), "K_qq": (b, b), "post_cov": (b, b),
              "mu": (n,), "alpha": (n,), "y": (n,), "kqq_pt": (b,), "muq": (b,), "call_mean": (b,),
              "call_sig": (b,), "post_mean": (b,), "mean_only": (b,)}
    for k, s in shapes.items():
        if out[k].shape != s:
            return {"status": "shape", "stage": k, "error": f"{k} has shape {out[k].shape}, expected {s}"}
        if not np.all(np.isfinite(out[k])):
            return {"status": "nonfinite", "stage": k, "error": f"{k} is not finite"}
    return out


def tolerances(case, out):
    n = case["n"]
    ye, yc = err_arrays(case)
    A = out["K_xx"] + (np.diag(ye ** 2) if ye is not None else 0) + (yc if yc is not None else 0)
    amax = float(np.abs(out["alpha"]).max())
    sm = max(float(np.abs(out["y"]).max()), float(np.abs(out["mu"]).max()), float(np.abs(out["muq"]).max()),
             n * float(np.abs(out["K_qx"]).max()) * amax, 1e-6)
    sv = max(float(np.abs(out["K_qq"]).max()), float(np.abs(np.diag(out["K_xx"])).max()), 1e-6)
    return {"f": 1e-12 * float(np.abs(A).max()), "a": 1e-7 * max(amax, 1e-6), "m": 1e-7 * sm, "v": 1e-7 * sv}


# ---------------------------------------------------------------- Coq side
def coq_case(case, out):
    t = tolerances(case, out)
    ye, yc = err_arrays(case)
    if ye is not None:
        err = f"ErrStd {MX.qvec(ye)}"
    elif yc is not None:
        err = f"ErrCov {MX.qmat(yc)}"
    else:
        err = "ErrNone"
    f = [
        ("g_n", C.cnat(case["n"])), ("g_b", C.cnat(case["b"])),
        ("g_Kxx", MX.qmat(out["K_xx"])), ("g_err", err),
        ("g_y", MX.qvec(out["y"])), ("g_mu", MX.qvec(out["mu"])),
        ("g_L", MX.qmat(out["L"])),
        ("g_Kqx", MX.qmat(out["K_qx"])), ("g_Kqq", MX.qmat(out["K_qq"])),
        ("g_kqq_pt", MX.qvec(out["kqq_pt"])), ("g_muq", MX.qvec(out["muq"])),
        ("o_alpha", MX.qvec(out["alpha"])),
        ("o_call_mean", MX.qvec(out["call_mean"])), ("o_call_sig", MX.qvec(out["call_sig"])),
        ("o_post_mean", MX.qvec(out["post_mean"])), ("o_post_cov", MX.qmat(out["post_cov"])),
        ("o_mean_only", MX.qvec(out["mean_only"])),
        ("t_f", MX.qtol(t["f"])), ("t_a", MX.qtol(t["a"])), ("t_m", MX.qtol(t["m"])), ("t_v", MX.qtol(t["v"])),
    ]
    return "{| " + ";\n   ".join(f"{k} := {v}" for k, v in f) + " |}"


# ---------------------------------------------------------------- Coq side: the caller's arguments -> coordinate rows
def coq_input_case(case, out):
    n, d, b = case["n"], case["d"], case["b"]
    x = MX.unhex(case["x"], (n, d))
    p = MX.unhex(case["points"], (b, d))
    rows = lambda rs: "[" + "; ".join("[" + "; ".join(C.cq(v) for v in rw) + "]" for rw in rs) + "]"
    f = [("ic_n", C.cnat(n)), ("ic_xarg", arg_q(x, case["x_form"])), ("ic_parg", arg_q(p, case["p_form"])),
         ("ic_d", C.cnat(out["n_dims"])), ("ic_x", rows(out["x_obs"])), ("ic_p", rows(out["p_obs"]))]
    return "{| " + ";\n   ".join(f"{k} := {v}" for k, v in f) + " |}"


def input_normalisation(rep, cases, outs, ok_idx, suspicious):
    """Model/GpInputs.v evaluated inside Coq on the exact values of what the caller handed over against
    the exact values of gp.n_dimensions, gp.x and gp.process_points(points); returns {case: [obligations]}."""
    fail = {}
    if not ok_idx:
        return fail
    body = ("Definition cases : list input_case :=\n [" +
            ";\n  ".join(coq_input_case(cases[k], outs[k]) for k in ok_idx) + "].")
    path = C.write_case_file(PROP, "inputs_0", INPUTS_HEADER, body, ["failing_inputs cases"])
    ok, res, log = C.run_case_file(path, 900)
    if not ok or 0 not in res:
        rep.obligation(False, 2 * len(ok_idx))
        rep.violation("C02/correspondence-run", f"case file {path.name} did not evaluate",
                      {"theorem_or_correspondence": f"correspondence file {path.name}", "log": log}, False)
        return fail
    for j, obs in MX.decode_failures(res[0]).items():
        fail[ok_idx[j]] = obs
    nfail = sum(len(v) for v in fail.values())
    rep.obligation(True, 2 * len(ok_idx) - nfail)
    rep.obligation(False, nfail)
    for k, obs in fail.items():
        suspicious[k] = ((suspicious[k] + "; " if k in suspicious else "")
                         + "; ".join(INPUT_OBLIGATIONS[o] for o in obs))
    rep.coverage["input_normalisation_cases"] = len(ok_idx)
    return fail


# ---------------------------------------------------------------- Coq side: kernel / mean values from the coordinates
def coq_kernel(spec, n, d):
    k = spec[0]
    if k == "SE":
        return f"se {d}"
    if k == "RQ":
        return f"rq {d}"
    if k == "WN":
        return "wn"
    if k == "HN":
        return f"hn {n}"
    if k == "sum":
        return "ksum [" + "; ".join(coq_kernel(s, n, d) for s in spec[1:]) + "]"
    return f"kcp {spec[2]} [" + "; ".join(coq_kernel(s, n, d) for s in spec[1]) + "]"


def kcase_defs(case, k):
    n, d, b = case["n"], case["d"], case["b"]
    x = MX.unhex(case["x"], (n, d))
    p = MX.unhex(case["points"], (b, d))
    hp = MX.unhex(case["hyperpars"])
    m = MEAN_NP[case["mean"]](d)
    pts = lambda a: "[" + "; ".join("[" + "; ".join(C.cR(v) for v in row) + "]" for row in a) + "]"
    mean = {"const": "const_mean", "linear": f"lin_mean {d}", "quadratic": f"quad_mean {d}"}[case["mean"]]
    return "\n".join([
        f"Definition K_{k} : kernel := {coq_kernel(case['kernel'], n, d)}.",
        f"Definition M_{k} : meanfn := {mean}.",
        f"Definition xs_{k} : list pt := {pts(x)}.",
        f"Definition qs_{k} : list pt := {pts(p)}.",
        f"Definition th_{k} : list R := [" + "; ".join(C.cR(t) for t in hp[m:]) + "].",
        f"Definition mth_{k} : list R := [" + "; ".join(C.cR(t) for t in hp[:m]) + "].",
    ])


def mean_allowance(case):
    """Absolute error of a mean-function value that an error of one ulp of the coordinates
    in the centre x.mean() may cause (16x margin); zero for ConstantMean."""
    n, d, b = case["n"], case["d"], case["b"]
    if case["mean"] == "const":
        return 0.0
    x = MX.unhex(case["x"], (n, d))
    p = MX.unhex(case["points"], (b, d))
    hp = MX.unhex(case["hyperpars"])
    xm = x.mean(axis=0)
    cmax = np.abs(np.vstack([x, p])).max(axis=0)
    span = np.abs(np.vstack([x, p]) - xm[None, :]).max(axis=0)
    g = np.abs(hp[1:1 + d])
    h = np.abs(hp[1 + d:1 + 2 * d]) if case["mean"] == "quadratic" else np.zeros(d)
    return float(16 * EPS * (cmax * (g + 2 * h * span)).sum())


def kernel_goals(case, out, k, r, budget):
    """coq-interval goals: the kernel / mean values the regressor's own objects return
    equal the real-valued models evaluated at the exact coordinates and hyper-parameters."""
    n, d, b = case["n"], case["d"], case["b"]
    x = MX.unhex(case["x"], (n, d))
    p = MX.unhex(case["points"], (b, d))
    scale = float(np.abs(out["K_xx"]).max())
    goals = []

    def add(kind, term, obs, rel, absolute, meta):
        tol = C.frac(float(rel) * abs(float(obs)) + float(absolute))      # one double: short literals
        gid = f"k{k}_{kind}_{len(goals)}"
        goals.append((gid, I.goal_abs_close(term, obs, tol), dict(meta, kind=kind, case=k, obs=float(obs))))

    def pick(ents, m):
        return ents if len(ents) <= m else r.sample(ents, m)

    ka = 1e-11 * scale
    for (a, j) in pick([(a, j) for a in range(b) for j in range(n)], budget["Kqx"]):
        add("Kqx", f"gp_Kqx K_{k} xs_{k} qs_{k} th_{k} {a} {j}", out["K_qx"][a, j],
            1e-9 + rel_allowance(case, p[a], x[j]), ka, {"a": a, "j": j})
    for (a, c) in pick([(a, c) for a in range(b) for c in range(a, b)], budget["Kqq"]):
        add("Kqq", f"gp_Kqq K_{k} qs_{k} th_{k} {a} {c}", out["K_qq"][a, c],
            1e-9 + rel_allowance(case, p[a], p[c]), ka, {"a": a, "b": c})
    for a in pick(list(range(b)), budget["kqq_pt"]):
        add("kqq_pt", f"gp_Kqq K_{k} qs_{k} th_{k} {a} {a}", out["kqq_pt"][a],
            1e-9 + rel_allowance(case, p[a], p[a]), ka, {"a": a})
    for (i, j) in pick([(i, j) for i in range(n) for j in range(i, n)], budget["Kxx"]):
        add("Kxx", f"gp_Kxx K_{k} xs_{k} th_{k} {i} {j}", out["K_xx"][i, j],
            1e-9 + rel_allowance(case, x[i], x[j]), ka, {"i": i, "j": j})
    ms = max(float(np.abs(out["mu"]).max()), float(np.abs(out["muq"]).max()), 1e-6)
    ma = 1e-11 * ms + mean_allowance(case)
    for i in pick(list(range(n)), budget["mu"]):
        add("mu", f"gp_mu M_{k} xs_{k} mth_{k} {i}", out["mu"][i], 1e-9, ma, {"i": i})
    for a in pick(list(range(b)), budget["muq"]):
        add("muq", f"gp_muq M_{k} xs_{k} qs_{k} mth_{k} {a}", out["muq"][a], 1e-9, ma, {"a": a})
    return goals


# ---------------------------------------------------------------- the property, independently
def exact_posterior(case, out):
    """Closed form in exact rationals from the implementation's own matrices."""
    ye, yc = err_arrays(case)
    A = MX.fmat(out["K_xx"])
    n = case["n"]
    if ye is not None:
        for i in range(n):
            A[i][i] += C.frac(ye[i]) ** 2
    if yc is not None:
        A = MX.f_add(A, MX.fmat(yc))
    Kqx = MX.fmat(out["K_qx"])
    r = MX.f_sub(MX.fmat(out["y"]), MX.fmat(out["mu"]))
    mean = MX.f_add(MX.fmat(out["muq"]), MX.f_mul(Kqx, MX.f_solve(A, r)))
    cov = MX.f_sub(MX.fmat(out["K_qq"]), MX.f_mul(Kqx, MX.f_solve(A, MX.f_tr(Kqx))))
    return mean, cov


def oracle(case, out, extra_m=0.0, extra_v=0.0):
    """Evaluate C02 itself on the implementation's outputs; list of failures."""
    bad = []
    t = tolerances(case, out)
    t = dict(t, m=t["m"] + extra_m, v=t["v"] + extra_v)
    tm, tv = Fraction(t["m"]), Fraction(t["v"])
    mean, cov = exact_posterior(case, out)
    for name in ("call_mean", "post_mean", "mean_only"):
        dmax = MX.f_max_abs_diff(mean, out[name])
        if dmax > tm:
            bad.append(f"{name} differs from the closed-form posterior mean by {float(dmax):.3e} (tol {t['m']:.1e})")
    dmax = MX.f_max_abs_diff(cov, out["post_cov"])
    if dmax > tv:
        bad.append(f"build_posterior covariance differs from the closed form by {float(dmax):.3e} (tol {t['v']:.1e})")
    var = [[cov[i][i]] for i in range(case["b"])]
    dmax = MX.f_max_abs_diff(var, out["call_sig"] ** 2)
    if dmax > tv:
        bad.append(f"__call__ variance differs from the closed form by {float(dmax):.3e} (tol {t['v']:.1e})")
    for i in range(case["b"]):
        s2 = float(out["call_sig"][i]) ** 2
        if s2 > out["kqq_pt"][i] + t["v"]:
            bad.append(f"predictive variance {s2} exceeds the prior variance {out['kqq_pt'][i]}")
        if out["post_cov"][i, i] < -t["v"]:
            bad.append(f"negative predictive variance {out['post_cov'][i, i]}")
    return bad


def translation_oracle(case, out):
    """Offset data: C02 with THE covariance function, whose matrices are -- by theorem
    C02_gp_inputs_translation_invariant -- those of the same data moved back to the
    origin.  The regressor is run on the origin counterpart, the kernel matrices its
    kernel object returns there replace the ones returned on the offset data, and the
    closed form (exact rationals) must reproduce what the regressor returned on the
    offset data.  Mean-function values are the offset run's own."""
    if not case.get("shift"):
        return []
    c0 = origin_case(case)
    o0 = run_impl(c0)
    if o0["status"] != "ok":
        return [f"data moved back to the origin by {case['shift']}: {o0.get('error')}"]
    n, d, b = case["n"], case["d"], case["b"]
    x = MX.unhex(case["x"], (n, d))
    p = MX.unhex(case["points"], (b, d))
    relq = max([rel_allowance(case, p[a], x[j]) for a in range(b) for j in range(n)]
               + [rel_allowance(case, p[a], p[c]) for a in range(b) for c in range(b)])
    relx = max(rel_allowance(case, x[i], x[j]) for i in range(n) for j in range(n))
    t = tolerances(case, out)
    bad = []
    amax = float(np.abs(o0["K_xx"]).max())
    dK = float(np.abs(out["K_xx"] - o0["K_xx"]).max())
    if dK > (1e-9 + relx) * amax:
        bad.append(f"K_xx changes by {dK:.3e} when training points are translated by {case['shift']}")
    # what coordinate-level round-off may do to the posterior (see rel_allowance): through K_qx / K_qq
    # directly, through K_xx amplified by the conditioning (cond <= 1e4 by construction)
    amp = 4 * relq + 2 * COND_MAX * dK / max(amax, 1e-300)
    hyb = dict(out, K_xx=o0["K_xx"], K_qx=o0["K_qx"], K_qq=o0["K_qq"], kqq_pt=o0["kqq_pt"])
    sm, sv = t["m"] / 1e-7, t["v"] / 1e-7
    for msg in oracle(case, hyb, extra_m=amp * sm, extra_v=amp * sv):
        bad.append(f"offset data (shift {case['shift']}), kernel matrices of the data moved back to the origin: " + msg)
    return bad


def builder_oracle(case, out):
    """C02 with the cross-covariances taken from the kernel's OTHER evaluation path: a fresh
    kernel object is given the training and query points together and build_covariance
    (differences pre-computed by pass_spatial_data) supplies K_qx and the off-diagonal of
    K_qq -- by C10_builder_eq_pairwise the same numbers as __call__, the documented diagonal
    terms aside.  The closed form with these must reproduce the regressor's outputs; this
    turns an inconsistency between __call__ and build_covariance into a failing input.
    (HeteroscedasticNoise has one parameter per training point: no joint matrix.)"""
    if MX.kernel_has(case["kernel"], "HN"):
        return []
    n, d, b = case["n"], case["d"], case["b"]
    x = MX.unhex(case["x"], (n, d))
    p = MX.unhex(case["points"], (b, d))
    try:
        with warnings.catch_warnings():
            warnings.simplefilter("ignore")
            cov = MX.make_kernel(case["kernel"])
            cov.pass_spatial_data(np.vstack([x, p]))
            J = np.array(cov.build_covariance(cov_hyperpars(case)), dtype=float)
    except Exception as e:
        return [f"build_covariance on training + query points: {type(e).__name__}: {e}"]
    if J.shape != (n + b, n + b) or not np.all(np.isfinite(J)):
        return ["build_covariance on training + query points: wrong shape / not finite"]
    Kqq = np.array(out["K_qq"], dtype=float)
    off = ~np.eye(b, dtype=bool)
    Kqq[off] = J[n:, n:][off]
    hyb = dict(out, K_qx=J[n:, :n], K_qq=Kqq)
    relq = max([rel_allowance(case, p[a], x[j]) for a in range(b) for j in range(n)]
               + [rel_allowance(case, p[a], p[c]) for a in range(b) for c in range(b)])
    t = tolerances(case, out)
    return ["cross-covariances from build_covariance on training + query points: " + m
            for m in oracle(case, hyb, extra_m=4 * relq * t["m"] / 1e-7, extra_v=4 * relq * t["v"] / 1e-7)]


def dtype_oracle(case, out):
    """C02 on the same real numbers held as float64 arrays (theorem C02_inputs_depend_on_values_only:
    the five inputs of the GP model, hence the posterior, depend on the values of the coordinates only)."""
    if not (case.get("x_dtype") or case.get("p_dtype")):
        return []
    twin = dict(case, x_dtype=None, p_dtype=None)
    o2 = run_impl(twin)
    what = (f"training coordinates held as {case.get('x_dtype') or 'float64'}, query points as "
            f"{case.get('p_dtype') or 'float64'}, against the same numbers held as float64")
    if o2["status"] != "ok":
        return [f"{what}: {o2.get('error')}"]
    t = tolerances(case, o2)
    bad = []
    for name, tol in (("call_mean", t["m"]), ("post_mean", t["m"]), ("mean_only", t["m"]), ("post_cov", t["v"])):
        dm = float(np.abs(o2[name] - out[name]).max())
        if dm > 10 * tol:
            bad.append(f"{what}: {name} differs by {dm:.3e} (tol {10 * tol:.1e})")
    dm = float(np.abs(o2["call_sig"] ** 2 - out["call_sig"] ** 2).max())
    if dm > 10 * t["v"]:
        bad.append(f"{what}: predictive variance differs by {dm:.3e} (tol {10 * t['v']:.1e})")
    # ... and the float64 twin itself must be the closed-form posterior
    bad += [f"{what}; the float64 run: " + m for m in oracle(twin, o2)]
    return bad


def metamorphic(case, out, r):
    """Training-order permutation and y_err <-> diag(y_err^2) on the real code."""
    bad = []
    t = tolerances(case, out)
    n, d = case["n"], case["d"]

    def differs(o2, what):
        if o2["status"] != "ok":
            bad.append(f"{what}: {o2.get('error')}")
            return
        for name, tol in (("call_mean", t["m"]), ("post_mean", t["m"]), ("mean_only", t["m"]),
                          ("post_cov", t["v"])):
            dm = float(np.abs(o2[name] - out[name]).max())
            if dm > 10 * tol:
                bad.append(f"{what}: {name} changes by {dm:.3e}")
        dm = float(np.abs(o2["call_sig"] ** 2 - out["call_sig"] ** 2).max())
        if dm > 10 * t["v"]:
            bad.append(f"{what}: predictive variance changes by {dm:.3e}")

    if not MX.kernel_has(case["kernel"], "HN") and n >= 2:
        perm = list(range(n))
        while perm == list(range(n)):
            r.shuffle(perm)
        c2 = dict(case)
        c2["x"] = MX.hexlist(MX.unhex(case["x"], (n, d))[perm])
        c2["y"] = MX.hexlist(MX.unhex(case["y"])[perm])
        e = dict(case["err"])
        ye, yc = err_arrays(case)
        if ye is not None:
            e["values"] = MX.hexlist(ye[perm])
        if yc is not None:
            e["values"] = MX.hexlist(yc[np.ix_(perm, perm)])
        c2["err"] = e
        differs(run_impl(c2), "training points reordered")
    if case["err"]["kind"] == "y_err":
        c3 = dict(case)
        ye, _ = err_arrays(case)
        c3["err"] = {"kind": "y_cov", "container": "array", "values": MX.hexlist(np.diag(ye ** 2))}
        differs(run_impl(c3), "y_err replaced by y_cov = diag(y_err^2)")
    return bad


# ---------------------------------------------------------------- driver
def describe(case):
    return {k: case.get(k) for k in ("n", "d", "b", "x", "y", "points", "kernel", "mean", "hyperpars",
                                     "first_hyperpars", "err", "x_form", "p_form", "shift",
                                     "x_dtype", "p_dtype", "unit")}


def kernel_value_goals(rep, tier, cases, outs, ok_idx, suspicious):
    """The coq-interval part of the correspondence; returns {case index: failing goals}."""
    # kernel / mean values against the real-valued models at the exact coordinates (coq-interval):
    # every offset case, every fourth case near the origin
    rg = C.rng_for(PROP, "kernel-goals")
    big = {"Kqx": 3, "Kqq": 1, "kqq_pt": 1, "Kxx": 1, "mu": 1, "muq": 1}
    small = {"Kqx": 1, "Kqq": 1, "kqq_pt": 0, "Kxx": 1, "mu": 0, "muq": 1}
    if tier != "quick":
        big = {"Kqx": 4, "Kqq": 2, "kqq_pt": 1, "Kxx": 2, "mu": 1, "muq": 1}
    defs, goals, gmeta = [KCASES_HEADER], [], {}
    for k in ok_idx:
        if not (cases[k].get("shift") or cases[k].get("x_dtype") or k % 4 == 0):
            continue
        defs.append(kcase_defs(cases[k], k))
        budget = dict(big if cases[k].get("shift") else small)
        if cases[k].get("x_dtype"):       # K_xx is built from differences of the integer-typed array
            if not cases[k].get("shift"):
                budget = {"Kqx": 1, "Kqq": 0, "kqq_pt": 0, "Kxx": 2, "mu": 0, "muq": 1}
            budget["Kxx"] = max(2, budget["Kxx"])
        if cases[k]["mean"] == "const":         # the model value is theta[0] itself: one goal is plenty
            budget["mu"] = 0
        for gid, stmt, meta in kernel_goals(cases[k], outs[k], k, rg, budget):
            goals.append((gid, stmt, None))
            gmeta[gid] = meta
            rep.count("kernel-goal=" + meta["kind"] + (" (offset data)" if cases[k].get("shift") else "")
                      + (" (integer-typed data)" if cases[k].get("x_dtype") else ""))
    gd = C.GEN / PROP
    gd.mkdir(parents=True, exist_ok=True)
    (gd / "KCases.v").write_text("\n".join(defs) + "\n")
    rc, log, _ = C.sh(["timeout", "600", "coqc"] + C.COQFLAGS + [str(gd / "KCases.v")], timeout=660)
    kernel_fail = {}
    if rc != 0:
        rep.obligation(False)
        rep.violation("C02/correspondence-run", "generated kernel-case definitions do not compile",
                      {"theorem_or_correspondence": "coq/gen/C02/KCases.v", "log": log[-1500:]}, False)
    else:
        failed, broken = I.check_goals(PROP, "kgoals", goals, preamble=KPREAMBLE, unfold="kcbv;",
                                       chunk=max(12, min(150, len(goals) // 12 + 1)), jobs=12, timeout=1500)
        rep.obligation(True, len(goals) - len(failed))
        rep.obligation(False, len(failed))
        for bl in broken:
            rep.obligation(False)
            rep.violation("C02/correspondence-run", "a kernel-goal file could not be processed",
                          {"theorem_or_correspondence": "coq/gen/C02/kgoals_*.v", "log": bl[-1500:]}, False)
        for gid, _log in failed:
            m = gmeta[gid]
            kernel_fail.setdefault(m["case"], []).append(m)
        for k, ms in kernel_fail.items():
            txt = ("the kernel / mean values used inside the regressor differ from the covariance / mean function "
                   "at the coordinates: " + ", ".join(f"{m['kind']}{[m[i] for i in ('a', 'b', 'i', 'j') if i in m]}"
                                                      for m in ms[:4]))
            suspicious[k] = (suspicious[k] + "; " if k in suspicious else "") + txt
    rep.coverage["kernel_goals"] = len(goals)
    rep.coverage["kernel_goals_failed"] = sum(len(v) for v in kernel_fail.values())
    return kernel_fail


def run(rep: C.Report, tier: str) -> int:
    r = C.rng_for(PROP, "cases")
    ro = C.rng_for(PROP, "offsets")
    n_cases = 150 if tier == "quick" else 1500
    C.clean_gen(PROP)
    C.prove_and_audit(rep, PROP, THEOREMS)
    try:
        info = C.coq_audit(PROP + "_kernel", KERNEL_THEOREMS, "IT.Properties.C02Kernel")
        rep.obligation(True, len(KERNEL_THEOREMS))
        rep.coverage["kernel_translation_audit"] = info
    except C.ProofFailure as e:
        rep.obligation(False, len(KERNEL_THEOREMS))
        rep.violation("C02/proof", f"proof obligation no longer checks: {e.what}",
                      {"theorem_or_correspondence": e.what, "log": e.log[-1500:]}, False)

    try:      # the caller's arguments -> coordinate rows; values only (Model/GpInputs.v)
        info = C.coq_audit(PROP + "_inputs", INPUT_THEOREMS, "IT.Properties.C02Inputs")
        rep.obligation(True, len(INPUT_THEOREMS))
        rep.coverage["input_normalisation_audit"] = info
    except C.ProofFailure as e:
        rep.obligation(False, len(INPUT_THEOREMS))
        rep.violation("C02/proof", f"proof obligation no longer checks: {e.what}",
                      {"theorem_or_correspondence": e.what, "log": e.log[-1500:]}, False)

    try:      # the executable list-of-Q instance refines the MathComp instance (Matrix/Refinement*.v)
        info = C.coq_audit(PROP + "_refinement", REFINEMENT_THEOREMS, "IT.Properties.GpRefinement")
        rep.obligation(True, len(REFINEMENT_THEOREMS))
        rep.coverage["refinement_audit"] = info
    except C.ProofFailure as e:
        rep.obligation(False, len(REFINEMENT_THEOREMS))
        rep.violation("C02/proof", f"proof obligation no longer checks: {e.what}",
                      {"theorem_or_correspondence": e.what, "log": e.log[-1500:]}, False)

    cases, outs = [], []

    def register(case, out):
        cases.append(case)
        outs.append(out)
        rep.count(f"n={case['n']}")
        rep.count(f"d={case['d']}")
        rep.count(f"b={case['b']}")
        rep.count("kernel=" + MX.kernel_name(case["kernel"]))
        rep.count("mean=" + case["mean"])
        rep.count("errors=" + case["err"]["kind"] + "/" + case["err"]["container"]
                  + ("/full" if case["err"]["kind"] == "y_cov" and "diag_of_y_err" not in case["err"] else ""))
        rep.count("cond<=1e%d" % max(0, math.ceil(math.log10(case["cond"]))))
        rep.count("hyperpars via " + ("set_hyperparameters" if case.get("first_hyperpars") else "constructor"))
        if case.get("shift"):
            cm = max(abs(v) for v in case["shift"])
            rep.count("largest coordinate offset 2^%d..2^%d" % (5 * (int(math.log2(cm)) // 5), 5 * (int(math.log2(cm)) // 5) + 5))
            rep.count("offset data: kernel=" + MX.kernel_name(case["kernel"]))
            rep.count("offset data: mean=" + case["mean"])
        else:
            rep.count("coordinates near the origin")
        rep.count("training coordinates held as " + (case.get("x_dtype") or "float64"))
        rep.count("query points held as " + (case.get("p_dtype") or "float64"))
        rep.count("x given as " + case["x_form"])
        rep.count("points given as " + case["p_form"])
        if case.get("x_dtype"):
            st = max(1, int(case["unit"] / 4))
            rep.count("integer data: grid stride 1e%d..1e%d" % (3 * (int(math.log10(st)) // 3), 3 * (int(math.log10(st)) // 3) + 3))
            rep.count("integer data: kernel=" + MX.kernel_name(case["kernel"]))
            rep.count("integer data: mean=" + case["mean"])
            sq = float(np.ptp(MX.unhex(case["x"], (case["n"], case["d"])), axis=0).max()) ** 2
            lim = {"int64": 2.0 ** 63, "pyint": 2.0 ** 63, "int32": 2.0 ** 31, "int16": 2.0 ** 15, "uint16": 2.0 ** 16,
                   "int8": 2.0 ** 7, "uint8": 2.0 ** 8}[case["x_dtype"]]
            rep.count("integer data: largest squared distance " + ("EXCEEDS" if sq >= lim else "fits") + " the dtype")
        rep.case(describe(case), nontrivial=True)

    ri = C.rng_for(PROP, "int-data")
    n_int = 0
    for k in range(n_cases):
        if k % 5 == 2:
            # INTEGER-VALUED data held in an integer (or single-precision) dtype / as python ints, queried
            # at fractional positions; 5 is coprime to 11, 3, 8 and 7: every kernel, mean, error kind and dtype
            ic = gen_int_case(ri, k, n_int, tier)
            n_int += 1
            register(ic, run_impl(ic))
        case = gen_case(r, k, tier)
        out = run_impl(case)
        register(case, out)
        if k < 3:
            rep.sample({"config": {"n": case["n"], "d": case["d"], "b": case["b"],
                                   "kernel": MX.kernel_name(case["kernel"]), "mean": case["mean"],
                                   "errors": case["err"]["kind"] + "/" + case["err"]["container"],
                                   "cond": case["cond"]},
                        "impl_call_mean": out.get("call_mean"), "impl_call_sigma": out.get("call_sig")})
        if k % 5 in (1, 3):
            # the same configuration on offset data (5 and 11 are coprime: every kernel, mean and
            # error kind is met); a regressor that fails at the origin (D11 / D12) is not repeated
            if out["status"] == "ok":
                tc = gen_shift(ro, case)
                to = run_impl(tc)
                register(tc, to)
                if len([c for c in cases if c.get("shift")]) <= 2:
                    rep.sample({"config": {"kernel": MX.kernel_name(tc["kernel"]), "mean": tc["mean"],
                                           "shift": tc["shift"], "x": MX.unhex(tc["x"]).tolist()},
                                "impl_call_mean": to.get("call_mean"), "impl_call_sigma": to.get("call_sig")})

    suspicious = {}            # case index -> reason
    ok_idx = [k for k, o in enumerate(outs) if o["status"] == "ok"]
    for k, o in enumerate(outs):
        if o["status"] != "ok":
            suspicious[k] = f"{o['status']} in {o['stage']}: {o['error']}"

    # correspondence inside Coq; heavy (large n) cases are spread over the files
    order = sorted(ok_idx, key=lambda k: -cases[k]["n"] ** 4 * (2 + cases[k]["b"]))
    nfiles = max(1, min(len(order), 16 if tier == "quick" else 64))
    buckets = [[] for _ in range(nfiles)]
    loads = [0] * nfiles
    for k in order:
        j = loads.index(min(loads))
        buckets[j].append(k)
        loads[j] += cases[k]["n"] ** 4 * (2 + cases[k]["b"])
    files, index = [], []
    for j, bucket in enumerate(buckets):
        if not bucket:
            continue
        body = ("Definition cases : list gp_case :=\n [" +
                ";\n  ".join(coq_case(cases[k], outs[k]) for k in bucket) + "].")
        files.append(C.write_case_file(PROP, f"cases_{j}", HEADER, body, ["failing_gp cases"]))
        index.append(bucket)
    # the exact-rational files run in the background while the interval goals are generated and checked
    from concurrent.futures import ThreadPoolExecutor
    bg = ThreadPoolExecutor(max_workers=1)
    results_future = bg.submit(C.run_case_files, files, 10, 1500)
    input_fail = input_normalisation(rep, cases, outs, ok_idx, suspicious)
    kernel_fail = kernel_value_goals(rep, tier, cases, outs, ok_idx, suspicious)
    results = results_future.result()
    bg.shutdown()
    n_checked = 0
    obligation_fail = {}
    for p, idx, (ok, res, log) in zip(files, index, results):
        if not ok or 0 not in res:
            rep.obligation(False, 11 * len(idx))
            rep.violation("C02/correspondence-run", f"case file {p.name} did not evaluate",
                          {"theorem_or_correspondence": f"correspondence file {p.name}", "log": log}, False)
            continue
        fails = MX.decode_failures(res[0])
        for j, k in enumerate(idx):
            fo = fails.get(j, [])
            rep.obligation(True, 11 - len(fo))
            if fo:
                rep.obligation(False, len(fo))
                obligation_fail[k] = fo
                suspicious[k] = ((suspicious[k] + "; " if k in suspicious else "")
                                 + "; ".join(OBLIGATION_NAMES[o] for o in fo))
        n_checked += len(idx)
    rep.coverage["cases_validated_against_impl"] = n_checked
    rep.coverage["obligations_per_case"] = OBLIGATION_NAMES
    rep.coverage["input_obligations_per_case"] = INPUT_OBLIGATIONS

    rep.coverage["correspondence_disagreements"] = len(suspicious)

    # failing-input search on every disagreement
    rs = C.rng_for(PROP, "search")
    # offset cases first: there the origin counterpart gives the sharpest oracle
    for k in sorted(suspicious, key=lambda k: (not cases[k].get("shift"), k))[:12]:
        case, out = cases[k], outs[k]
        if out["status"] != "ok":
            key = "C02/exception"
            if case.get("x_dtype") and run_impl(dict(case, x_dtype=None, p_dtype=None))["status"] == "ok":
                key = "C02/dtype"          # the same numbers held as float64 are accepted
            if MX.kernel_has(case["kernel"], "HN") and case["d"] >= 2 and "broadcast" in out["error"]:
                key = "C02/D11/HeteroscedasticNoise-call-shape"
            elif case["err"]["container"] != "array" and "shape" in out["error"]:
                key = "C02/D12/y_cov-list"
            rep.violation(key, f"GpRegressor failed on a valid input ({suspicious[k]})",
                          {"case": describe(case), "impl": {k2: out[k2] for k2 in ("status", "stage", "error")}}, True)
            continue
        bad = (oracle(case, out) + dtype_oracle(case, out) + translation_oracle(case, out)
               + builder_oracle(case, out) + metamorphic(case, out, rs))
        if bad:
            rep.violation("C02/property", "; ".join(bad[:3]),
                          {"case": describe(case), "failing_obligations": obligation_fail.get(k),
                           "failing_input_obligations": input_fail.get(k),
                           "failing_kernel_goals": kernel_fail.get(k),
                           "impl_output": {n_: out[n_] for n_ in ("call_mean", "call_sig", "post_mean", "mean_only")}},
                          True)
        else:
            rep.violation("C02/correspondence",
                          "implementation and model disagree (" + suspicious[k] +
                          "), but the property was not seen to fail on this input",
                          {"theorem_or_correspondence": "Model.GpInputs.check_inputs (norm_x / process_points against "
                           "GpRegressor.__init__ / process_points), coq/gen/C02/inputs_0.v"
                           if k in input_fail and k not in obligation_fail and k not in kernel_fail else
                           "Matrix.GpCheck.check_gp (correspondence with GpRegressor)"
                           if k not in kernel_fail else
                           "coq-interval goals gp_Kxx / gp_Kqx / gp_Kqq / gp_mu / gp_muq of coq/gen/C02 (kernel values "
                           "inside GpRegressor against RealModel/Kernels.v, RealModel/Means.v)",
                           "failing_obligations": obligation_fail.get(k),
                           "failing_input_obligations": input_fail.get(k),
                           "failing_kernel_goals": kernel_fail.get(k), "case": describe(case)}, False)

    # second opinion [R]: the property oracle and the metamorphic relations on a slice of agreeing cases
    n_meta = 0
    for k in ok_idx[::5 if tier == "quick" else 3]:
        if k in suspicious:
            continue
        bad = oracle(cases[k], outs[k]) + builder_oracle(cases[k], outs[k]) + metamorphic(cases[k], outs[k], rs)
        n_meta += 1
        if bad:
            rep.violation("C02/property", "; ".join(bad[:3]), {"case": describe(cases[k])}, True)
    rep.coverage["metamorphic_runs"] = n_meta
    # ... and the origin-counterpart oracle on every offset case
    n_tr = 0
    for k in ok_idx:
        if k in suspicious or not cases[k].get("shift"):
            continue
        bad = translation_oracle(cases[k], outs[k])
        n_tr += 1
        if bad:
            rep.violation("C02/property", "; ".join(bad[:3]), {"case": describe(cases[k])}, True)
    rep.coverage["translation_oracle_runs"] = n_tr
    # ... and the float64 twin on every case whose coordinates are held in another dtype
    n_dt = 0
    for k in ok_idx:
        if k in suspicious or not (cases[k].get("x_dtype") or cases[k].get("p_dtype")):
            continue
        bad = dtype_oracle(cases[k], outs[k])
        n_dt += 1
        if bad:
            rep.violation("C02/property", "; ".join(bad[:3]), {"case": describe(cases[k])}, True)
    rep.coverage["dtype_oracle_runs"] = n_dt

    rep.assumptions = [
        "SciPy/LAPACK cholesky and solve_triangular are exact in the theorems (L L^T = K_xx+S, L invertible); "
        "the run checks L L^T = K_xx + S to 1e-12*max|A| on the implementation's own self.L and compares "
        "every output to 1e-7*scale; inputs are conditioned (cond <= 1e4)",
        "kernel and mean-function VALUES are inputs of the matrix model; they are tied to the coordinates by "
        "coq-interval goals against RealModel/Kernels.v / Means.v on sampled entries (tolerance 1e-9 relative + "
        "1e-11*scale + 16 ulp of the coordinates propagated through the kernel), gradients etc. by C10",
        "ListOps (list-of-Q instance, verified Bareiss inverse) implements the same algebra as the MathComp "
        "instance the theorems are about: not proved, see DESIGN 2.3",
        "sqrt in `sqrt(abs(errs))` is compared through sigma^2",
        "numpy's array() of a python list / tuple keeps the values (python ints below 2^53, python floats); the "
        "run compares gp.x and process_points(points) with the caller's values exactly, so a conversion that "
        "changes a value is a disagreement",
    ]
    return rep.finish(
        level="proof",
        checker_cmd="make -C /verif/coq (coqc 8.16.1, full .vo) + coqc on coq/gen/C02/*.v (vm_compute; coq-interval "
                    "`interval` for the kernel-value goals)",
        trusted_base=C.KERNEL_TB + ["axioms: none for Properties/C02.v (closed under the global context); "
                                    "Properties/C02Kernel.v uses the standard-library real-number axioms",
                                    "Properties/C02Inputs.v: standard-library real-number axioms (only where R occurs)",
                                    "Matrix/ListOps.v (executable matrix instance; inverse verified at run time)",
                                    "coq-interval 4.x reflexive interval evaluator (Uint63 / Bignums primitives)"],
        rule="configurations walk the grid kernel (11: SE, RQ, +WhiteNoise, +HeteroscedasticNoise, SE+RQ, SE+SE+WN, "
             "2- and 3-kernel ChangePoint) x mean (3) x errors (none, y_err array/list, diagonal y_cov "
             "array/list/tuple, full y_cov array/list); n 2..8, d 1..3, 1..5 query points (training points, "
             "interior, far outside), x / points as 2-D array, 1-D array or list; hyper-parameters resampled "
             "until cond(K_xx+S) <= 1e4; two fifths of the configurations are repeated on OFFSET DATA: an integer "
             "vector with entries +-[2^e, 2^(e+1)), e uniform in 10..30 per coordinate, is added (exactly) to all "
             "training and query points and to the change-point locations; kernel / mean values of every offset "
             "case and every fourth other case become coq-interval goals; one fifth of the configurations is run a "
             "further time (own random stream) on INTEGER-VALUED data: training coordinates stride * (0..16) per axis, "
             "stride from 1 to 3.6e12 as the dtype allows, held as int64 / int32 / python ints / int16 / uint8 / uint16 "
             "/ int8 (walked; half of the int64 / int32 / python-int cases with an offset as above), query points on "
             "the stride/16 grid held as float64, python numbers, float32 or int64 (where exact), given 2-D, as list "
             "of rows, flat, as one scalar or as one flat point; hyper-parameters of the standard case in the units "
             "of the data; the caller's arguments and the observed gp.x / process_points(points) of EVERY case go "
             "through Model/GpInputs.v inside Coq (exact); every case is non-trivial; "
             "distinct = distinct configurations")


def replay(path):
    import json
    d = json.load(open(path))
    rp = d["replay"]
    if "case" not in rp:
        print("replay names a broken theorem / correspondence:", rp.get("theorem_or_correspondence"))
        return 1
    case = rp["case"]
    case.setdefault("cond", 0.0)
    out = run_impl(case)
    if out["status"] != "ok":
        print("implementation fails:", out)
        return 1
    bad = (oracle(case, out) + dtype_oracle(case, out) + translation_oracle(case, out) + builder_oracle(case, out)
           + metamorphic(case, out, C.rng_for(PROP, "replay")))
    print("implementation returns: call_mean", out["call_mean"], "call_sigma", out["call_sig"])
    print("property failures:", bad)
    return 1 if bad else 0
