"""C07 -- Hamiltonian trajectories: reversible, volume-preserving, energy-accurate;
kinetic energy matches the momentum law; finite-difference gradient (incl. zero
coordinates).

Theorems: coq/theories/Properties/C07.v about Model/Leapfrog.v (any force, any
number of steps, the three mass kinds).  Tie to the code: the real
run_leapfrog / standard_leapfrog / bounded_leapfrog / hamiltonian /
kinetic_energy / finite_diff / mass.sample_momentum are called directly on
HamiltonianChain objects and their outputs compared, inside Coq, with the Q model:

  * exactly (Qeq_bool, no tolerance) on dyadic data chosen by an a-priori bit
    budget so that every double operation of the code is exact (linear force,
    inverse masses in {1, 4, 1/4, 16} or a dyadic matrix, n <= 8);
  * to 1e-12 relative (Qle_bool inside Coq) on arbitrary doubles / full matrices.

Callables that KEEP what they return (round 4): the same routines are driven with a
gradient function that returns its stored vector / a cached array / its output buffer
(class KeeperGrad), over histories of several run_leapfrog calls on one chain (a new
request, the reversed previous one, the same one again), and compared -- trajectory
outputs and the final content of the callable's array -- with Model/LeapfrogShared.v,
in which the returned array is shared with the callable (theorems
Properties/C07Shared.v).  hamiltonian / finite_diff likewise get posteriors that
return 0-d arrays they keep.

Python only runs the implementation, converts floats to exact rationals and
evaluates the *property* on the implementation (forward - flip - forward
reversibility error, energy error under step halving, momentum law, finite_diff
against the analytic gradient) when looking for a failing input.
"""
from __future__ import annotations

import json
import math
import warnings
from fractions import Fraction

import numpy as np

from lib import common as C
from lib.scripted import ScriptedRNG

PROP = "C07"
THEOREMS = [
    "C07_leapfrog_is_kdk_power",
    "C07_leapfrog_reversible",
    "C07_bounded_leapfrog_reversible",
    "C07_bounded_wall_hypothesis_needed",
    "C07_bounded_matrix_mass_refuted",
    "C07_kick_drift_are_shears",
    "C07_volume_preserving_linear_1d",
    "C07_harmonic_modified_energy",
    "C07_harmonic_energy_error_quadratic",
    "C07_momentum_law_matches_kinetic_scalar",
    "C07_momentum_law_matches_kinetic_vector",
    "C07_momentum_law_matches_kinetic_matrix_2d",
    "C07_finite_diff_exact_on_quadratics",
    "C07_finite_diff_error_bound",
    "C07_finite_diff_pinned_refuted",
]

SHARED_THEOREMS = [
    "C07_shared_leapfrog_is_leapfrog",
    "C07_shared_bounded_leapfrog_is_bounded_leapfrog",
    "C07_shared_history",
    "C07_shared_history_bounded",
    "C07_shared_leapfrog_reversible",
    "C07_shared_bounded_leapfrog_reversible",
    "C07_stored_array_untouched",
    "C07_stored_array_untouched_bounded",
    "C07_inplace_scaling_refuted",
]

KEY_D7 = "C07/finite-diff-zero-coordinate"
KEY_D8 = "C07/bounded-matrix-mass"
WHAT_D8 = ("bounded_leapfrog with a full (non-diagonal) inverse-mass matrix is not time-reversible: "
           "the wall reflection flips single momentum components, which is not an isometry of r^T M^-1 r "
           "(Coq: C07_bounded_matrix_mass_refuted; replayed on the real code every run)")

HEADER = """From Coq Require Import List QArith ZArith.
From IT Require Import Model.Leapfrog.
Import ListNotations.
Open Scope Q_scope.
"""

H_REL = 1e-5      # the relative step of finite_diff (a double)
H_FLOOR = 1e-8    # the absolute floor introduced by fixes/D07


def HC():
    from inference.mcmc import HamiltonianChain
    return HamiltonianChain


# ------------------------------------------------------------------ helpers
def F(x):
    return C.frac(x)


def fl(v):
    return np.array([float(x) for x in v], dtype=float)


def flm(M):
    return np.array([[float(x) for x in row] for row in M], dtype=float)


def qv(v):
    return C.clist([C.cq(x) for x in v])


def qm(M):
    return C.clist([qv(row) for row in M])


def ser(x):
    if isinstance(x, Fraction):
        return f"{x.numerator}/{x.denominator}"
    if isinstance(x, (list, tuple)):
        return [ser(v) for v in x]
    if isinstance(x, dict):
        return {k: ser(v) for k, v in x.items()}
    return x


def deser(x):
    if isinstance(x, str) and "/" in x and x.replace("/", "").replace("-", "").isdigit():
        return Fraction(x)
    if isinstance(x, list):
        return [deser(v) for v in x]
    if isinstance(x, dict):
        return {k: deser(v) for k, v in x.items()}
    return x


def val2(x: Fraction) -> int:
    """2-adic valuation of a dyadic rational (largest e with x in 2^e Z); big for 0."""
    if x == 0:
        return 10 ** 6
    n, d = x.numerator, x.denominator
    assert d & (d - 1) == 0, "not dyadic"
    e = 0
    while n % 2 == 0:
        n //= 2
        e += 1
    return e - (d.bit_length() - 1)


def vmin(xs):
    return min([val2(x) for x in xs] or [10 ** 6])


def amax(xs):
    return max([abs(x) for x in xs] or [Fraction(0)])


def rowsum(M):
    return max([sum(abs(x) for x in row) for row in M] or [Fraction(0)])


# ------------------------------------------------------------------ building the real chain
def make_chain(case, grad_given=True, posterior=None, grad_wrap=None, post_wrap=None):
    """grad_wrap / post_wrap: optional functions turning the plain gradient / log-density
    function into the callable object handed to the chain (KeeperGrad / KeeperPost)."""
    A, b = flm(case["A"]), fl(case["b"])
    d = len(case["b"])

    def logp(t):
        return b @ t - 0.5 * (t @ (A @ t))

    def grad(t):
        return b - A @ t

    kind, im = case["mass"]
    if kind == "scalar":
        inv_mass = float(im)
    elif kind == "vector":
        inv_mass = fl(im)
    else:
        inv_mass = flm(im)
    bounds = None
    start = fl(case.get("start") or case["t"])
    if case.get("bounds") is not None:
        lo, hi = case["bounds"]
        bounds = (fl(lo), fl(hi))
        if not ((start >= bounds[0]) & (start <= bounds[1])).all():
            start = 0.5 * (bounds[0] + bounds[1])
    # history dimension: for per-parameter masses whose square roots are exact, half of the chains are
    # built with the DEFAULT mass and receive the intended one afterwards through the public
    # estimate_mass() (a two-point history +-sqrt(inv_mass) has exactly that variance) -- everything
    # the trajectory uses must follow the mass that is current, not the one of construction time
    via_estimate = False
    if kind in ("scalar", "vector"):
        want = np.broadcast_to(np.asarray(inv_mass, dtype=float), (d,)).copy()
        root = np.sqrt(want)
        key = sum(int(v * 64) for v in want) + d + int(float(case["eps"]) * 1024)
        if (root * root == want).all() and key % 2 == 0:
            via_estimate = True
    user_grad = grad_wrap(grad) if grad_wrap is not None else grad
    if posterior is None:
        posterior = post_wrap(logp) if post_wrap is not None else logp
    chain = HC()(posterior=posterior, start=start, grad=user_grad if grad_given else None,
                 epsilon=float(case["eps"]), temperature=float(case["T"]), bounds=bounds,
                 inverse_mass=None if via_estimate else inv_mass, display_progress=False)
    if via_estimate:
        saved = (chain.theta, chain.probs, chain.leapfrog_steps, chain.chain_length)
        chain.theta = [root.copy(), -root]
        chain.estimate_mass(burn=0, thin=1, diagonal=True)
        chain.theta, chain.probs, chain.leapfrog_steps, chain.chain_length = saved
        got = np.asarray(chain.mass.inv_mass, dtype=float)
        assert got.shape == want.shape and (got == want).all(), (got, want)
    chain.ES.epsilon = float(case["eps"])
    return chain, logp, grad


class ReflectSpy:
    """Wraps chain.bounds.reflect_momenta: records inputs / outputs (observation only)."""

    def __init__(self, chain):
        self.n_flips = 0
        self.on_wall = False
        self.near_wall = False
        self.calls = 0
        if chain.bounds is None:
            return
        orig = chain.bounds.reflect_momenta
        lo, hi = np.asarray(chain.bounds.lower, float), np.asarray(chain.bounds.upper, float)
        w = hi - lo

        def spy(theta):
            out, refl = orig(theta)
            self.calls += 1
            self.n_flips += int((np.asarray(refl) < 0).sum())
            if ((out == lo) | (out == hi)).any():
                self.on_wall = True
            u = (np.asarray(theta) - lo) / w
            if (np.abs(u - np.round(u)) < 1e-9).any():
                self.near_wall = True
            return out, refl
        chain.bounds.reflect_momenta = spy


def run_lf(case, method="run_leapfrog"):
    try:
        with warnings.catch_warnings():
            warnings.simplefilter("ignore")
            chain, _, _ = make_chain(case)
            spy = ReflectSpy(chain)
            t0 = fl(case["t"])
            if chain.bounds is not None and ((t0 == chain.bounds.lower) | (t0 == chain.bounds.upper)).any():
                spy.on_wall = True
            t, r = getattr(chain, method)(t0, fl(case["r"]), int(case["n"]))
        return {"status": "ok", "t": [F(x) for x in t], "r": [F(x) for x in r],
                "flips": spy.n_flips, "on_wall": spy.on_wall, "near_wall": spy.near_wall}
    except Exception as e:
        return {"status": "exception", "error": repr(e)}


# ------------------------------------------------------------------ exactness budget
def budget_ok(case) -> bool:
    """A-priori guarantee that every double operation of the leapfrog on this
    dyadic input is exact: all intermediates are multiples of 2^Lmin and smaller
    than 2^(52+Lmin).  Pure bookkeeping of valuations / magnitude bounds; it does
    not compute the trajectory."""
    beta = 1 / case["T"]
    eps = case["eps"]
    Lmin, Mmax = [10 ** 6], [Fraction(0)]

    def note(L, M):
        Lmin[0] = min(Lmin[0], L)
        Mmax[0] = max(Mmax[0], M)

    for x in (beta, eps, beta * eps, beta * eps / 2):
        note(val2(x), abs(x))
    A, b = case["A"], case["b"]
    LA, nA = vmin([x for row in A for x in row]), rowsum(A)
    Lb, nb = vmin(b), amax(b)
    kind, im = case["mass"]
    if kind == "scalar":
        Lm, nm = val2(im), abs(im)
    elif kind == "vector":
        Lm, nm = vmin(im), amax(im)
    else:
        Lm, nm = vmin([x for row in im for x in row]), rowsum(im)
    st = {"Lt": vmin(case["t"]), "Mt": amax(case["t"]), "Lr": vmin(case["r"]), "Mr": amax(case["r"])}
    note(st["Lt"], st["Mt"])
    note(st["Lr"], st["Mr"])
    bnd = case.get("bounds")
    if bnd is not None:
        lo, hi = bnd
        w = [h - l for l, h in zip(lo, hi)]
        Llo, Lw = vmin(lo), vmin(w)
        Mlo, Mw, wmin = max(amax(lo), amax(hi)), amax(w), min(w)

    def kick(h):
        LAt, MAt = LA + st["Lt"], nA * st["Mt"]
        note(LAt, MAt)
        Lg, Mg = min(Lb, LAt), nb + MAt
        note(Lg, Mg)
        Lhg, Mhg = val2(h) + Lg, abs(h) * Mg
        note(Lhg, Mhg)
        st["Lr"], st["Mr"] = min(st["Lr"], Lhg), st["Mr"] + Mhg
        note(st["Lr"], st["Mr"])

    def drift():
        Lv, Mv = Lm + st["Lr"], nm * st["Mr"]
        note(Lv, Mv)
        Lev, Mev = val2(eps) + Lv, eps * Mv
        note(Lev, Mev)
        st["Lt"], st["Mt"] = min(st["Lt"], Lev), st["Mt"] + Mev
        note(st["Lt"], st["Mt"])
        if bnd is not None:
            Lu, Mu = min(st["Lt"], Llo), st["Mt"] + Mlo
            note(Lu, Mu)
            note(0, Mu / wmin + 2)                 # the integer quotient
            Lrem = min(Lu, Lw)
            note(Lrem, Mu + Mw)
            st["Lt"], st["Mt"] = min(Llo, Lrem, Lw), Mlo
            note(st["Lt"], Mlo + 2 * Mw)

    n = max(int(case["n"]), 1)
    kick(beta * eps / 2)
    for _ in range(n - 1):
        drift()
        kick(beta * eps)
    drift()
    kick(beta * eps / 2)
    return Mmax[0] * Fraction(2) ** (-Lmin[0]) < 2 ** 52


# ------------------------------------------------------------------ generation
INV_MASSES = [Fraction(1), Fraction(4), Fraction(1, 4), Fraction(16)]
DYADIC_MATS = {
    2: [[[2, 1], [1, 2]], [[1, Fraction(1, 2)], [Fraction(1, 2), 1]], [[4, -1], [-1, 1]],
        [[Fraction(1, 2), Fraction(1, 4)], [Fraction(1, 4), 1]]],
    3: [[[2, 1, 0], [1, 2, 1], [0, 1, 2]], [[1, Fraction(1, 2), 0], [Fraction(1, 2), 1, Fraction(-1, 4)],
                                           [0, Fraction(-1, 4), 1]]],
}


def sym_matrix(r, d, num=4, den=2):
    A = [[Fraction(0)] * d for _ in range(d)]
    for i in range(d):
        for j in range(i, d):
            v = Fraction(r.randint(-num, num), den)
            if i == j:
                v = Fraction(r.randint(1, num), den)
            A[i][j] = A[j][i] = v
    return A


def gen_mass(r, d, allow_matrix=True):
    k = r.choice(["scalar", "vector", "matrix"] if (allow_matrix and d >= 2) else ["scalar", "vector"])
    if k == "scalar":
        return ("scalar", r.choice(INV_MASSES))
    if k == "vector":
        return ("vector", [r.choice(INV_MASSES) for _ in range(d)])
    M = r.choice(DYADIC_MATS[d])
    return ("matrix", [[Fraction(x) for x in row] for row in M])


def gen_exact_case(r, bounded):
    for _ in range(200):
        d = r.choice([1, 2, 2, 3])
        case = {
            "mass": gen_mass(r, d),
            "T": r.choice([Fraction(1), Fraction(2), Fraction(4), Fraction(1, 2)]),
            "eps": r.choice([Fraction(1, 2), Fraction(1, 4), Fraction(1, 8), Fraction(3, 8), Fraction(1, 16),
                             Fraction(3, 4)]),
            "A": sym_matrix(r, d),
            "b": [Fraction(r.randint(-4, 4), 2) for _ in range(d)],
            "bounds": None,
            "t": [Fraction(r.randint(-40, 40), 16) for _ in range(d)],
            "r": [Fraction(r.randint(-64, 64), 16) for _ in range(d)],
            "n": r.choice([0, 1, 1, 2, 3, 4, 5, 6, 7, 8]),
        }
        if bounded:
            lo = [Fraction(r.randint(-8, 4), 4) for _ in range(d)]
            w = [r.choice([Fraction(1), Fraction(2), Fraction(3, 2), Fraction(5, 4), Fraction(1, 2), Fraction(3)])
                 for _ in range(d)]
            hi = [l + x for l, x in zip(lo, w)]
            case["bounds"] = (lo, hi)
            case["t"] = [l + x * Fraction(r.randint(0 if r.random() < 0.1 else 1, 15), 16) for l, x in zip(lo, w)]
        while case["n"] > 1 and not budget_ok(case):
            case["n"] -= 1
        if budget_ok(case):
            return case
    raise RuntimeError("could not generate an exact case")


def gen_tol_case(r, bounded):
    d = r.choice([1, 2, 3])
    B = [[r.uniform(-1, 1) for _ in range(d)] for _ in range(d)]
    A = [[sum(B[i][k] * B[j][k] for k in range(d)) + (0.5 if i == j else 0.0) for j in range(d)] for i in range(d)]
    A = [[0.5 * (A[i][j] + A[j][i]) for j in range(d)] for i in range(d)]
    kind = r.choice(["scalar", "vector", "matrix", "matrix"])
    if kind == "scalar":
        mass = ("scalar", F(r.uniform(0.2, 5)))
    elif kind == "vector":
        mass = ("vector", [F(r.uniform(0.2, 5)) for _ in range(d)])
    else:
        Bm = [[r.uniform(-1, 1) for _ in range(d)] for _ in range(d)]
        M = [[sum(Bm[i][k] * Bm[j][k] for k in range(d)) + (0.7 if i == j else 0.0) for j in range(d)] for i in range(d)]
        M = [[0.5 * (M[i][j] + M[j][i]) for j in range(d)] for i in range(d)]
        mass = ("matrix", [[F(x) for x in row] for row in M])
    case = {
        "mass": mass, "T": F(r.choice([1.0, 2.0, 3.0, 0.7])), "eps": F(r.choice([0.1, 0.05, 0.2, 0.13])),
        "A": [[F(x) for x in row] for row in A], "b": [F(r.uniform(-1, 1)) for _ in range(d)], "bounds": None,
        "t": [F(r.uniform(-1, 1)) for _ in range(d)], "r": [F(r.gauss(0, 1)) for _ in range(d)],
        "n": r.choice([1, 2, 3, 4]),
    }
    if bounded:
        lo = [F(r.uniform(-1.5, -0.2)) for _ in range(d)]
        hi = [F(float(l) + r.uniform(0.5, 1.5)) for l in lo]
        case["bounds"] = (lo, hi)
        case["t"] = [F(float(l) + r.uniform(0.1, 0.9) * (float(h) - float(l))) for l, h in zip(lo, hi)]
        case["r"] = [F(3 * float(x)) for x in case["r"]]
        case["eps"] = F(r.choice([0.2, 0.3, 0.25]))
    return case


# ------------------------------------------------------------------ Coq text
def coq_mass(mass):
    kind, im = mass
    if kind == "scalar":
        return f"ScalarMass {C.cq(im)}"
    if kind == "vector":
        return f"VectorMass {qv(im)}"
    return f"MatrixMass {qm(im)}"


def coq_lf(case, obs):
    bnd = "None" if case["bounds"] is None else f"Some ({qv(case['bounds'][0])}, {qv(case['bounds'][1])})"
    return ("{| c_mass := " + coq_mass(case["mass"]) + "; c_inv_temp := " + C.cq(1 / case["T"]) +
            "; c_eps := " + C.cq(case["eps"]) + "; c_A := " + qm(case["A"]) + "; c_b := " + qv(case["b"]) +
            "; c_bounds := " + bnd + "; c_t := " + qv(case["t"]) + "; c_r := " + qv(case["r"]) +
            "; c_n := " + C.cnat(case["n"]) + "; c_obs_t := " + qv(obs["t"]) + "; c_obs_r := " + qv(obs["r"]) + " |}")


# ------------------------------------------------------------------ the property on the implementation
def rev_error(case):
    """forward - flip - forward on the real run_leapfrog.  Returns (err, scale, info)."""
    with warnings.catch_warnings():
        warnings.simplefilter("ignore")
        chain, _, _ = make_chain(case)
        spy = ReflectSpy(chain)
        t0, r0 = fl(case["t"]), fl(case["r"])
        if chain.bounds is not None and ((t0 <= chain.bounds.lower) | (t0 >= chain.bounds.upper)).any():
            spy.on_wall = True
        n = int(case["n"])
        t1, r1 = chain.run_leapfrog(t0.copy(), r0.copy(), n)
        fwd_wall = spy.on_wall
        t2, r2 = chain.run_leapfrog(t1.copy(), -r1, n)
        r2 = -r2
    err = max(float(np.abs(t2 - t0).max()), float(np.abs(r2 - r0).max()))
    scale = 1.0 + max(float(np.abs(t1).max()), float(np.abs(r1).max()), float(np.abs(t0).max()),
                      float(np.abs(r0).max()))
    return err, scale, {"forward_position_on_wall": fwd_wall, "flips": spy.n_flips,
                        "back": [t2.tolist(), r2.tolist()]}


def oracle_reversibility(case):
    """None if fine / not applicable, else text."""
    try:
        err, scale, info = rev_error(case)
    except Exception as e:
        return f"run_leapfrog raised {e!r}"
    if not math.isfinite(err):
        return "forward-flip-forward produced a non-finite state"
    if info["forward_position_on_wall"]:
        return None            # the stated hypothesis of the bounded theorem does not hold
    if err > 1e-7 * scale:
        return f"forward-flip-forward does not return to the start: error {err:.3g} (scale {scale:.3g})"
    return None


# ------------------------------------------------------------------ callables that keep what they return
KEEPER_KINDS = ("fresh", "stored", "memo", "buffer")
KEEPER_WORDS = {
    "fresh": "a new array on every call",
    "stored": "the vector it stores (the constant gradient of a linear log-density, computed once)",
    "memo": "the array it cached for the last point (returned again when asked at the same point)",
    "buffer": "its own output buffer (rewritten on every call)",
}


class KeeperGrad:
    """A user-side gradient function that returns an array it keeps (Model/LeapfrogShared.v:
    KFresh / KStored / KMemo / KBuffer).  Before every call and at the end (`audit`) it compares
    the array it handed out with a private copy of what it had put there: a difference means the
    library wrote into the caller's array.  It goes on using its array as it finds it -- exactly
    what a real stored vector / cache would do."""

    def __init__(self, kind, fn, d, stored=None):
        assert kind in KEEPER_KINDS
        self.kind, self.fn = kind, fn
        self.calls, self.hits = 0, 0
        self.tampered = []
        self.key = None
        self.kept = None
        if kind == "stored":
            self.kept = np.array(stored, dtype=float)
        elif kind == "buffer":
            self.kept = np.zeros(d)
        self.shadow = None if self.kept is None else self.kept.copy()

    def audit(self):
        if self.kept is not None and not np.array_equal(self.kept, self.shadow):
            if len(self.tampered) < 4:
                self.tampered.append({"after_gradient_call": self.calls, "returned": self.shadow.tolist(),
                                      "found": self.kept.tolist()})
            self.shadow = self.kept.copy()

    def __call__(self, t):
        self.audit()
        self.calls += 1
        if self.kind == "fresh":
            return self.fn(t)
        if self.kind == "stored":
            return self.kept
        if self.kind == "memo":
            if self.key is not None and np.array_equal(t, self.key):
                self.hits += 1
                return self.kept
            self.key = np.array(t, dtype=float)            # a copy: the library updates t in place
            self.kept = np.array(self.fn(t), dtype=float)
        else:
            np.copyto(self.kept, self.fn(t))
        self.shadow = self.kept.copy()
        return self.kept


class KeeperPost:
    """A user-side log-density function that returns a 0-d array it keeps: 'memo' (the array of
    the last point, returned again at the same point; a new array for a new point) or 'buffer'
    (one 0-d array rewritten on every call).  Audited like KeeperGrad."""

    def __init__(self, kind, fn):
        assert kind in ("memo", "buffer")
        self.kind, self.fn = kind, fn
        self.calls = 0
        self.tampered = []
        self.key = None
        self.kept = np.array(0.0) if kind == "buffer" else None
        self.shadow = 0.0

    def audit(self):
        if self.kept is not None and not float(self.kept) == self.shadow:
            if len(self.tampered) < 4:
                self.tampered.append({"after_posterior_call": self.calls, "returned": self.shadow,
                                      "found": float(self.kept)})
            self.shadow = float(self.kept)

    def __call__(self, t):
        self.audit()
        self.calls += 1
        if self.kind == "memo":
            if self.key is not None and np.array_equal(t, self.key):
                return self.kept
            self.key = np.array(t, dtype=float)
            self.kept = np.array(float(self.fn(t)))
        else:
            self.kept[...] = float(self.fn(t))
        self.shadow = float(self.kept)
        return self.kept


def zero_matrix(d):
    return [[Fraction(0)] * d for _ in range(d)]


def make_shared_chain(case, kind=None):
    kind = kind or case["keeper"]
    if kind == "stored":
        assert all(x == 0 for row in case["A"] for x in row), "a stored gradient needs a linear log-density"
    box = {}

    def wrap(g):
        box["k"] = KeeperGrad(kind, g, len(case["b"]), stored=fl(case["b"]))
        return box["k"]
    chain, _, _ = make_chain(case, grad_wrap=wrap)
    return chain, box["k"]


def run_shared(case, kind=None, exact=True):
    """The history of run_leapfrog calls of `case` on ONE chain with ONE gradient callable of the
    given kind.  history ops: ("reverse",) = the previous output with the momentum negated, same n;
    ("repeat",) = the previous request again; ("new", t, r, n).  With exact=True the history stops
    before a request that does not pass the a-priori bit budget."""
    try:
        with warnings.catch_warnings():
            warnings.simplefilter("ignore")
            chain, keeper = make_shared_chain(case, kind)
            spy = ReflectSpy(chain)
            reqs, outs = [], []
            for op in [None] + [tuple(o) for o in case.get("history", [])]:
                if op is None:
                    req = (list(case["t"]), list(case["r"]), int(case["n"]))
                elif op[0] == "reverse":
                    req = (list(outs[-1][0]), [-x for x in outs[-1][1]], reqs[-1][2])
                elif op[0] == "repeat":
                    req = reqs[-1]
                else:
                    req = (list(op[1]), list(op[2]), int(op[3]))
                if exact and reqs and not budget_ok(dict(case, t=req[0], r=req[1], n=req[2])):
                    break
                t0 = fl(req[0])
                if chain.bounds is not None and ((t0 <= chain.bounds.lower) | (t0 >= chain.bounds.upper)).any():
                    spy.on_wall = True
                t, r = chain.run_leapfrog(t0, fl(req[1]), req[2])
                reqs.append(req)
                outs.append(([F(x) for x in t], [F(x) for x in r]))
            keeper.audit()
            kept = None if keeper.kept is None else [F(x) for x in keeper.kept]
        return {"status": "ok", "reqs": reqs, "outs": outs, "kept": kept, "tampered": keeper.tampered,
                "grad_calls": keeper.calls, "memo_hits": keeper.hits,
                "flips": spy.n_flips, "on_wall": spy.on_wall, "near_wall": spy.near_wall}
    except Exception as e:
        return {"status": "exception", "error": repr(e)}


def coq_keeper0(case):
    d = len(case["b"])
    return {"fresh": "KFresh", "stored": f"(KStored {qv(case['b'])})", "memo": "(KMemo None)",
            "buffer": f"(KBuffer {qv([Fraction(0)] * d)})"}[case["keeper"]]


def coq_shared(case, obs):
    bnd = "None" if case["bounds"] is None else f"Some ({qv(case['bounds'][0])}, {qv(case['bounds'][1])})"
    calls = C.clist([f"({qv(t)}, {qv(r)}, {C.cnat(n)})" for t, r, n in obs["reqs"]])
    outs = C.clist([f"({qv(t)}, {qv(r)})" for t, r in obs["outs"]])
    kept = "None" if obs["kept"] is None else f"Some {qv(obs['kept'])}"
    return ("{| s_mass := " + coq_mass(case["mass"]) + "; s_inv_temp := " + C.cq(1 / case["T"]) +
            "; s_eps := " + C.cq(case["eps"]) + "; s_A := " + qm(case["A"]) + "; s_b := " + qv(case["b"]) +
            "; s_bounds := " + bnd + "; s_keeper := " + coq_keeper0(case) + "; s_calls := " + calls +
            "; s_obs := " + outs + "; s_obs_kept := " + kept + " |}")


def gen_history(r, case, exact):
    """0-3 further run_leapfrog calls on the same chain."""
    ops = []
    d = len(case["t"])
    for _ in range(r.choice([0, 1, 1, 2, 2, 3] if exact else [0, 1, 1, 2])):
        u = r.random()
        if u < 0.45:
            ops.append(("reverse",))
        elif u < 0.65:
            ops.append(("repeat",))
        else:
            if case["bounds"] is not None:
                lo, hi = case["bounds"]
                if exact:
                    t = [l + (h - l) * Fraction(r.randint(1, 15), 16) for l, h in zip(lo, hi)]
                else:
                    t = [F(float(l) + r.uniform(0.1, 0.9) * (float(h) - float(l))) for l, h in zip(lo, hi)]
            elif exact:
                t = [Fraction(r.randint(-40, 40), 16) for _ in range(d)]
            else:
                t = [F(r.uniform(-1, 1)) for _ in range(d)]
            rr = [Fraction(r.randint(-64, 64), 16) for _ in range(d)] if exact else [F(r.gauss(0, 1)) for _ in range(d)]
            ops.append(("new", t, rr, r.choice([1, 2, 3, 4, 5]) if exact else r.choice([1, 2, 3])))
    return ops


def gen_shared_case(r, bounded, exact):
    kind = r.choice(["stored", "stored", "stored", "memo", "memo", "buffer", "buffer", "fresh"])
    for _ in range(200):
        case = gen_exact_case(r, bounded) if exact else gen_tol_case(r, bounded)
        d = len(case["b"])
        if kind == "stored":                      # a linear log-density: -rate . x (truncated to the box)
            case["A"] = zero_matrix(d)
            if all(x == 0 for x in case["b"]):
                case["b"][r.randrange(d)] = Fraction(r.choice([-3, -1, 1, 2]), 2)
        if exact:
            if case["n"] < 2 and r.random() < 0.8:      # the loop body runs for n >= 2 only
                case["n"] = r.choice([2, 3, 4, 5, 6])
            while case["n"] > 1 and not budget_ok(case):
                case["n"] -= 1
            if not budget_ok(case):
                continue
        elif case["n"] < 2 and r.random() < 0.7:
            case["n"] = r.choice([2, 3, 4])
        case["keeper"] = kind
        case["history"] = gen_history(r, case, exact)
        return case
    raise RuntimeError("could not generate a shared case")


def run_takestep(case, seed, steps, n_take, kind=None):
    """Histories produced by the sampler itself: `n_take` calls of take_step on one chain (scripted
    generator, adaptation frozen) with a gradient callable of the given kind and a log-density
    function that keeps its 0-d array; every run_leapfrog call take_step makes is recorded
    (request, output, content of the callable's array afterwards)."""
    from lib.samplers import freeze_adaptation
    try:
        with warnings.catch_warnings():
            warnings.simplefilter("ignore")
            kind = kind or case["keeper"]
            box = {}

            def gwrap(g):
                box["k"] = KeeperGrad(kind, g, len(case["b"]), stored=fl(case["b"]))
                return box["k"]

            def pwrap(f):
                box["p"] = KeeperPost("memo", f)
                return box["p"]
            chain, _, _ = make_chain(case, grad_wrap=gwrap, post_wrap=None if kind == "fresh" else pwrap)
            keeper = box["k"]
            chain.rng = ScriptedRNG(seed, uniform_bits=14)
            chain.steps = steps
            freeze_adaptation(chain)
            orig = chain.run_leapfrog
            reqs, outs, kepts = [], [], []

            def spy(t, r, n):
                req = ([F(x) for x in t], [F(x) for x in r], int(n))
                out = orig(t, r, n)
                reqs.append(req)
                outs.append(([F(x) for x in out[0]], [F(x) for x in out[1]]))
                kepts.append(None if keeper.kept is None else [F(x) for x in keeper.kept])
                return out
            chain.run_leapfrog = spy
            chain.max_attempts = 5
            gave_up = False
            for _ in range(n_take):
                try:
                    chain.take_step()
                except ValueError as e:      # every proposal rejected (unstable step size): a legitimate end
                    if "Failed to take step" not in str(e):
                        raise
                    gave_up = True
                    break
            keeper.audit()
            tampered = list(keeper.tampered)
            if "p" in box:
                box["p"].audit()
                tampered += box["p"].tampered
        return {"status": "ok", "reqs": reqs, "outs": outs, "kepts": kepts, "tampered": tampered,
                "theta": [[float(x) for x in th] for th in chain.theta], "probs": [float(x) for x in chain.probs],
                "memo_hits": keeper.hits, "gave_up": gave_up}
    except Exception as e:
        return {"status": "exception", "error": repr(e)}


def takestep_as_history(case, obs):
    """the recorded run_leapfrog calls as a plain history case (longest prefix within the bit budget)"""
    k = 0
    while k < min(len(obs["reqs"]), 8) and budget_ok(dict(case, t=obs["reqs"][k][0], r=obs["reqs"][k][1], n=obs["reqs"][k][2])):
        k += 1
    if k == 0:
        return None, None
    t, r, n = obs["reqs"][0]
    hist = [("new", t2, r2, n2) for t2, r2, n2 in obs["reqs"][1:k]]
    c2 = dict(case, t=t, r=r, n=n, history=hist, exact=True)
    o2 = {"status": "ok", "reqs": obs["reqs"][:k], "outs": obs["outs"][:k], "kept": obs["kepts"][k - 1]}
    return c2, o2


def oracle_takestep(case, seed, steps, n_take):
    """take_step must produce the same chain whether or not the callables keep their arrays,
    and must not write into them"""
    a = run_takestep(case, seed, steps, n_take)
    if a["status"] != "ok":
        return f"take_step failed with a gradient function that returns {KEEPER_WORDS[case['keeper']]}: {a['error']}"
    if a["tampered"]:
        return f"take_step wrote into an array returned by the user's gradient / log-density function: {a['tampered'][0]}"
    b = run_takestep(case, seed, steps, n_take, kind="fresh")
    if b["status"] == "ok" and (a["theta"] != b["theta"] or a["probs"] != b["probs"] or a["gave_up"] != b["gave_up"]):
        return (f"take_step x{n_take} gives the samples {a['theta']} with a gradient function that returns "
                f"{KEEPER_WORDS[case['keeper']]} but {b['theta']} with one that builds new arrays (same random draws)")
    return None


def _scale_of(outs):
    return 1.0 + max([abs(float(x)) for t, r in outs for x in list(t) + list(r)] or [0.0])


def oracle_shared(case, exact):
    """The property evaluated on the implementation when the gradient callable keeps the array
    it returns: (1) the library must not have written into that array; (2) every call of the
    history returns what it returns for a callable that builds new arrays; (3) forward -- negate
    the momentum -- forward with the one callable comes back to the start.  None if all hold."""
    kind = case["keeper"]
    words = KEEPER_WORDS[kind]
    obs = run_shared(case, exact=exact)
    if obs["status"] != "ok":
        return "exception", f"run_leapfrog failed with a gradient function that returns {words}: {obs['error']}"
    found = []
    cls = None
    if obs["tampered"]:
        w = obs["tampered"][0]
        cls = "modified"
        found.append(f"the library wrote into the array returned by the user's gradient function (which returns "
                     f"{words}): it had returned {w['returned']} and holds {w['found']} after gradient call "
                     f"{w['after_gradient_call']}")
    ref = run_shared(case, kind="fresh", exact=False)
    if ref["status"] == "ok":
        sc = _scale_of(ref["outs"])
        for i, ((t, r), (t2, r2)) in enumerate(zip(obs["outs"], ref["outs"])):
            err = max(abs(float(a) - float(b)) for a, b in zip(list(t) + list(r), list(t2) + list(r2)))
            if not err <= 1e-9 * sc:
                cls = cls or "trajectory"
                found.append(f"run_leapfrog call {i + 1} of the history returns {[float(x) for x in t]}, "
                             f"{[float(x) for x in r]} but {[float(x) for x in t2]}, {[float(x) for x in r2]} when the "
                             f"gradient function builds a new array on every call (difference {err:.3g})")
                break
    if not (case["bounds"] is not None and case["mass"][0] == "matrix"):
        rv = run_shared(dict(case, history=[("reverse",)]), exact=False)
        if rv["status"] == "ok" and len(rv["outs"]) == 2 and not rv["on_wall"]:
            t2, r2 = rv["outs"][1]
            back = [float(x) for x in t2] + [-float(x) for x in r2]
            start = [float(x) for x in case["t"]] + [float(x) for x in case["r"]]
            err = max(abs(a - b) for a, b in zip(back, start))
            if not err <= 1e-7 * _scale_of(rv["outs"] + [(case["t"], case["r"])]):
                cls = cls or "trajectory"
                found.append(f"forward - negate momentum - forward with the same gradient function does not return "
                             f"to the start: error {err:.3g}")
    if not found:
        return None, None
    return cls, "; ".join(found[:3])


def shrink_shared(case, exact):
    """smaller history / fewer steps that still fail"""
    best = case
    for cand in (dict(case, history=[]), dict(case, history=[], n=2), dict(case, history=[], n=3),
                 dict(case, history=[("repeat",)], n=1)):
        try:
            if oracle_shared(cand, exact)[0]:
                best = cand
                if cand["n"] <= 2:
                    break
        except Exception:
            pass
    return best


def _sum1(t):
    return np.ones_like(t) * t.sum()


NONQUAD = {
    "quartic": (lambda t: -0.25 * (t ** 4).sum() - 0.5 * (t @ t) - 0.15 * t.sum() ** 2,
                lambda t: -(t ** 3) - t - 0.3 * _sum1(t)),
    "logcosh": (lambda t: -np.log(np.cosh(t)).sum() - 0.1 * (t @ t) - 0.25 * t.sum() ** 2,
                lambda t: -np.tanh(t) - 0.2 * t - 0.5 * _sum1(t)),
}


def energy_profile(name, d, mass, T, t0, r0, tau=1.0, levels=(16, 32, 64), keep=None, tamper_out=None):
    """max_k |H(z_k) - H(z_0)| along the trajectory for eps = tau/n, n in levels, on the real code.
    keep in ("memo", "buffer"): the gradient function returns an array it keeps (KeeperGrad) and the
    log-density a 0-d array it keeps (KeeperPost); what the library wrote into them goes to tamper_out."""
    logp, grad = NONQUAD[name]
    out = []
    for n in levels:
        kg = KeeperGrad(keep, grad, d) if keep else None
        kp = KeeperPost("memo", logp) if keep else None
        chain = HC()(posterior=kp or logp, start=np.array(t0, float), grad=kg or grad, epsilon=tau / n,
                     temperature=T, inverse_mass=mass, display_progress=False)
        chain.ES.epsilon = tau / n
        t, r = np.array(t0, float), np.array(r0, float)
        H0 = chain.hamiltonian(t, r)
        worst = 0.0
        for _ in range(n):
            t, r = chain.run_leapfrog(t.copy(), r.copy(), 1)
            worst = max(worst, abs(chain.hamiltonian(t, r) - H0))
        out.append(worst)
        if keep:
            kg.audit(), kp.audit()
            if tamper_out is not None:
                tamper_out.extend(kg.tampered + kp.tampered)
    return out


def oracle_energy_order(rs, n_trials):
    """[R] the energy error shrinks ~4x when the step is halved (smooth non-quadratic densities)."""
    bad, ratios, modified = [], [], []
    for k in range(n_trials):
        keep = [None, "memo", "buffer"][(k // 3) % 3]
        tampered = []
        name = ["quartic", "logcosh"][k % 2]
        d = 1 + (k // 2) % 3
        mk = k % 3
        if mk == 0:
            mass = float(rs.choice([1.0, 4.0, 0.25]))
        elif mk == 1:
            mass = np.array([rs.choice([1.0, 4.0, 0.25]) for _ in range(d)])
        else:
            mass = np.eye(d) + 0.3 * (np.ones((d, d)) - np.eye(d)) if d > 1 else 2.0
        T = rs.choice([1.0, 2.0])
        t0 = [rs.uniform(0.3, 1.2) * rs.choice([-1, 1]) for _ in range(d)]
        r0 = [rs.uniform(0.3, 1.2) * rs.choice([-1, 1]) for _ in range(d)]
        try:
            with warnings.catch_warnings():
                warnings.simplefilter("ignore")
                e = energy_profile(name, d, mass, T, t0, r0, keep=keep, tamper_out=tampered)
        except Exception as ex:
            bad.append({"density": name, "t0": t0, "r0": r0, "keep": keep, "error": repr(ex)})
            continue
        if tampered:
            modified.append({"density": name, "d": d, "mass": np.asarray(mass).tolist(), "T": T, "t0": t0, "r0": r0,
                             "keep": keep, "modified": tampered[0]})
        rr = [e[i] / e[i + 1] if e[i + 1] > 0 else float("inf") for i in range(len(e) - 1)]
        ratios.append(rr)
        if not all(math.isfinite(x) for x in e) or not all(2.9 <= x <= 5.5 for x in rr):
            bad.append({"density": name, "d": d, "mass": np.asarray(mass).tolist(), "T": T, "t0": t0, "r0": r0,
                        "keep": keep, "max_energy_error_for_eps_1/16_1/32_1/64": e, "ratios": rr})
    return bad, ratios, modified


def oracle_momentum_law(case_mass, d, seed):
    """K(sample_momentum(z)) must be 1/2 z.z on the real code."""
    kind, im = case_mass
    case = {"mass": case_mass, "T": Fraction(1), "eps": Fraction(1, 2), "A": [[Fraction(1) if i == j else Fraction(0)
            for j in range(d)] for i in range(d)], "b": [Fraction(0)] * d, "bounds": None,
            "t": [Fraction(0)] * d, "r": [Fraction(0)] * d, "n": 1}
    chain, _, _ = make_chain(case)
    rng = ScriptedRNG(seed)
    r = chain.mass.sample_momentum(rng)
    z = np.array([float(v) for k, v in rng.log if k == "normal"])
    K = chain.kinetic_energy(np.asarray(r, float))
    want = 0.5 * float(z @ z)
    if not math.isfinite(K) or abs(K - want) > 1e-9 * (1 + abs(want)):
        return f"kinetic_energy(sample_momentum(z)) = {K!r} but 1/2 z.z = {want!r} for z = {z.tolist()}"
    return None


def fd_analytic_error(case):
    """finite_diff of the real chain on the real quadratic vs the analytic gradient."""
    with warnings.catch_warnings():
        warnings.simplefilter("ignore")
        chain, logp, grad = make_chain(case, grad_given=False)
        t = fl(case["t"])
        G = np.asarray(chain.finite_diff(t.copy()), float)
    want = grad(t)        # the true gradient of the log-density (C07), whatever the temperature
    return G, want


def oracle_fd(case):
    try:
        G, want = fd_analytic_error(case)
    except Exception as e:
        return f"finite_diff raised {e!r}"
    if not np.isfinite(G).all():
        return f"finite_diff returned {G.tolist()} at t = {[float(x) for x in case['t']]} (analytic gradient {want.tolist()})"
    err = float(np.abs(G - want).max())
    if err > 1e-3 * (1 + float(np.abs(want).max())):
        return f"finite_diff {G.tolist()} differs from the analytic gradient {want.tolist()} by {err:.3g}"
    return None


# ------------------------------------------------------------------ D8 witness on the real code
D8_CASE = {
    "mass": ("matrix", [[Fraction(1), Fraction(1, 2)], [Fraction(1, 2), Fraction(1)]]),
    "T": Fraction(1), "eps": Fraction(1, 2),
    "A": [[Fraction(0), Fraction(0)], [Fraction(0), Fraction(0)]], "b": [Fraction(0), Fraction(0)],
    "bounds": ([Fraction(0), Fraction(0)], [Fraction(1), Fraction(1)]),
    "t": [Fraction(1, 2), Fraction(1, 4)], "r": [Fraction(1), Fraction(1, 8)], "n": 1,
}


# ------------------------------------------------------------------ energy / momentum / finite_diff cases
def gen_energy_case(r, exact):
    d = r.choice([1, 2, 3])
    if exact:
        return {"mass": gen_mass(r, d), "T": r.choice([Fraction(1), Fraction(2), Fraction(4), Fraction(1, 2)]),
                "A": sym_matrix(r, d), "b": [Fraction(r.randint(-4, 4), 2) for _ in range(d)],
                "t": [Fraction(r.randint(-63, 63), 16) for _ in range(d)],
                "r": [Fraction(r.randint(-63, 63), 16) for _ in range(d)],
                "eps": Fraction(1, 2), "bounds": None, "n": 1}
    c = gen_tol_case(r, False)
    return c


def run_energy(case):
    """case["post_keeper"] in (None, "memo", "buffer"): the log-density function returns a 0-d array
    it keeps; hamiltonian is then asked twice at the same point (the cached array is returned again)."""
    try:
        keep = case.get("post_keeper")
        box = {}

        def wrap(f):
            box["p"] = KeeperPost(keep, f)
            return box["p"]
        chain, _, _ = make_chain(case, post_wrap=wrap if keep else None)
        H = chain.hamiltonian(fl(case["t"]), fl(case["r"]))
        K = chain.kinetic_energy(fl(case["r"]))
        if keep:
            H2 = chain.hamiltonian(fl(case["t"]), fl(case["r"]))
            box["p"].audit()
            if box["p"].tampered:
                w = box["p"].tampered[0]
                return {"status": "tampered", "error": "the library wrote into the 0-d array returned by the user's "
                        f"log-density function: it had returned {w['returned']!r} and holds {w['found']!r}"}
            if not H2 == H:
                return {"status": "tampered", "error": f"hamiltonian at the same point gives {H!r}, then {H2!r}, when "
                        "the log-density function returns an array it keeps"}
        return {"status": "ok", "H": F(H), "K": F(K)}
    except Exception as e:
        return {"status": "exception", "error": repr(e)}


def coq_energy(case, obs):
    return (f"({coq_mass(case['mass'])}, {C.cq(1 / case['T'])}, {qm(case['A'])}, {qv(case['b'])}, "
            f"{qv(case['t'])}, {qv(case['r'])}, {C.cq(obs['H'])}, {C.cq(obs['K'])})")


def run_momentum(mass, d, seed):
    case = {"mass": mass, "T": Fraction(1), "eps": Fraction(1, 2),
            "A": [[Fraction(int(i == j)) for j in range(d)] for i in range(d)], "b": [Fraction(0)] * d,
            "bounds": None, "t": [Fraction(0)] * d, "r": [Fraction(0)] * d, "n": 1}
    try:
        chain, _, _ = make_chain(case)
        rng = ScriptedRNG(seed)
        r = np.asarray(chain.mass.sample_momentum(rng), float)
        z = [v for k, v in rng.log if k == "normal"]
        K = chain.kinetic_energy(r.copy())
        out = {"status": "ok", "z": z, "r": [F(x) for x in r], "K": F(K)}
        if mass[0] == "matrix":
            out["L"] = [[F(x) for x in row] for row in np.asarray(chain.mass.L, float)]
        else:
            sm = np.broadcast_to(np.asarray(chain.mass.sqrt_mass, float), (d,))
            out["sm"] = [F(x) for x in sm]
        return out
    except Exception as e:
        return {"status": "exception", "error": repr(e)}


class TablePosterior:
    """Scripted posterior for finite_diff: value P at t, P_i at a point whose first
    coordinate differing from t is i; records every evaluation point."""

    def __init__(self, t, P, Ps, keep=False):
        self.t = np.array(t, float)
        self.P, self.Ps = float(P), [float(x) for x in Ps]
        self.points = []
        # keep=True: the table values are 0-d arrays the posterior stores and hands out by reference
        self.keep = keep
        self.aP, self.aPs = np.array(self.P), [np.array(x) for x in self.Ps]

    def modified(self):
        """table entries the caller wrote into (keep=True)"""
        out = [] if float(self.aP) == self.P else [("P", self.P, float(self.aP))]
        return out + [(f"Ps[{i}]", v, float(a)) for i, (v, a) in enumerate(zip(self.Ps, self.aPs)) if float(a) != v]

    def __call__(self, x):
        x = np.asarray(x, float)
        self.points.append(x.copy())
        diff = np.nonzero(x != self.t)[0]
        if len(diff) == 0:
            return self.aP if self.keep else self.P
        return self.aPs[int(diff[0])] if self.keep else self.Ps[int(diff[0])]


def gen_fd_case(r):
    d = r.choice([1, 2, 3, 4])
    t = []
    for _ in range(d):
        u = r.random()
        if u < 0.25:
            t.append(Fraction(0))
        elif u < 0.4:
            t.append(F(r.choice([-1, 1]) * r.uniform(1e-9, 8e-4)))      # below the floor
        elif u < 0.7:
            t.append(F(r.choice([-1, 1]) * r.uniform(1.2e-3, 50)))
        else:
            t.append(Fraction(r.randint(-200, 200), 16) or Fraction(3, 16))
    return {"T": r.choice([Fraction(1), Fraction(2), Fraction(1, 2), Fraction(4)]), "t": t,
            "P": Fraction(r.randint(-512, 512), 32), "Ps": [Fraction(r.randint(-512, 512), 32) for _ in range(d)],
            "keep": r.random() < 0.5}


def run_fd(case):
    d = len(case["t"])
    tp = TablePosterior(case["t"], case["P"], case["Ps"], keep=bool(case.get("keep")))
    cc = {"mass": ("scalar", Fraction(1)), "T": case["T"], "eps": Fraction(1, 2),
          "A": [[Fraction(0)] * d for _ in range(d)], "b": [Fraction(0)] * d, "bounds": None,
          "t": case["t"], "r": [Fraction(0)] * d, "n": 1, "start": [Fraction(1)] * d}
    try:
        with warnings.catch_warnings():
            warnings.simplefilter("ignore")
            chain, _, _ = make_chain(cc, grad_given=False, posterior=tp)
            tp.points.clear()
            G = np.asarray(chain.grad(fl(case["t"])), float)
        pts = [p for p in tp.points if (p != tp.t).any()]
        if tp.modified():
            name, was, now = tp.modified()[0]
            return {"status": "tampered", "error": "finite_diff wrote into a 0-d array returned by the user's "
                    f"log-density function (table entry {name}: returned {was!r}, now {now!r})"}
        if not np.isfinite(G).all():
            return {"status": "nonfinite", "G": G.tolist(), "error": f"finite_diff returned {G.tolist()}"}
        return {"status": "ok", "G": [F(x) for x in G], "pts": [[F(x) for x in p] for p in pts],
                "n_evals": len(tp.points)}
    except Exception as e:
        return {"status": "exception", "error": repr(e)}


def coq_fd(case, obs):
    pts = C.clist([qv(p) for p in obs["pts"]])
    # the (repaired, D30) code estimates the gradient of the UN-tempered log-density, exactly as a
    # user-supplied gradient is: the model's finite_diff is therefore used at inv_temp = 1, for
    # every chain temperature
    return (f"({C.cq(1)}, {C.cq(H_REL)}, {C.cq(H_FLOOR)}, {qv(case['t'])}, {C.cq(case['P'])}, "
            f"{qv(case['Ps'])}, {pts}, {qv(obs['G'])})")


def fd_quadratic_case(case, r):
    """a real quadratic posterior at the same point (for the analytic-gradient oracle)"""
    d = len(case["t"])
    return {"mass": ("scalar", Fraction(1)), "T": case["T"], "eps": Fraction(1, 2), "A": sym_matrix(r, d),
            "b": [Fraction(r.randint(-4, 4), 2) for _ in range(d)], "bounds": None, "t": case["t"],
            "r": [Fraction(0)] * d, "n": 1, "start": [Fraction(1)] * d}


# ------------------------------------------------------------------ the run
def describe(case):
    return ser({k: v for k, v in case.items()})


def chunked(lst, n):
    for i in range(0, len(lst), n):
        yield i // n, lst[i:i + n]


# ---------------------------------------------------------------- finite_diff inside a bounds box
HEADER_S = """From Coq Require Import List QArith ZArith.
From IT Require Import Model.Leapfrog Model.LeapfrogShared.
Import ListNotations.
Open Scope Q_scope.
"""

HEADER_B = """From Coq Require Import List QArith ZArith.
From IT Require Import Model.Leapfrog Model.FiniteDiffBounded.
Import ListNotations.
Open Scope Q_scope.
"""


def bounded_fd_part(rep, r, n_cases):
    """finite_diff with bounds (D29): points on / near the wall the relative step points at, so that
    the inward-turned step is exercised; compared exactly with Model/FiniteDiffBounded.v (scripted
    table posterior) and, as the property oracle, with the table's own difference quotient."""
    texts, metas = [], []
    for k in range(n_cases):
        d = r.choice([1, 2, 3])
        lo, hi, t = [], [], []
        for _ in range(d):
            w = Fraction(r.choice([1, 2, 8, 64]), r.choice([1, 4]))
            c = Fraction(r.randint(-96, 96), 8)
            a = c - w / 2
            lo.append(a), hi.append(a + w)
            u = r.random()
            if u < 0.45:           # on the wall the step points at (upper for positive, lower for negative)
                v = hi[-1] if hi[-1] > 0 else (lo[-1] if lo[-1] < 0 else Fraction(0))
                v = hi[-1] if (hi[-1] > 0 and r.random() < 0.5) or lo[-1] >= 0 else lo[-1]
            elif u < 0.6:          # on the other wall
                v = lo[-1] if r.random() < 0.5 else hi[-1]
            else:
                v = a + w * Fraction(r.randint(1, 15), 16)
            t.append(v)
        P = Fraction(r.randint(-512, 512), 32)
        Ps = [Fraction(r.randint(-512, 512), 32) for _ in range(d)]
        tp = TablePosterior(t, P, Ps, keep=(k % 2 == 1))
        cc = {"mass": ("scalar", Fraction(1)), "T": r.choice([Fraction(1), Fraction(2), Fraction(1, 2)]),
              "eps": Fraction(1, 2), "A": [[Fraction(0)] * d for _ in range(d)], "b": [Fraction(0)] * d,
              "bounds": (lo, hi), "t": t, "r": [Fraction(0)] * d, "n": 1, "start": t}
        meta = {"kind": "finite_diff_bounded", "lower": [str(v) for v in lo], "upper": [str(v) for v in hi],
                "t": [str(v) for v in t], "P": str(P), "Ps": [str(v) for v in Ps], "T": str(cc["T"]),
                "posterior_returns_kept_0d_arrays": tp.keep}
        try:
            with warnings.catch_warnings():
                warnings.simplefilter("ignore")
                chain, _, _ = make_chain(cc, grad_given=False, posterior=tp)
                tp.points.clear()
                G = np.asarray(chain.grad(fl(t)), float)
            pts = [pt for pt in tp.points if (pt != tp.t).any()]
        except Exception as e:
            rep.violation("C07/finite-diff-bounded/exception", f"finite_diff with bounds raised {e!r}", {"case": meta}, True)
            continue
        rep.count("finite_diff_bounded/" + ("on-wall" if any(v in (l, u_) for v, l, u_ in zip(t, lo, hi)) else "interior"))
        if tp.keep:
            rep.count("finite_diff_bounded/posterior-returns-kept-0d-arrays")
        if tp.modified():
            name, was, now = tp.modified()[0]
            if not any(v["key"] == "C07/returned-array-modified" and "with bounds" in v["what"] for v in rep.violations):
                rep.violation("C07/returned-array-modified", "finite_diff with bounds wrote into a 0-d array returned by the "
                              f"user's log-density function (table entry {name}: returned {was!r}, now {now!r})",
                              {"case": meta}, True)
            continue
        rep.case(("fdb", meta["lower"], meta["upper"], meta["t"], meta["P"], meta["Ps"]))
        if not np.isfinite(G).all() or len(pts) != d:
            rep.violation("C07/finite-diff-bounded", f"finite_diff with bounds returned {G.tolist()} using {len(pts)} difference points",
                          {"case": meta}, True)
            continue
        # property oracle on the implementation: every difference point inside the box, and the returned
        # entry is the difference quotient along the step actually taken
        bad = []
        for i, pt in enumerate(pts):
            if not all(float(l) <= x <= float(u_) for x, l, u_ in zip(pt, lo, hi)):
                bad.append(f"difference point {pt.tolist()} outside the bounds")
            step = float(pt[i] - float(t[i]))
            if step != 0.0:
                want = (float(Ps[i]) - float(P)) / step
                if abs(G[i] - want) > 1e-6 * (1 + abs(want)):
                    bad.append(f"gradient entry {i} is {G[i]!r} but the difference quotient along the step taken is {want!r}")
        if bad:
            rep.violation("C07/finite-diff-bounded", "; ".join(bad[:2]), {"case": meta}, True)
        texts.append(f"({C.cq(H_REL)}, {C.cq(H_FLOOR)}, {qv(lo)}, {qv(hi)}, {qv(t)}, {C.cq(P)}, {qv(Ps)}, "
                     f"{C.clist([qv([F(x) for x in pt]) for pt in pts])}, {qv([F(x) for x in G])})")
        metas.append(meta)
    if not texts:
        return
    body = ("Definition cases : list (Q * Q * vec * vec * vec * Q * vec * list vec * vec) :=\n " +
            C.clist(texts, ";\n ") + ".")
    pfile = C.write_case_file(PROP, "finite_diff_bounded_0", HEADER_B, body, ["failing_b cases 0"])
    (ok, res, log), = C.run_case_files([pfile], jobs=1)
    if not ok or 0 not in res:
        rep.obligation(False)
        rep.violation("C07/correspondence-run", f"case file {pfile.name} did not evaluate",
                      {"theorem_or_correspondence": f"correspondence file {pfile.name}", "log": log}, False)
        return
    rep.obligation(True)
    for j in res[0][:3]:
        rep.violation("C07/finite-diff-bounded/correspondence",
                      "finite_diff with bounds and Model.FiniteDiffBounded disagree (step, difference point or value)",
                      {"theorem_or_correspondence": "Model.FiniteDiffBounded.check_fd_b", "case": metas[j]}, False)


def run(rep: C.Report, tier: str) -> int:
    thorough = tier == "thorough"
    reported = set()

    def viol(key, what, replay, found):      # one report per key is enough
        if key in reported:
            return
        reported.add(key)
        rep.violation(key, what, replay, found)

    import time as _time
    phases, _t0 = {}, [_time.time()]

    def phase(name):
        now = _time.time()
        phases[name] = round(phases.get(name, 0.0) + now - _t0[0], 2)
        _t0[0] = now
        rep.coverage["phase_seconds"] = phases

    C.clean_gen(PROP)
    C.prove_and_audit(rep, PROP, THEOREMS)
    phase("audit")
    r = C.rng_for(PROP, "cases")
    rs = C.rng_for(PROP, "search")

    n_exact = 400 if not thorough else 4000
    n_tol = 60 if not thorough else 600
    n_energy = 150 if not thorough else 1500
    n_fd = 150 if not thorough else 1500
    n_mom = 60 if not thorough else 400

    files, meta = [], []      # meta[i] = (group, [case indices])
    groups = {}               # group -> list of (case, obs)
    suspicious = []           # (group, case, obs or None, why)

    # ---- leapfrog, exact
    lf_exact = []
    for k in range(n_exact):
        bounded = (k % 2 == 1)
        case = gen_exact_case(r, bounded)
        method = "run_leapfrog"
        if k % 5 == 0:
            method = "bounded_leapfrog" if bounded else "standard_leapfrog"
        obs = run_lf(case, method)
        rep.count(f"leapfrog/exact/{'bounded' if bounded else 'free'}/{case['mass'][0]}")
        rep.count(f"n_steps={case['n']}")
        rep.count(f"dim={len(case['t'])}")
        rep.case(("lf", ser(case)), nontrivial=case["n"] >= 1)
        if obs["status"] != "ok":
            suspicious.append(("leapfrog", case, obs, obs.get("error")))
            continue
        if bounded:
            rep.count("bounded/with-reflection" if obs["flips"] else "bounded/no-reflection")
            if obs["on_wall"]:
                rep.count("bounded/position-exactly-on-wall")
        lf_exact.append((case, obs))
        if k < 2:
            rep.sample({"kind": "leapfrog-exact", "case": describe(case),
                        "impl_t": [float(x) for x in obs["t"]], "impl_r": [float(x) for x in obs["r"]]})
    groups["lf_exact"] = lf_exact

    # ---- leapfrog, tolerance (arbitrary doubles, full matrices)
    lf_tol = []
    for k in range(n_tol):
        bounded = (k % 3 == 2)
        case = gen_tol_case(r, bounded)
        obs = run_lf(case)
        rep.count(f"leapfrog/tol/{'bounded' if bounded else 'free'}/{case['mass'][0]}")
        rep.case(("lft", ser(case)))
        if obs["status"] != "ok":
            suspicious.append(("leapfrog", case, obs, obs.get("error")))
            continue
        if obs["near_wall"]:
            rep.count("leapfrog/tol/skipped-within-1e-9-of-wall")
            continue
        lf_tol.append((case, obs))
    groups["lf_tol"] = lf_tol

    # ---- leapfrog with a gradient callable that KEEPS the array it returns, over call histories
    n_sh = 160 if not thorough else 1600
    n_sh_tol = 16 if not thorough else 160
    rsh = C.rng_for(PROP, "shared")
    phase("run implementation: leapfrog cases")
    sh_exact, sh_tol, sh_all = [], [], []
    for k in range(n_sh + n_sh_tol):
        exact = k < n_sh
        bounded = (k % 2 == 1)
        case = gen_shared_case(rsh, bounded, exact)
        case["exact"] = exact
        obs = run_shared(case, exact=exact)
        rep.count(f"shared/{'exact' if exact else 'tol'}/{'bounded' if bounded else 'free'}/grad-returns-{case['keeper']}")
        rep.case(("sh", ser(case)), nontrivial=True)
        sh_all.append(case)
        if obs["status"] != "ok":
            suspicious.append(("shared", case, obs, obs.get("error")))
            continue
        rep.count(f"shared/run_leapfrog-calls-on-one-chain={len(obs['reqs'])}")
        rep.count("shared/mass=" + case["mass"][0])
        if obs["memo_hits"]:
            rep.count("shared/cached-array-returned-again")
        if case["n"] >= 2:
            rep.count("shared/loop-body-executed")
        if obs["tampered"]:
            suspicious.append(("shared", case, obs, "the array returned by the gradient function was modified"))
            continue
        if not exact and obs["near_wall"]:
            rep.count("shared/tol/skipped-within-1e-9-of-wall")
            continue
        (sh_exact if exact else sh_tol).append((case, obs))
        if len(sh_exact) == 1 and exact:
            rep.sample({"kind": "shared-exact", "case": describe(case),
                        "impl_outputs": [[[float(x) for x in t], [float(x) for x in r_]] for t, r_ in obs["outs"]],
                        "callable_array_afterwards": None if obs["kept"] is None else [float(x) for x in obs["kept"]]})
    # ---- the same, with the histories the sampler itself produces (take_step on one chain)
    n_ts = 30 if not thorough else 300
    for k in range(n_ts):
        for _ in range(50):
            case = gen_shared_case(rsh, k % 2 == 1, True)
            if case["mass"][0] != "matrix":
                break
        case["history"], case["exact"] = [], True
        ts = {"seed": rsh.randrange(1 << 30), "steps": rsh.choice([2, 3, 4]), "n_take": 3}
        obs = run_takestep(case, ts["seed"], ts["steps"], ts["n_take"])
        rep.count(f"shared/take_step-history/grad-returns-{case['keeper']}")
        rep.case(("ts", ser(case), ts), nontrivial=True)
        if obs["status"] != "ok" or obs["tampered"]:
            suspicious.append(("takestep", dict(case, takestep=ts), obs, obs.get("error") or "returned array modified"))
            continue
        bad = oracle_takestep(case, ts["seed"], ts["steps"], ts["n_take"])
        if bad:
            suspicious.append(("takestep", dict(case, takestep=ts), obs, bad))
            continue
        c2, o2 = takestep_as_history(case, obs)
        if c2 is None:
            rep.count("shared/take_step-history/outside-bit-budget")
            continue
        rep.count(f"shared/take_step-history/run_leapfrog-calls-compared={len(o2['reqs'])}")
        if obs["gave_up"]:
            rep.count("shared/take_step-history/every-proposal-rejected")
        sh_exact.append((c2, o2))
        sh_all.append(c2)
    groups["sh_exact"], groups["sh_tol"] = sh_exact, sh_tol
    phase("run implementation: shared-array cases")

    # ---- hamiltonian / kinetic energy
    en_exact, en_tol = [], []
    for k in range(n_energy):
        exact = k % 3 != 2
        case = gen_energy_case(r, exact)
        case["post_keeper"] = [None, "memo", "buffer"][(k // 3) % 3]
        obs = run_energy(case)
        rep.count(f"energy/{'exact' if exact else 'tol'}/{case['mass'][0]}")
        if case["post_keeper"]:
            rep.count("energy/posterior-returns-kept-0d-array/" + case["post_keeper"])
        rep.case(("en", ser(case)))
        if obs["status"] != "ok":
            suspicious.append(("energy", case, obs, obs.get("error")))
            continue
        (en_exact if exact else en_tol).append((case, obs))
    groups["en_exact"], groups["en_tol"] = en_exact, en_tol

    # ---- momentum law
    mom_diag, mom_mat = [], []
    for k in range(n_mom):
        d = r.choice([1, 2, 3])
        if k % 3 == 2:
            Bm = [[r.uniform(-1, 1) for _ in range(d)] for _ in range(d)]
            M = [[sum(Bm[i][q] * Bm[j][q] for q in range(d)) + (0.7 if i == j else 0.0) for j in range(d)]
                 for i in range(d)]
            M = [[F(0.5 * (M[i][j] + M[j][i])) for j in range(d)] for i in range(d)]
            mass = ("matrix", M)
            if d == 1:
                mass = ("matrix", [[F(r.uniform(0.3, 3))]])
        else:
            mass = gen_mass(r, d, allow_matrix=False)
        obs = run_momentum(mass, d, r.randrange(1 << 30))
        rep.count(f"momentum/{mass[0]}")
        rep.case(("mom", ser(mass), ser(obs.get("z"))))
        if obs["status"] != "ok":
            suspicious.append(("momentum", {"mass": mass, "d": d}, obs, obs.get("error")))
            continue
        (mom_mat if mass[0] == "matrix" else mom_diag).append(({"mass": mass, "d": d}, obs))
    groups["mom_diag"], groups["mom_mat"] = mom_diag, mom_mat

    # ---- finite_diff with a scripted posterior
    fd = []
    fd_cases_all = []
    for k in range(n_fd):
        case = gen_fd_case(r)
        fd_cases_all.append(case)
        obs = run_fd(case)
        zero = any(x == 0 for x in case["t"])
        small = any(0 < abs(x) < Fraction(1, 1000) for x in case["t"])
        rep.count("finite_diff/" + ("zero-coordinate" if zero else "below-floor" if small else "relative-step"))
        if case.get("keep"):
            rep.count("finite_diff/posterior-returns-kept-0d-arrays")
        rep.case(("fd", ser(case)))
        if obs["status"] != "ok":
            suspicious.append(("finite_diff", case, obs, obs.get("error")))
            continue
        fd.append((case, obs))
    groups["fd"] = fd

    # ---- write the case files
    def emit(group, name, typ, texts, evals, chunk, header=HEADER):
        for ci, part in chunked(list(enumerate(texts)), chunk):
            body = f"Definition cases : list ({typ}) :=\n " + C.clist([t for _, t in part], ";\n ") + "."
            p = C.write_case_file(PROP, f"{name}_{ci}", header, body, evals)
            files.append(p)
            meta.append((group, [i for i, _ in part]))

    EN_T = "mass * Q * list vec * vec * vec * vec * Q * Q"
    TOL = "(1 # 1000000000000)"
    emit("lf_exact", "lf_exact", "lf_case", [coq_lf(c, o) for c, o in lf_exact], ["failing check_exact cases 0"], 40)
    emit("lf_tol", "lf_tol", "lf_case", [coq_lf(c, o) for c, o in lf_tol], [f"failing (check_tol {TOL}) cases 0"], 10)
    emit("sh_exact", "shared_exact", "sh_case", [coq_shared(c, o) for c, o in sh_exact],
         ["failing check_shared_exact cases 0"], 40, header=HEADER_S)
    emit("sh_tol", "shared_tol", "sh_case", [coq_shared(c, o) for c, o in sh_tol],
         [f"failing (check_shared_tol {TOL}) cases 0"], 4, header=HEADER_S)
    emit("en_exact", "energy_exact", EN_T, [coq_energy(c, o) for c, o in en_exact],
         ["failing check_energy_exact cases 0"], 100)
    emit("en_tol", "energy_tol", EN_T, [coq_energy(c, o) for c, o in en_tol],
         [f"failing (check_energy_tol {TOL}) cases 0"], 25)
    emit("mom_diag", "momentum_diag", "vec * vec * vec * vec * Q",
         [f"({qv(c['mass'][1] if c['mass'][0] == 'vector' else [c['mass'][1]] * c['d'])}, {qv(o['sm'])}, "
          f"{qv(o['z'])}, {qv(o['r'])}, {C.cq(o['K'])})" for c, o in mom_diag],
         ["failing check_momentum_diag cases 0"], 100)
    emit("mom_mat", "momentum_matrix", "list vec * list vec * vec * vec * Q",
         [f"({qm(c['mass'][1])}, {qm(o['L'])}, {qv(o['z'])}, {qv(o['r'])}, {C.cq(o['K'])})" for c, o in mom_mat],
         [f"failing (check_momentum_matrix {TOL}) cases 0"], 20)
    emit("fd", "finite_diff", "Q * Q * Q * vec * Q * vec * list vec * vec", [coq_fd(c, o) for c, o in fd],
         ["failing check_fd cases 0"], 50)

    phase("run implementation: energy, momentum, finite_diff")
    outs = C.run_case_files(files, jobs=14)
    phase("coq case files")
    checked = {g: 0 for g in groups}
    for p, (g, idx), (ok, res, log) in zip(files, meta, outs):
        if not ok or 0 not in res:
            rep.obligation(False)
            viol("C07/correspondence-run", f"case file {p.name} did not evaluate",
                          {"theorem_or_correspondence": f"correspondence file {p.name}", "log": log}, False)
            continue
        rep.obligation(True)
        checked[g] += len(idx)
        for j in res[0]:
            case, obs = groups[g][idx[j]]
            suspicious.append((g, case, obs, "model and implementation disagree"))
    rep.coverage["traces_validated_against_impl"] = (sum(int(v) for v in checked.values())
                                                      if isinstance(checked, dict) else int(checked))
    rep.coverage["traces_validated_breakdown"] = checked
    rep.coverage["correspondence_disagreements"] = len(suspicious)

    # ---- failing-input search on every disagreement
    for g, case, obs, why in suspicious[:40]:
        if g in ("leapfrog", "lf_exact", "lf_tol"):
            if obs is not None and obs.get("status") == "exception":
                viol("C07/exception", f"run_leapfrog failed on a valid input: {why}",
                              {"kind": "leapfrog", "case": describe(case)}, True)
                continue
            bad = oracle_reversibility(case)
            if bad:
                key = KEY_D8 if (case["bounds"] is not None and case["mass"][0] == "matrix") else "C07/reversibility"
                viol(key, bad, {"kind": "reversibility", "case": describe(case)}, True)
            else:
                viol("C07/correspondence/leapfrog",
                              "run_leapfrog and the model disagree; forward-flip-forward still returns to the start "
                              "on this input (see the energy / momentum oracles below)",
                              {"theorem_or_correspondence": "Model.Leapfrog.check_exact / check_tol",
                               "case": describe(case), "impl_output": ser(obs)}, False)
        elif g == "takestep":
            ts = case["takestep"]
            bad = oracle_takestep(case, ts["seed"], ts["steps"], ts["n_take"])
            if bad:
                viol("C07/returned-array-modified" if "wrote into" in bad else "C07/kept-array-trajectory", bad,
                     {"kind": "takestep", "case": describe(case)}, True)
            else:
                viol("C07/exception", f"take_step with callables that keep their arrays: {why}",
                     {"kind": "takestep", "case": describe(case)}, True)
        elif g in ("shared", "sh_exact", "sh_tol"):
            cls, bad = oracle_shared(case, case["exact"])
            if bad:
                small = shrink_shared(case, case["exact"])
                cls, bad = oracle_shared(small, small["exact"])
                key = {"exception": "C07/exception", "modified": "C07/returned-array-modified"}.get(
                    cls, "C07/kept-array-trajectory")
                viol(key, bad, {"kind": "shared", "case": describe(small)}, True)
            else:
                viol("C07/correspondence/shared",
                     f"run_leapfrog with a gradient function that returns {KEEPER_WORDS[case['keeper']]} and the "
                     f"shared-array model disagree ({why}); the returned array is intact and the trajectories are "
                     "those of a fresh-array gradient function",
                     {"theorem_or_correspondence": "Model.LeapfrogShared.check_shared_exact / check_shared_tol",
                      "case": describe(case), "impl_output": ser(obs)}, False)
        elif g in ("energy", "en_exact", "en_tol"):
            if obs is not None and obs.get("status") == "tampered":
                viol("C07/returned-array-modified", f"hamiltonian: {why}",
                     {"kind": "energy_keep", "case": describe(case)}, True)
                continue
            viol("C07/correspondence/energy", f"hamiltonian / kinetic_energy and the model disagree ({why})",
                          {"theorem_or_correspondence": "Model.Leapfrog.check_energy_exact / check_energy_tol",
                           "case": describe(case), "impl_output": ser(obs)}, False)
        elif g in ("momentum", "mom_diag", "mom_mat"):
            bad = None
            try:
                bad = oracle_momentum_law(case["mass"], case["d"], 12345)
            except Exception as e:
                bad = f"sample_momentum / kinetic_energy raised {e!r}"
            if bad:
                viol("C07/momentum-law", bad, {"kind": "momentum", "mass": ser(case["mass"]), "d": case["d"],
                                                        "seed": 12345}, True)
            else:
                viol("C07/correspondence/momentum", "sample_momentum and the model disagree",
                              {"theorem_or_correspondence": "Model.Leapfrog.check_momentum_diag / _matrix",
                               "case": ser(case), "impl_output": ser(obs)}, False)
        elif g in ("finite_diff", "fd"):
            if obs is not None and obs.get("status") == "tampered":
                viol("C07/returned-array-modified", why, {"kind": "fd_keep", "case": ser(case)}, True)
                continue
            qc = fd_quadratic_case(case, rs)
            bad = oracle_fd(qc)
            if bad:
                # shrink to one coordinate if a single zero coordinate suffices
                for i, x in enumerate(qc["t"]):
                    one = dict(qc, t=[x], A=[[qc["A"][i][i]]], b=[qc["b"][i]], r=[Fraction(0)], start=[Fraction(1)])
                    b1 = oracle_fd(one)
                    if b1:
                        qc, bad = one, b1
                        break
                zero = any(x == 0 for x in qc["t"])
                viol(KEY_D7 if zero else "C07/finite-diff", bad,
                              {"kind": "finite_diff", "case": describe(qc)}, True)
            else:
                viol("C07/correspondence/finite_diff",
                              f"finite_diff and the model disagree ({why}); the analytic gradient is still matched",
                              {"theorem_or_correspondence": "Model.Leapfrog.check_fd", "case": ser(case),
                               "impl_output": ser(obs)}, False)

    # ---- the property oracles on the implementation ([R], every run)
    n_rev = 0
    for case, obs in (lf_exact[:: (4 if not thorough else 2)] + lf_tol):
        if case["bounds"] is not None and case["mass"][0] == "matrix":
            continue
        bad = oracle_reversibility(case)
        n_rev += 1
        if bad:
            viol("C07/reversibility", bad, {"kind": "reversibility", "case": describe(case)}, True)
    rep.coverage["reversibility_oracle_runs"] = n_rev
    phase("oracles: reversibility")

    n_sho = 0
    for case in sh_all:
        cls, bad = oracle_shared(case, case["exact"])
        n_sho += 1
        if bad:
            small = shrink_shared(case, case["exact"])
            cls, bad = oracle_shared(small, small["exact"])
            key = {"exception": "C07/exception", "modified": "C07/returned-array-modified"}.get(
                cls, "C07/kept-array-trajectory")
            viol(key, bad, {"kind": "shared", "case": describe(small)}, True)
            break
    rep.coverage["kept_array_oracle_runs"] = n_sho
    phase("oracles: kept arrays")

    bad, ratios, modified = oracle_energy_order(rs, 12 if not thorough else 60)
    for b in modified[:1]:
        viol("C07/returned-array-modified",
             "a step-halving trajectory wrote into an array returned by the user's gradient / log-density function: "
             f"{b['modified']}", {"kind": "energy_order", "case": b}, True)
    rep.coverage["energy_error_ratios_on_step_halving"] = ratios[:6]
    for b in bad[:2]:
        viol("C07/energy-order",
                      "the energy error does not shrink ~4x when the step is halved (expected O(eps^2))",
                      {"kind": "energy_order", "case": b}, True)

    for k, case in enumerate(fd_cases_all[:: (3 if not thorough else 1)]):
        qc = fd_quadratic_case(case, rs)
        b = oracle_fd(qc)
        if b:
            zero = any(x == 0 for x in qc["t"])
            viol(KEY_D7 if zero else "C07/finite-diff", b, {"kind": "finite_diff", "case": describe(qc)}, True)
            break

    for k in range(6):
        d = 1 + k % 3
        mass = gen_mass(rs, d, allow_matrix=True)
        try:
            b = oracle_momentum_law(mass, d, 777 + k)
        except Exception as e:
            b = f"sample_momentum / kinetic_energy raised {e!r}"
        if b:
            viol("C07/momentum-law", b, {"kind": "momentum", "mass": ser(mass), "d": d, "seed": 777 + k}, True)
            break

    # ---- D8: bounds + full mass matrix (expected known finding)
    try:
        err, scale, info = rev_error(D8_CASE)
        rep.coverage["D8_reversibility_error_on_real_code"] = err
        if err > 1e-6 and not info["forward_position_on_wall"]:
            viol(KEY_D8, WHAT_D8 + f" -- error {err:.4g} on the witness",
                          {"kind": "reversibility", "case": describe(D8_CASE)}, True)
    except Exception as e:      # e.g. the combination is rejected by a later version: nothing to report
        rep.coverage["D8_reversibility_error_on_real_code"] = f"not applicable: {e!r}"

    rep.assumptions = [
        "grad respects == on Q (hypothesis of the theorems; true of every function built from field operations)",
        "exact comparisons: inputs are dyadic and pass an a-priori bit budget, so the code's double arithmetic is exact",
        "tolerance comparisons (arbitrary doubles, full matrices): 1e-12 relative, compared inside Coq",
        "finite_diff is tied with a scripted posterior (dyadic values), one rounded division: 2^-48 relative",
        "sqrt / Cholesky are not modelled: sqrt_mass and L are read from the implementation and the momentum law "
        "sqrt_mass^2 * inv_mass = 1 (exact) / L^T M^-1 L = I (1e-12) is checked on them inside Coq",
        "O(eps^2) energy error is a theorem only for quadratic potentials; for smooth non-quadratic ones it is the "
        "[R] step-halving test on the implementation",
        "callables that keep what they return: the gradient function is one of the four kinds of "
        "Model.LeapfrogShared.keeper (new array / stored vector / one-entry cache / output buffer); a log-density "
        "function that rewrites ONE 0-d buffer on every call is not used with finite_diff (which by design holds the "
        "base value across the calls at the shifted points)",
    ]
    phase("oracles: energy order, finite_diff, momentum, D8")
    bounded_fd_part(rep, C.rng_for(PROP, "fd-bounded"), 60 if tier == "quick" else 600)
    phase("bounded finite_diff")
    FDB_THEOREMS = ["C07_finite_diff_b_exact_on_quadratics", "C07_finite_diff_b_error_bound", "C07_finite_diff_b_step"]
    try:      # one coqc run for both extension modules
        _a = C.coq_audit(PROP + "_ext", FDB_THEOREMS + SHARED_THEOREMS,
                         "IT.Properties.C07Bounded IT.Properties.C07Shared")
        rep.obligation(True, len(FDB_THEOREMS) + len(SHARED_THEOREMS))
        rep.coverage["bounded_finite_diff_and_shared_array_audit"] = _a
    except C.ProofFailure as _e:
        rep.obligation(False, len(FDB_THEOREMS) + len(SHARED_THEOREMS))
        rep.violation("C07/proof", f"proof obligation no longer checks: {_e.what}",
                      {"theorem_or_correspondence": _e.what, "log": _e.log[-1000:]}, False)
    phase("audits of C07Bounded / C07Shared")
    return rep.finish(
        level="proof",
        checker_cmd="make -C /verif/coq (coqc 8.16.1, full .vo) + coqc on coq/gen/C07/*.v (vm_compute)",
        trusted_base=C.KERNEL_TB + ["axioms: none (all C07 theorems are closed under the global context)"],
        rule="leapfrog: random linear forces (symmetric dyadic A, b; 1-3 parameters), dyadic (t, r, eps), temperature in "
             "{1/2,1,2,4}, n in 0..8, inverse mass scalar / per-parameter in {1,4,1/4,16} or a dyadic SPD matrix, "
             "half the cases with dyadic bound boxes (reflections counted), compared exactly; plus arbitrary-double "
             "cases incl. random SPD mass matrices at 1e-12; hamiltonian / kinetic_energy on the same families; "
             "sample_momentum with a scripted generator; finite_diff with a scripted posterior at points with zero, "
             "tiny and ordinary coordinates, and (Model.FiniteDiffBounded) inside a bounds box with points on the wall the "
             "relative step points at, on the other wall and inside; a share of the chains has an estimate_mass "
             "history before the compared trajectory; shared-array cases (Model.LeapfrogShared): the gradient function "
             "returns a new array / its stored vector (linear log-densities -rate.x, also truncated to a box) / a "
             "cached array / its output buffer, 1-4 run_leapfrog calls on one chain (a new request, the reversed "
             "previous output, the same request again), trajectory outputs and the final content of the callable's "
             "array compared exactly (dyadic) or at 1e-12; hamiltonian / finite_diff with log-density functions that "
             "return 0-d arrays they keep; distinct = distinct serialised inputs")


# ------------------------------------------------------------------ replay
def replay(path):
    d = json.load(open(path))
    rp = d["replay"]
    kind = rp.get("kind")
    if kind is None and isinstance(rp.get("case"), dict) and rp["case"].get("kind") == "finite_diff_bounded":
        m = rp["case"]
        lo, hi, t = [Fraction(v) for v in m["lower"]], [Fraction(v) for v in m["upper"]], [Fraction(v) for v in m["t"]]
        d = len(t)
        tp = TablePosterior(t, Fraction(m["P"]), [Fraction(v) for v in m["Ps"]],
                            keep=bool(m.get("posterior_returns_kept_0d_arrays")))
        cc = {"mass": ("scalar", Fraction(1)), "T": Fraction(m["T"]), "eps": Fraction(1, 2), "A": zero_matrix(d),
              "b": [Fraction(0)] * d, "bounds": (lo, hi), "t": t, "r": [Fraction(0)] * d, "n": 1, "start": t}
        try:
            with warnings.catch_warnings():
                warnings.simplefilter("ignore")
                chain, _, _ = make_chain(cc, grad_given=False, posterior=tp)
                tp.points.clear()
                G = np.asarray(chain.grad(fl(t)), float)
        except Exception as e:
            print("finite_diff with bounds raised", repr(e))
            return 1
        pts = [pt for pt in tp.points if (pt != tp.t).any()]
        inside = all(float(l) <= x <= float(u_) for pt in pts for x, l, u_ in zip(pt, lo, hi))
        print("finite_diff with bounds:", G.tolist(), "difference points inside the box:", inside,
              "table entries written into:", tp.modified())
        return 1 if (tp.modified() or not np.isfinite(G).all() or len(pts) != d or not inside) else 0
    if kind is None:
        print("replay names a broken theorem / correspondence:", rp.get("theorem_or_correspondence"))
        return 1
    if kind == "reversibility":
        case = deser(rp["case"])
        case["bounds"] = tuple(case["bounds"]) if case.get("bounds") else None
        case["mass"] = tuple(case["mass"])
        err, scale, info = rev_error(case)
        print(f"forward-flip-forward error {err!r} (scale {scale!r}); {info}")
        return 1 if (err > 1e-7 * scale and not info["forward_position_on_wall"]) else 0
    if kind == "finite_diff":
        case = deser(rp["case"])
        case["mass"] = tuple(case["mass"])
        bad = oracle_fd(case)
        print("finite_diff vs analytic gradient:", bad or "agrees")
        return 1 if bad else 0
    if kind == "momentum":
        bad = oracle_momentum_law(tuple(deser(rp["mass"])), int(rp["d"]), int(rp["seed"]))
        print("momentum law:", bad or "holds")
        return 1 if bad else 0
    if kind == "energy_order":
        c = rp["case"]
        mass = np.array(c["mass"]) if isinstance(c["mass"], list) else float(c["mass"])
        tampered = []
        e = energy_profile(c["density"], c["d"], mass, c["T"], c["t0"], c["r0"], keep=c.get("keep"), tamper_out=tampered)
        rr = [e[i] / e[i + 1] for i in range(len(e) - 1)]
        print("max energy errors:", e, "ratios:", rr, "arrays of the callables written into:", tampered[:1])
        return 0 if all(2.9 <= x <= 5.5 for x in rr) and not tampered else 1
    if kind == "shared":
        case = deser(rp["case"])
        case["bounds"] = tuple(case["bounds"]) if case.get("bounds") else None
        case["mass"] = tuple(case["mass"])
        case["history"] = [tuple(o) for o in case.get("history", [])]
        cls, bad = oracle_shared(case, bool(case.get("exact")))
        print(f"gradient function returning {KEEPER_WORDS[case['keeper']]}:", bad or "array intact, trajectories as "
              "with a fresh-array gradient function, reversible")
        return 1 if bad else 0
    if kind == "takestep":
        case = deser(rp["case"])
        case["bounds"] = tuple(case["bounds"]) if case.get("bounds") else None
        case["mass"] = tuple(case["mass"])
        ts = case["takestep"]
        bad = oracle_takestep(case, int(ts["seed"]), int(ts["steps"]), int(ts["n_take"]))
        print("take_step with callables that keep their arrays:", bad or "same chain as with fresh arrays, arrays intact")
        return 1 if bad else 0
    if kind == "energy_keep":
        case = deser(rp["case"])
        case["bounds"] = tuple(case["bounds"]) if case.get("bounds") else None
        case["mass"] = tuple(case["mass"])
        obs = run_energy(case)
        print("hamiltonian with a log-density function that keeps its 0-d array:", obs.get("error") or "fine")
        return 0 if obs["status"] == "ok" else 1
    if kind == "fd_keep":
        obs = run_fd(deser(rp["case"]))
        print("finite_diff with a log-density function that keeps its 0-d arrays:", obs.get("error") or "fine")
        return 0 if obs["status"] == "ok" else 1
    if kind == "leapfrog":
        case = deser(rp["case"])
        case["bounds"] = tuple(case["bounds"]) if case.get("bounds") else None
        case["mass"] = tuple(case["mass"])
        print(run_lf(case))
        return 1
    print("unknown replay kind", kind)
    return 1
