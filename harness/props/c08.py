"""C08 -- parallel-tempering exchanges are correct and independent of scheduling.

Theorems: coq/theories/Properties/C08.v about Model/Tempering.v (pairs disjoint
for every N and script; swap threshold; exchange state + alignment; advance
arithmetic; one-step diamond => schedule independence for every N, coordinator
tree and deterministic handler; worker shutdown).

Tie to the code: the REAL ParallelTempering is run with real processes and pipes
(lib/c08lib.py, in killable subprocesses) on
  * stub chains with dyadic state whose step is a deterministic function of the
    stored point, the stored probability and the chain's own tape, and
  * real MetropolisChain / GibbsChain / PcaChain / HamiltonianChain with scripted RNGs,
    on power-of-two temperature ladders with and without a T = 1 chain, with histories
    that start with steps AND histories that start with swap() on the chains exactly
    as their constructors left them (the constructor is part of the model:
    Model/TemperingStart.real_chain, theorems in Properties/C08Start.v),
with pt.rng and parallel.choice scripted, under >= 7 injected delay patterns.
The results (returned chains, attempted_swaps, successful_swaps) must be identical
across the patterns and equal to the Coq model's sequential reference run, which
is evaluated inside Coq (vm_compute on coq/gen/C08/*.v) -- and which by theorem
C08_reference_run_decides is the result of EVERY schedule of the model.

The same histories are also evaluated with the pure sequential model
(TemperingStart.pure_session / check_pure), about which C08_history_good says that
stored = beta * L(point) holds at every exchange round of every history.

Python only runs the implementation, converts floats to exact rationals, and --
as the failing-input oracle -- recomputes the property itself (exchange rule per
proposed pair with L = the posterior callable evaluated on the chain's current
point, and -- as a second reading -- with L recovered from the chains' own stored
values; hand-over; disjointness; sample counts; worker exit).  When the two readings
give different exchange probabilities but the scripted draw does not separate
them, the draw is placed between them and the configuration is run again.
"""
from __future__ import annotations

import json
import math
import os
import signal
import subprocess
import sys
import tempfile
import time
from concurrent.futures import ThreadPoolExecutor
from fractions import Fraction
from pathlib import Path

from lib import common as C
from lib import c08lib as L

PROP = "C08"
THEOREMS = ["C08_pairs_disjoint", "C08_pairs_disjoint_uniform", "C08_pairs_loop_complete",
            "C08_swap_prob", "C08_swap_prob_temperatures", "C08_swap_prob_real", "C08_exchange_state",
            "C08_exchange_aligned", "C08_swap_round_messages", "C08_advance_total", "C08_advance_shape",
            "C08_steps_diamond", "C08_schedule_independent", "C08_schedule_independent_pt",
            "C08_reference_run_decides", "C08_return_chains_pinned_refuted",
            "C08_shutdown_terminates"]

# Properties/C08Start.v (constructor of the chain classes; histories that begin with
# swap(); audited as a second module)
START_THEOREMS = ["C08_fresh_chain_good", "C08_fresh_chain_fields", "C08_swap_first_prob",
                  "C08_swap_first_state", "C08_untempered_start_refuted", "C08_round_decision",
                  "C08_swap_round_good", "C08_history_good", "C08_stub_session_good"]

HEADER = """From Coq Require Import List Arith ZArith QArith.
From IT Require Import Model.Tempering Model.TemperingStart.
Import ListNotations.
Open Scope Q_scope.
"""

RUNNER = str(Path(L.__file__).resolve())


# ---------------------------------------------------------------- Coq literals
def q(x) -> str:
    f = Fraction(x)
    n = f"({f.numerator})" if f.numerator < 0 else f"{f.numerator}"
    return f"({n} # {f.denominator})"


def qpoint(xs) -> str:
    return C.clist([q(x) for x in xs])


def natlist(xs) -> str:
    return "(" + C.clist([str(int(x)) for x in xs]) + ")%nat"


def coq_call(c) -> str:
    if c[0] == "take_steps":
        return f"CTakeSteps {int(c[1])}%nat"
    if c[0] == "swap":
        return "CSwap"
    if c[0] == "advance":
        return f"CAdvance {int(c[1])}%nat {int(c[2])}%nat"
    if c[0] == "return":
        return "CReturnChains"
    raise ValueError(c)


def coq_hist(h) -> str:
    return C.clist([f"({qpoint(p)}, {q(pr)})" for p, pr in zip(h["points"], h["probs"])])


def coq_matrix(m) -> str:
    return C.clist(["(" + C.clist([str(int(v)) for v in row]) + ")%Z" for row in m])


# ---------------------------------------------------------------- configurations
def total_steps_of(calls):
    return sum(c[1] for c in calls if c[0] in ("take_steps", "advance"))


def n_swaps_of(calls):
    n = 0
    for c in calls:
        if c[0] == "swap":
            n += 1
        elif c[0] == "advance":
            n += c[1] // c[2]
    return n


def gen_unis(r, n):
    out = []
    for _ in range(n):
        m = r.random()
        if m < 0.15:
            out.append(Fraction(r.randint(1, 1 << 10), 1 << 40))
        elif m < 0.3:
            out.append(1 - Fraction(r.randint(1, 1 << 10), 1 << 30))
        else:
            out.append(Fraction(r.randint(0, (1 << 30) - 1), 1 << 30))
    return out


def gen_calls(r, N, s_kind, big_cycles=False):
    """A sequence of take_steps / swap / advance / return calls, always ending in return."""
    if big_cycles:                      # total_cycles > 50: the `k = total_cycles` branch
        s = 1
        n = r.randint(51, 56)
        return [["advance", n, s], ["return"]], s
    if s_kind == "1":
        s, n = 1, r.randint(3, 9)
    elif s_kind == "3":
        s, n = 3, r.randint(4, 14)
    elif s_kind == "10":
        s, n = 10, r.randint(10, 24)
    else:
        n = r.randint(2, 9)
        s = n + r.randint(1, 5)
    shape = r.choice(["adv", "adv", "pre", "two", "manual"])
    if shape == "adv":
        calls = [["advance", n, s], ["return"]]
    elif shape == "pre":
        calls = [["take_steps", r.randint(0, 3)], ["swap"], ["return"], ["advance", n, s], ["return"]]
    elif shape == "two":
        calls = [["advance", n, s], ["return"], ["swap"], ["advance", r.randint(1, 5), r.choice([1, 2, 4])],
                 ["return"]]
    else:
        calls = [["swap"], ["take_steps", 2], ["swap"], ["swap"], ["return"], ["advance", n, s], ["return"]]
    return calls, s


def base_job(r, kind, N, calls, dp, seed, ladder=None):
    dim = r.choice([1, 2]) if kind == "stub" else r.choice([1, 2, 3])
    ladder = ladder or r.choice(["pow2", "pow2", "pow4", "shifted"])
    if ladder == "pow2":
        temps = [Fraction(2) ** i for i in range(N)]
    elif ladder == "pow4":
        temps = [Fraction(4) ** i for i in range(N)]
    else:
        temps = [Fraction(2) ** (i + 1) for i in range(N)]     # no T = 1 chain
    quad = [(r.choice([Fraction(1, 4), Fraction(1, 2), Fraction(1), Fraction(2)]),
             Fraction(r.randint(-4, 4), 2)) for _ in range(dim)]
    ns = n_swaps_of(calls)
    job = {
        "kind": kind, "N": N, "seed": seed, "display_progress": dp,
        "temps": [str(t) for t in temps],
        "quad": [[str(a), str(m)] for a, m in quad],
        "starts": [[str(Fraction(r.randint(-6, 6), 2)) for _ in range(dim)] for _ in range(N)],
        "calls": calls, "total_steps": total_steps_of(calls),
        "choices": [r.randint(0, 1 << 16) for _ in range(ns * (2 * N + 1) + 4)],
        "draws": [r.randint(0, 1 << 16) for _ in range(ns * (N + 1) + 4)],
        "unis": [str(u) for u in gen_unis(r, ns * (2 * N + 1) + 4)],
        "timeout": 60,
    }
    return job


def gen_stub_job(r, N, s_kind, dp, seed, big_cycles=False):
    calls, s = gen_calls(r, N, s_kind, big_cycles)
    job = base_job(r, "stub", N, calls, dp, seed)
    dim = len(job["quad"])
    tapes = []
    for _ in range(N):
        tape = []
        for _ in range(job["total_steps"]):
            d = [str(Fraction(r.randint(-4, 4), r.choice([1, 2]))) for _ in range(dim)]
            m = r.random()
            if m < 0.3:
                c = Fraction(-1000)                 # always accepted
            elif m < 0.5:
                c = Fraction(0)                     # only uphill
            else:
                c = Fraction(-r.randint(1, 64), 8)
            tape.append([d, str(c)])
        tapes.append(tape)
    job["tapes"] = tapes
    job["swap_interval"] = s
    job["runs"] = [[p, "plain"] for p in L.PATTERNS] + [["none", "oracle"]]
    return job


REAL_KINDS = ("metropolis", "gibbs", "pca", "hmc")


def pow2_ladder(r, N, which):
    """Temperature ladders of powers of two (so that the samplers' float arithmetic
    on inv_temp is exact): 2^i, 4^i, 2^(i+1) (no T = 1 chain), or irregular gaps."""
    if which == "pow2":
        return [Fraction(2) ** i for i in range(N)]
    if which == "pow4":
        return [Fraction(4) ** i for i in range(N)]
    if which == "shifted":
        return [Fraction(2) ** (i + 1) for i in range(N)]
    e, out = r.choice([0, 0, 1]), []                 # "gaps"
    for _ in range(N):
        out.append(Fraction(2) ** e)
        e += r.choice([1, 1, 2, 3])
    return out


def gen_real_job(r, kind, N, dp, seed, first="steps", ladder="pow2", starts="random"):
    """Real sampler classes.  first = "steps": the history starts with steps (advance,
    or take_steps + swap + advance).  first = "swap": it starts with an exchange round
    on the chains exactly as their constructors left them (shapes A/B/C below).
    starts = "graded": the hotter a chain the better its start point, so that every
    proposed pair of the first round has exchange probability exactly 1;
    "graded-rev": the colder the better (probability << 1)."""
    n = r.randint(3, 7)
    s = r.choice([1, 2, 3])
    calls = [["advance", n, s], ["return"]]
    if first == "swap":
        shape = r.choice(["A", "B", "C"])
        if shape == "A":
            calls = [["swap"], ["return"], ["take_steps", r.randint(1, 2)], ["swap"]] + calls
        elif shape == "B":          # two rounds before any step
            calls = [["swap"], ["swap"], ["return"]] + calls
        else:                       # take_steps(0) is not a step either
            calls = [["take_steps", 0], ["swap"], ["return"], ["swap"]] + calls
    elif r.random() < 0.5:
        calls = [["take_steps", 1], ["swap"]] + calls
    job = base_job(r, kind, N, calls, dp, seed, ladder="pow2")
    job["temps"] = [str(t) for t in pow2_ladder(r, N, ladder)]
    job["ladder"] = ladder
    job["first"] = first
    dim = len(job["quad"])
    if starts != "random":
        # start_i = mode + rad_i * e_0 with rad_i decreasing (graded) / increasing (graded-rev) in i
        rads = [Fraction(12 - i, 2) for i in range(N)]
        if starts == "graded-rev":
            rads = rads[::-1]
        sg = r.choice([1, -1])
        job["starts"] = [[str(Fraction(job["quad"][0][1]) + sg * rads[i])] +
                         [job["quad"][k][1] for k in range(1, dim)] for i in range(N)]
    job["starts_kind"] = starts
    job["widths"] = [[str(Fraction(r.choice([1, 2, 4]), 2)) for _ in range(dim)] for _ in range(N)]
    job["epsilon"] = "1/4"
    job["swap_interval"] = s
    job["runs"] = [[p, "oracle"] for p in L.PATTERNS]
    return job


def gen_jobs(tier):
    r = C.rng_for(PROP, "configs")
    r2 = C.rng_for(PROP, "swap-first")
    jobs = []
    seed = 1
    reps = 1 if tier == "quick" else 3
    for _ in range(reps):
        for N in (1, 2, 3, 4, 5, 6):
            for s_kind in ("1", "3", "10", "big"):
                dp = (len(jobs) % 2 == 0)
                jobs.append(gen_stub_job(r, N, s_kind, dp, seed))
                seed += 1
        for N, dp in ((2, True), (3, False)):
            jobs.append(gen_stub_job(r, N, "1", dp, seed, big_cycles=True))
            seed += 1
        for kind, N, dp in (("gibbs", 2, True), ("gibbs", 3, False), ("gibbs", 5, True), ("gibbs", 4, False),
                            ("hmc", 2, False), ("hmc", 3, True), ("hmc", 4, False),
                            ("metropolis", 3, True), ("pca", 4, False)):
            jobs.append(gen_real_job(r, kind, N, dp, seed, ladder=r.choice(["pow2", "pow2", "pow4", "gaps"])))
            seed += 1
        # histories that BEGIN with an exchange round, every chain class, every ladder
        # kind (with and without a T = 1 chain), N = 1..6
        plan = [("metropolis", 2, "graded", "shifted"), ("gibbs", 3, "graded", "pow2"),
                ("pca", 2, "graded", "pow4"), ("hmc", 3, "graded", "gaps"),
                ("metropolis", 5, "random", "pow2"), ("gibbs", 6, "random", "shifted"),
                ("pca", 4, "random", "gaps"), ("hmc", 5, "graded-rev", "shifted"),
                ("pca", 1, "random", "shifted"), ("gibbs", 2, "graded-rev", "pow4"),
                ("metropolis", 4, "graded", "gaps"), ("pca", 3, "graded", "shifted")]
        for k, (kind, N, st, lad) in enumerate(plan):
            jobs.append(gen_real_job(r2, kind, N, k % 2 == 0, seed, first="swap", ladder=lad, starts=st))
            seed += 1
    return jobs


# ---------------------------------------------------------------- running the code
def run_job(job, outer_timeout=600):
    """One runner subprocess per configuration (all its delay patterns, sequentially).
    The whole process group is killed on the outer timeout or on any exit path."""
    with tempfile.TemporaryDirectory(prefix="c08_") as td:
        jin, jout = Path(td) / "job.json", Path(td) / "out.json"
        jin.write_text(json.dumps(job))
        env = dict(os.environ)
        env["VERIF_REPO"] = str(C.REPO)
        env["PYTHONPATH"] = str(C.REPO) + os.pathsep + env.get("PYTHONPATH", "")
        p = subprocess.Popen([sys.executable, RUNNER, "--in", str(jin), "--out", str(jout)],
                             stdout=subprocess.DEVNULL, stderr=subprocess.PIPE, env=env,
                             start_new_session=True, text=True, errors="replace")
        try:
            try:
                _, err = p.communicate(timeout=outer_timeout)
            except subprocess.TimeoutExpired:
                err = "[runner killed after outer timeout]"
        finally:
            try:
                os.killpg(p.pid, signal.SIGKILL)      # runner and any stray worker processes
            except (ProcessLookupError, PermissionError):
                pass
            try:
                p.communicate(timeout=5)
            except Exception:  # noqa: BLE001
                pass
        if jout.exists():
            out = json.loads(jout.read_text())
            out["stderr"] = (err or "")[-1500:]
            return out
        return {"runs": [{"pattern": job["runs"][0][0], "mode": job["runs"][0][1], "status": "runner-failed",
                          "error": (err or "")[-1500:]}], "stderr": (err or "")[-1500:]}


# ---------------------------------------------------------------- the property, recomputed
def last_state(snap):
    return [([Fraction(v) for v in h["points"][-1]], Fraction(h["probs"][-1]), len(h["points"]))
            for h in snap]


def true_logp(job):
    """The untempered log-density L of a point: the posterior callable handed to the
    chains (lib/c08lib.DelayedQuad, the same float operations, no delay), evaluated
    on the point -- never derived from values stored by the library."""
    import numpy as np
    post = L.DelayedQuad([(Fraction(a), Fraction(m)) for a, m in job["quad"]], [])

    def f(pt):
        v = post(np.array([float(x) for x in pt], dtype=float))
        return Fraction(*float(v).as_integer_ratio())
    return f


def swap_rule(betas, i, j, Li, Lj):
    d = (betas[i] - betas[j]) * (Lj - Li)
    return d, (1.0 if d >= 0 else math.exp(float(d)))


def oracle_swaps(job, run, mismatches=None):
    """Evaluate C08's exchange clauses on an oracle-mode run: the exchange rule with
    L = posterior(current point), the hand-over with the received point's L
    re-expressed at the receiving temperature, and (as before) the same two clauses
    with L recovered from the chains' own stored values.  Returns a list of failure
    strings.  `mismatches` (optional list) receives (global index of the uniform
    draw, threshold from posterior(point), threshold the stored values give) for
    every proposed pair where the two differ: the code then exchanges with the
    wrong probability even if this particular draw did not show it."""
    bad = []
    N = job["N"]
    betas = [1 / Fraction(t) for t in job["temps"]]
    logp = true_logp(job)
    u_base = 0
    for k, sw in enumerate(run.get("swaps", [])):
        if "before" not in sw or "after" not in sw:
            continue
        pairs = [tuple(p) for pr in sw["proposed"] for p in pr["pairs"]]
        flat = [x for p in pairs for x in p]
        if len(set(flat)) != len(flat):
            bad.append(f"swap {k}: chain proposed in more than one pair: {pairs}")
        if any(not (0 <= x < N) for x in flat):
            bad.append(f"swap {k}: pair index out of range: {pairs}")
        if len(sw["proposed"]) != 1:
            bad.append(f"swap {k}: pairing routine called {len(sw['proposed'])} times")
        b, a = last_state(sw["before"]), last_state(sw["after"])
        us = [Fraction(u) for u in sw["unis"]]
        if len(us) != len(pairs):
            bad.append(f"swap {k}: {len(us)} uniform draws for {len(pairs)} proposed pairs")
            continue
        touched = set()
        for pi_, ((i, j), u) in enumerate(zip(pairs, us)):
            if i == j:
                bad.append(f"swap {k}: pair ({i},{j}) of a chain with itself")
                continue
            if not (0 <= i < N and 0 <= j < N):
                continue
            accepted = sw["succ_delta"][i][j] == 1
            if sw["att_delta"][i][j] != 1:
                bad.append(f"swap {k}: attempted_swaps[{i},{j}] changed by {sw['att_delta'][i][j]}")
            # (1) the property with L = posterior(current point)
            Li, Lj = logp(b[i][0]), logp(b[j][0])
            d, thr = swap_rule(betas, i, j, Li, Lj)
            first = all(n_ == 1 for (_, _, n_) in (b[i], b[j]))
            if d >= 0 or abs(float(u) - thr) > 1e-9 * max(float(u), thr):
                want = (d >= 0) or (float(u) <= thr)
                if want != accepted:
                    bad.append(f"swap {k}: pair ({i},{j}) T=({job['temps'][i]},{job['temps'][j]}) "
                               f"L=posterior(point)=({float(Li):.6g},{float(Lj):.6g})"
                               f"{' [start points, no step taken yet]' if first else ''} u={float(u):.6g} "
                               f"threshold min(1,exp({float(d):.6g}))={thr:.6g}: should be "
                               f"{'accepted' if want else 'rejected'}, was {'accepted' if accepted else 'rejected'}")
            # (2) as before: the same rule with L recovered from the stored values
            Lsi, Lsj = b[i][1] / betas[i], b[j][1] / betas[j]
            ds, thrs = swap_rule(betas, i, j, Lsi, Lsj)
            if ds >= 0 or abs(float(u) - thrs) > 1e-9 * max(float(u), thrs):
                want = (ds >= 0) or (float(u) <= thrs)
                if want != accepted:
                    bad.append(f"swap {k}: pair ({i},{j}) u={float(u):.6g} threshold exp({float(ds):.6g})="
                               f"{thrs:.6g} (from the stored values): should be "
                               f"{'accepted' if want else 'rejected'}, was {'accepted' if accepted else 'rejected'}")
            if mismatches is not None and thr != thrs:
                mismatches.append({"uni_index": u_base + pi_, "swap": k, "pair": [i, j], "thr_true": thr,
                                   "thr_stored": thrs, "stored": [str(b[i][1]), str(b[j][1])],
                                   "beta_L": [str(betas[i] * Li), str(betas[j] * Lj)]})
            if accepted:
                touched.update((i, j))
                for x, y, Ly, Lsy in ((i, j, Lj, Lsj), (j, i, Li, Lsi)):
                    if a[x][0] != b[y][0]:
                        bad.append(f"swap {k}: after the exchange chain {x} does not hold chain {y}'s point")
                    if a[x][1] != betas[x] * Ly:
                        bad.append(f"swap {k}: chain {x} (T={job['temps'][x]}) now holds chain {y}'s point and stores "
                                   f"{float(a[x][1]):.6g} instead of posterior(point)/T = {float(betas[x] * Ly):.6g}")
                    if a[x][1] != betas[x] * Lsy:
                        bad.append(f"swap {k}: chain {x} stores {a[x][1]} instead of beta_{x}*L_{y} = {betas[x] * Lsy}")
        u_base += len(us)
        for x in range(N):
            if a[x][2] != b[x][2]:
                bad.append(f"swap {k}: chain {x} changed length during a swap")
            if x not in touched and (a[x][0] != b[x][0] or a[x][1] != b[x][1]):
                bad.append(f"swap {k}: unexchanged chain {x} was modified")
        for x in range(N):       # older samples never change
            hb, ha = sw["before"][x], sw["after"][x]
            if hb["points"][:-1] != ha["points"][:-1] or hb["probs"][:-1] != ha["probs"][:-1]:
                bad.append(f"swap {k}: chain {x}: samples before the current one changed")
    return bad


def oracle_counts(job, run):
    """Every chain advanced by the requested number of steps; n // swap_interval swap
    rounds per advance; complete chains returned; workers exited on shutdown."""
    bad = []
    N = job["N"]
    expected_len = 1
    snaps = iter(run.get("snaps", []))
    call_ops = run.get("call_ops", [])
    for ci, call in enumerate(job["calls"]):
        ops = call_ops[ci] if ci < len(call_ops) else []
        if call[0] in ("take_steps", "advance"):
            expected_len += call[1]
        if call[0] == "advance":
            nsw = sum(1 for o in ops if o[0] == "swap")
            if nsw != call[1] // call[2]:
                bad.append(f"advance({call[1]}, swap_interval={call[2]}) performed {nsw} swap rounds, "
                           f"expected {call[1] // call[2]}")
            blk = [o[1] for o in ops if o[0] == "steps"]
            if any(b > call[2] for b in blk):
                bad.append(f"advance({call[1]}, {call[2]}): a block of {max(blk)} steps without a swap")
        if call[0] == "return" and run["mode"] == "plain":
            snap = next(snaps, None)
            if snap is None:
                bad.append("return_chains() produced no snapshot")
                continue
            if len(snap) != N:
                bad.append(f"return_chains() returned {len(snap)} chains for {N} processes")
            for x, h in enumerate(snap):
                if len(h["points"]) != expected_len or len(h["probs"]) != expected_len:
                    bad.append(f"chain {x} has {len(h['points'])} samples / {len(h['probs'])} probabilities after "
                               f"{expected_len - 1} requested steps")
                if Fraction(h["inv_temp"]) != 1 / Fraction(job["temps"][x]):
                    bad.append(f"returned chain {x} has the wrong temperature (chains out of order)")
    if run["mode"] == "oracle" and run.get("snaps"):
        for x, h in enumerate(run["snaps"][-1]):
            if len(h["points"]) != expected_len:
                bad.append(f"chain {x} has {len(h['points'])} samples after {expected_len - 1} requested steps")
    sd = run.get("shutdown")
    if sd is None:
        bad.append("shutdown() was not reached")
    else:
        if any(sd["alive"]):
            bad.append(f"worker processes still alive after shutdown(): {sd['alive']}")
        if any(e != 0 for e in sd["exitcodes"]):
            bad.append(f"worker exit codes after shutdown(): {sd['exitcodes']}")
    return bad


def result_key(run):
    """What must not depend on the schedule."""
    return json.dumps({"snaps": run.get("snaps"), "att": run.get("att"), "succ": run.get("succ"),
                       "proposed": run.get("proposed"), "ops": run.get("ops")}, sort_keys=True)


def margin_ok(job, run):
    """All accept decisions of an oracle-mode run are at least 1e-9 away from their
    threshold (so the float comparison in the code and the exact one in Coq agree)."""
    betas = [1 / Fraction(t) for t in job["temps"]]
    for sw in run.get("swaps", []):
        if "before" not in sw:
            return True
        b = last_state(sw["before"])
        pairs = [tuple(p) for pr in sw["proposed"] for p in pr["pairs"]]
        for (i, j), u in zip(pairs, sw["unis"]):
            if not (0 <= i < len(b) and 0 <= j < len(b)):
                continue
            d = (betas[i] - betas[j]) * (b[j][1] / betas[j] - b[i][1] / betas[i])
            uf, thr = float(Fraction(u)), math.exp(float(d))
            if d < 0 and abs(uf - thr) <= 1e-9 * max(uf, thr):
                return False
    return True


# ---------------------------------------------------------------- Coq side
def fuel_for(job, calls):
    N = job["N"]
    n_ops = 0
    for c in calls:
        if c[0] == "advance":
            n_ops += 2 * (c[1] // c[2]) + 1
        else:
            n_ops += 1
    return n_ops * (3 * N + 2 * (N // 2) + 2) + 20


def coq_case_stub(job, run):
    chains = []
    for i in range(job["N"]):
        beta = 1 / Fraction(job["temps"][i])
        tape = C.clist([f"({qpoint(d)}, {q(c)})" for d, c in job["tapes"][i]])
        quad = C.clist([f"({q(a)}, {q(m)})" for a, m in job["quad"]])
        chains.append(f"stub_chain {q(beta)} {qpoint(job['starts'][i])} {tape} {quad}")
    return coq_case(job, run, chains, job["calls"])


def replay_tapes(job, run):
    """For real samplers: what each take_step appended, read off the snapshots
    taken before every swap and at every return (an exchange only ever rewrites the
    newest entry, and a snapshot precedes every swap)."""
    N = job["N"]
    known = [1] * N
    tapes = [[] for _ in range(N)]
    for snap in run["snaps"]:
        for x, h in enumerate(snap):
            Lh = len(h["points"])
            for t in range(known[x], Lh):
                tapes[x].append((h["points"][t], h["probs"][t]))
            known[x] = max(known[x], Lh)
    return tapes


def coq_case_real(job, run):
    tapes = replay_tapes(job, run)
    quad = C.clist([f"({q(a)}, {q(m)})" for a, m in job["quad"]])
    chains = []
    for i in range(job["N"]):
        beta = 1 / Fraction(job["temps"][i])
        tape = C.clist([f"({qpoint(p)}, {q(pr)})" for p, pr in tapes[i]])
        # the chain as its CONSTRUCTOR leaves it (Model/TemperingStart.real_chain: one sample,
        # the start point, stored value posterior(start) * inv_temp) -- not the observed first entry
        chains.append(f"real_chain {q(beta)} {qpoint(job['starts'][i])} {tape} {quad}")
    return coq_case(job, run, chains, run["flat_calls"])


def coq_case(job, run, chains, calls):
    snaps = C.clist([C.clist([coq_hist(h) for h in snap], ";\n    ") for snap in run["snaps"]], ";\n   ")
    return ("mkCase\n  " + C.clist(chains, ";\n   ") + "\n  " + C.clist([coq_call(c) for c in calls]) +
            "\n  " + natlist(job["choices"]) + "\n  " + natlist(job["draws"]) +
            "\n  " + C.clist([q(u) for u in job["unis"]]) +
            f"\n  {fuel_for(job, calls)}%nat\n  " + snaps +
            "\n  " + coq_matrix(run["att"]) + "\n  " + coq_matrix(run["succ"]))


CODES = {1: "the model's run did not complete (fuel / blocked coordinator)",
         2: "protocol error in the model (unexpected reply)",
         3: "an accept decision fell into the undecided gap of the exp bounds",
         4: "returned chains differ from the model's reference run",
         5: "attempted_swaps differ from the model's reference run",
         6: "successful_swaps differ from the model's reference run",
         7: "two scheduling policies of the model disagree (contradicts the theorem)"}


def first_is_swap(calls):
    """The history reaches an exchange round before any chain has taken a step."""
    for c in calls:
        if c[0] == "swap":
            return True
        if c[0] in ("take_steps", "advance") and c[1] > 0:
            return False            # advance() always steps before its first round
    return False


def targeted_draw(job, mism):
    """Failing-input search: for the first proposed pair whose exchange probability
    differs between L = posterior(point) and L recovered from the stored values,
    replace the scripted uniform draw of that pair by one between the two
    probabilities and run the configuration again (no delays).  Returns
    (modified job, failures) or None."""
    for m in mism[:4]:
        lo, hi = sorted((m["thr_true"], m["thr_stored"]))
        if not (hi > 0 and lo < 1):
            continue
        hi = min(hi, 1.0)
        k = int(((lo + hi) / 2) * (1 << 40))
        u = Fraction(k, 1 << 40)
        if not (lo * (1 + 1e-6) < float(u) < hi * (1 - 1e-6) and 0 < u < 1):
            continue
        unis = list(job["unis"])
        if m["uni_index"] >= len(unis):
            continue
        unis[m["uni_index"]] = str(u)
        j2 = dict(job, unis=unis, runs=[["none", "oracle"]])
        out = run_job(j2)
        bad = []
        for r_ in out["runs"]:
            if r_["status"] == "ok":
                bad += oracle_swaps(j2, r_)
        if bad:
            return j2, bad
    return None


# ---------------------------------------------------------------- the check
def describe(job, pattern=None, mode=None):
    d = {k: job[k] for k in job if k not in ("runs",)}
    if pattern is not None:
        d["runs"] = [[pattern, mode or "oracle"]]
    else:
        d["runs"] = job["runs"]
    return d


def run(rep: C.Report, tier: str) -> int:
    import warnings
    warnings.simplefilter("ignore")
    C.clean_gen(PROP)
    C.prove_and_audit(rep, PROP, THEOREMS)
    try:
        info = C.coq_audit(PROP + "_start", START_THEOREMS, "IT.Properties.C08Start")
        rep.obligation(True, len(START_THEOREMS))
        rep.coverage["start_history_audit"] = info
    except C.ProofFailure as e:
        rep.obligation(False, len(START_THEOREMS))
        rep.violation("C08/proof", f"proof obligation no longer checks: {e.what}",
                      {"theorem_or_correspondence": e.what, "log": e.log[-1500:]}, False)
    jobs = gen_jobs(tier)
    t0 = time.time()
    with ThreadPoolExecutor(max_workers=12) as ex:
        outs = list(ex.map(run_job, jobs))
    # a timeout is only believed if it repeats with a three times longer limit
    # (machine load must not turn into a verdict about the code)
    for ji, out in enumerate(outs):
        if any(r_["status"] in ("timeout", "runner-failed") for r_ in out["runs"]):
            rep.count("re-run after timeout")
            outs[ji] = run_job(dict(jobs[ji], timeout=3 * jobs[ji]["timeout"]), outer_timeout=1800)
    rep.coverage["implementation_runs_wall_s"] = round(time.time() - t0, 1)

    coq_cases = []       # (job index, text)
    pair_cases_t, plan_cases = [], []
    suspicious = {}      # job index -> reason
    n_runs = 0
    for ji, (job, out) in enumerate(zip(jobs, outs)):
        runs = out["runs"]
        ok_runs = [r_ for r_ in runs if r_["status"] == "ok"]
        n_runs += len(ok_runs)
        rep.count(f"kind={job['kind']}")
        rep.count(f"N={job['N']}")
        rep.count("first call=" + ("swap (no step taken yet)" if first_is_swap(job["calls"]) else "steps"))
        if job["kind"] != "stub":
            rep.count(f"ladder={job.get('ladder')}" + ("" if Fraction(job["temps"][0]) == 1 else " (no T=1 chain)"))
            if job.get("first") == "swap":
                rep.count(f"swap-first: {job['kind']}, starts={job.get('starts_kind')}")
        rep.count(f"swap_interval={job.get('swap_interval')}" if job.get("swap_interval", 0) <= 10
                  else "swap_interval>n")
        rep.count(f"display_progress={job['display_progress']}")
        rep.case((job["kind"], job["N"], job["calls"], job["temps"], job["seed"]), nontrivial=job["N"] >= 2)
        for r_ in ok_runs:
            rep.count("delay=" + r_["pattern"] + "/" + r_["mode"])
        if ji < 2:
            rep.sample({"kind": job["kind"], "N": job["N"], "temps": job["temps"], "calls": job["calls"],
                        "display_progress": job["display_progress"],
                        "attempted_swaps": ok_runs[0]["att"] if ok_runs else None,
                        "successful_swaps": ok_runs[0]["succ"] if ok_runs else None})

        # 1. a run that failed outright
        failed = [r_ for r_ in runs if r_["status"] not in ("ok", "skipped")]
        if failed:
            f = failed[0]
            key = "C08/run-failed"
            if not job["display_progress"] and f.get("phase") in ("return_chains", "swap") \
                    and f["status"] in ("worker-died", "timeout", "exception"):
                key = "C08/D9-chain-not-picklable"
            rep.violation(key,
                          f"ParallelTempering {f['status']} in phase {f.get('phase')} "
                          f"(display_progress={job['display_progress']}, N={job['N']}): {f.get('error')}",
                          {"case": describe(job, f["pattern"], f["mode"]),
                           "worker_stderr": out.get("stderr", "")[-600:]}, True)
            continue

        # 2. the property itself on every run
        prop_bad = []
        mism = []
        for r_ in ok_runs:
            mm = []
            b = oracle_counts(job, r_) + (oracle_swaps(job, r_, mm) if r_["mode"] == "oracle" else [])
            if b:
                prop_bad.append((r_, b))
            if mm and not mism:
                mism = mm
        if mism and not prop_bad:
            # the stored values entering a round give another exchange probability than
            # posterior(point) does, but the scripted draw did not fall between the two:
            # place the draw between them and run again (failing-input search)
            found = targeted_draw(job, mism)
            if found is not None:
                j2, b = found
                rep.count("failing input found by a targeted uniform draw")
                rep.violation("C08/property", "; ".join(b[:3]), {"case": describe(j2), "failures": b[:10]}, True)
                continue
        # 3. schedule independence, observed
        by_mode = {}
        for r_ in ok_runs:
            by_mode.setdefault(r_["mode"], []).append(r_)
        for mode, rs in by_mode.items():
            keys = {}
            for r_ in rs:
                keys.setdefault(result_key(r_), []).append(r_["pattern"])
            rep.obligation(len(keys) == 1)
            if len(keys) > 1:
                groups = list(keys.values())
                prop_bad.append((rs[0], [f"results depend on the schedule: delay patterns {groups[0]} and "
                                         f"{groups[1]} give different chains / counters"]))
        plain = by_mode.get("plain", [])
        orc = by_mode.get("oracle", [])
        if plain and orc:       # oracle-mode (extra snapshots) must not change the outcome
            same = (plain[0]["att"] == orc[0]["att"] and plain[0]["succ"] == orc[0]["succ"]
                    and plain[0]["snaps"][-1] == orc[0]["snaps"][-1])
            rep.obligation(same)
            if not same:
                prop_bad.append((orc[0], ["taking return_chains() snapshots around swaps changed the result"]))
        if prop_bad:
            r_, b = prop_bad[0]
            rep.violation("C08/property", "; ".join(b[:3]),
                          {"case": describe(job, r_["pattern"], "oracle"), "failures": b[:10]}, True)
            continue

        # 4. correspondence with the model, inside Coq
        if orc and not margin_ok(job, orc[0]):
            rep.count("skipped: accept decision within 1e-9 of its threshold")
            continue
        for sw in (orc[0].get("swaps", []) if orc else []):
            for pr in sw["proposed"]:
                for a_, b_ in pr["pairs"]:
                    rep.count("exchange=" + ("accepted" if sw["succ_delta"][a_][b_] else "rejected"))
                    rep.count("pair-gap=" + (str(abs(a_ - b_)) if abs(a_ - b_) <= 2 else ">2 (leftover pairing)"))
        if job["kind"] == "stub":
            distinct = {}
            for r_ in plain:
                distinct.setdefault(result_key(r_), r_)
            for r_ in distinct.values():
                coq_cases.append((ji, coq_case_stub(job, r_)))
        else:
            coq_cases.append((ji, coq_case_real(job, orc[0])))
        for ci, call in enumerate(job["calls"]):
            if call[0] == "advance":
                ops = (plain or orc)[0]["call_ops"][ci]
                txt = C.clist([f"TakeSteps {o[1]}%nat" if o[0] == "steps" else "Swap" for o in ops])
                plan_cases.append((ji, f"({call[1]}%nat, {call[2]}%nat, {txt})"))

    # pairing routines alone, many N and scripts, on the real methods (no processes needed)
    pair_t, pair_u, pair_bad = pairing_cases(tier)
    for b in pair_bad:
        rep.violation("C08/property", b["what"], {"case": b["case"]}, True)

    files, index = [], []
    CH = 6
    for i in range(0, len(coq_cases), CH):
        chunk = coq_cases[i:i + CH]
        body = "Definition cases : list pt_case :=\n " + C.clist([t for _, t in chunk], ";\n ") + "."
        files.append(C.write_case_file(PROP, f"cases_{i // CH}", HEADER, body,
                                       ["failing cases", "map check_case cases", "map check_pure cases"]))
        index.append([k for k, _ in chunk])
    body = ("Definition tcases : list (nat * list nat * list nat * list pair) :=\n " +
            C.clist(pair_t, ";\n ") + ".\n" +
            "Definition ucases : list (nat * list nat * list pair) :=\n " + C.clist(pair_u, ";\n ") + ".\n" +
            "Definition pcases : list (nat * nat * list op) :=\n " + C.clist([t for _, t in plan_cases], ";\n ") + ".")
    files.append(C.write_case_file(PROP, "pairs_plans", HEADER, body,
                                   ["failing_b check_tight 0%nat tcases", "failing_b check_uniform 0%nat ucases",
                                    "failing_b check_plan 0%nat pcases"]))
    index.append(None)
    results = C.run_case_files(files, jobs=12)
    n_checked = 0
    for p, idx, (ok, res, log) in zip(files, index, results):
        if not ok or 0 not in res:
            rep.obligation(False)
            rep.violation("C08/correspondence-run", f"case file {p.name} did not evaluate",
                          {"theorem_or_correspondence": f"correspondence file {p.name}", "log": log[-1500:]}, False)
            continue
        rep.obligation(True)
        if idx is None:
            for which, name in ((0, "tight_pairs"), (1, "uniform_pairs"), (2, "advance plan")):
                for j in res.get(which, []):
                    if which == 2:
                        suspicious[plan_cases[j][0]] = "the take_steps/swap sequence of advance() differs from advance_plan"
                    else:
                        rep.violation("C08/correspondence",
                                      f"{name} of the implementation differs from the model on a scripted input "
                                      f"(the pairs it returned were disjoint and in range)",
                                      {"theorem_or_correspondence": f"Model.Tempering.check_{'tight' if which == 0 else 'uniform'}",
                                       "case": (pair_t if which == 0 else pair_u)[j]}, False)
            continue
        n_checked += len(idx)
        codes = res.get(1, [])
        for j in res[0]:
            code = codes[j] if j < len(codes) else -1
            if code == 3:
                rep.count("skipped: model undecided (exp gap)")
                continue
            suspicious[idx[j]] = CODES.get(code, f"code {code}")
        # the pure sequential model of the same history (Model/TemperingStart.pure_session)
        if 2 not in res or len(res[2]) != len(idx):
            rep.obligation(False)
            rep.violation("C08/correspondence-run", f"case file {p.name}: check_pure did not evaluate",
                          {"theorem_or_correspondence": f"correspondence file {p.name}", "log": log[-1500:]}, False)
            continue
        rep.obligation(True)
        for j, code in enumerate(res[2]):
            if code in (0, 3):
                continue
            suspicious.setdefault(idx[j], "pure sequential model (pure_session): " + CODES.get(code, f"code {code}"))
    rep.coverage["traces_validated_against_impl"] = n_checked
    rep.coverage["implementation_runs"] = n_runs
    rep.coverage["pairing_cases"] = len(pair_t) + len(pair_u)
    rep.coverage["advance_plans"] = len(plan_cases)
    rep.coverage["correspondence_disagreements"] = len(suspicious)

    # failing-input search on every disagreement: the property oracle on the
    # oracle-mode run of that configuration (already evaluated above on agreeing
    # runs; here it is re-run on fresh oracle-mode runs under every delay pattern)
    for ji, why in sorted(suspicious.items())[:6]:
        job = jobs[ji]
        j2 = dict(job, runs=[[p, "oracle"] for p in L.PATTERNS])
        out = run_job(j2)
        bad = []
        for r_ in out["runs"]:
            if r_["status"] == "ok":
                bad += oracle_counts(j2, r_) + oracle_swaps(j2, r_)
            elif r_["status"] != "skipped":
                bad.append(f"{r_['status']}: {r_.get('error')}")
        if bad:
            rep.violation("C08/property", "; ".join(bad[:3]), {"case": describe(j2), "failures": bad[:10]}, True)
        else:
            rep.violation("C08/correspondence",
                          f"implementation and model disagree ({why}), but the property was not seen to fail",
                          {"theorem_or_correspondence": "Model.Tempering.check_case (reference run of the process system)",
                           "case": describe(job), "why": why}, False)

    rep.assumptions = [
        "each multiprocessing Pipe connection is FIFO and loss-free, Event.set() is eventually seen by poll loops, "
        "and a worker only ever touches its own chain: this is what makes a real execution a schedule of the model "
        "(step relation of Model/Tempering.v); the OS / multiprocessing layer itself is not modelled further",
        "real MetropolisChain / GibbsChain / PcaChain / HamiltonianChain steps enter the model as observed tapes "
        "(their dynamics are C01/C03's); their CONSTRUCTION is modelled (TemperingStart.real_chain: one sample, "
        "stored value posterior(start) * inv_temp); the stub chain's step function is modelled exactly",
        "C08_history_good is about the pure sequential effect of a history (pure_session); it is tied to the code by "
        "check_pure on every generated history, and to the process system by evaluation on the same histories "
        "(both must reproduce the observed chains), not by a general simulation theorem",
        "accept decisions use rational bounds on exp (Common/ExpBounds.decide_accept); draws closer than 1e-9 to a "
        "threshold (relative) are skipped (none expected)",
        "temperatures are powers of two and all stub values dyadic, so the code's float arithmetic is exact",
    ]
    return rep.finish(
        level="proof",
        checker_cmd="make -C /verif/coq (coqc 8.16.1, full .vo) + coqc on coq/gen/C08/*.v (vm_compute)",
        trusted_base=C.KERNEL_TB + ["axioms: none for all C08 and C08Start theorems (closed under the global context) except "
                                    "C08_swap_prob_real, which speaks about Coq's real exp and uses the standard "
                                    "library's ClassicalDedekindReals.sig_forall_dec / sig_not_dec, "
                                    "functional_extensionality_dep and Classical_Prop.classic",
                                    "multiprocessing pipes are FIFO per connection (model assumption)"],
        rule="real ParallelTempering (fork, pipes) x N in 1..6 x swap_interval in {1,3,10,>n} (+ >50 cycles) x "
             "display_progress in {True,False} x call shapes (advance / take_steps+swap+advance / two advances / "
             "manual swaps) x 7 delay patterns (none, hot-slow, cold-slow, alternating, straggler, zigzag, random; "
             "0-30 ms per step) + an oracle-instrumented run; stub chains (exact model) and real "
             "Metropolis/Gibbs/PCA/HMC chains with scripted RNGs (constructor modelled, steps as observed tapes) on "
             "ladders 2^i, 4^i, 2^(i+1), irregular powers of two; 12 histories per repetition that BEGIN with swap() "
             "on freshly constructed chains (every class, N in 1..6, start points random / hotter-is-better / "
             "colder-is-better; shapes swap,return,steps,swap,advance / swap,swap,advance / take_steps(0),swap,...); "
             "plus the pairing routines alone for N in 0..12 and advance plans; "
             "non-trivial = at least 2 chains; distinct = distinct (kind, N, calls, temperatures, seed)")


# ---------------------------------------------------------------- pairing routines alone
def pairing_cases(tier):
    """tight_pairs / uniform_pairs of the real class, called unbound on a light
    object (no processes), with scripted choice / shuffle."""
    import inference.mcmc.parallel as par
    r = C.rng_for(PROP, "pairs")
    n_each = 40 if tier == "quick" else 400
    ts, us, bad = [], [], []
    for k in range(n_each):
        N = k % 13 if k < 26 else r.randint(0, 12)
        choices = [r.randint(0, 1 << 16) for _ in range(N + 2)]
        draws = [r.randint(0, 1 << 16) for _ in range(2 * N + 2)]

        class Light:
            pass
        o = Light()
        o.N_chains = N
        for routine in ("tight", "uniform"):
            sc = L.PTScript(choices, draws, [])
            o.rng = sc
            par.choice = sc.choice
            try:
                if routine == "tight":
                    ps = [(int(a), int(b)) for a, b in par.ParallelTempering.tight_pairs(o)]
                else:
                    ps = [(int(a), int(b)) for a, b in par.ParallelTempering.uniform_pairs(o)]
            except Exception as e:  # noqa: BLE001
                bad.append({"what": f"{routine}_pairs raised {e!r} for N={N}",
                            "case": {"N": N, "choices": choices, "draws": draws, "routine": routine}})
                continue
            flat = [x for p in ps for x in p]
            if len(set(flat)) != len(flat) or any(not (0 <= x < N) for x in flat):
                bad.append({"what": f"{routine}_pairs proposed overlapping / out-of-range pairs {ps} for N={N}",
                            "case": {"N": N, "choices": choices, "draws": draws, "routine": routine}})
            obs = C.clist([f"({a}, {b})" for a, b in ps])
            if routine == "tight":
                ts.append(f"({N}, {C.clist([str(c) for c in choices])}, {C.clist([str(d) for d in draws])}, {obs})%nat")
            else:
                us.append(f"({N}, {C.clist([str(d) for d in draws])}, {obs})%nat")
    return ts, us, bad


# ---------------------------------------------------------------- replay
def replay(path):
    d = json.load(open(path))
    rp = d["replay"]
    if "case" not in rp or not isinstance(rp["case"], dict) or "calls" not in rp["case"]:
        if isinstance(rp.get("case"), dict) and "routine" in rp["case"]:
            c = rp["case"]
            import inference.mcmc.parallel as par

            class Light:
                pass
            o = Light()
            o.N_chains = c["N"]
            sc = L.PTScript(c["choices"], c["draws"], [])
            o.rng = sc
            par.choice = sc.choice
            fn = par.ParallelTempering.tight_pairs if c["routine"] == "tight" else par.ParallelTempering.uniform_pairs
            ps = [(int(a), int(b)) for a, b in fn(o)]
            flat = [x for p in ps for x in p]
            print("pairs:", ps)
            return 1 if len(set(flat)) != len(flat) else 0
        print("replay names a broken theorem / correspondence:", rp.get("theorem_or_correspondence"))
        return 1
    job = rp["case"]
    out = run_job(job)
    bad = []
    for r_ in out["runs"]:
        print(f"run pattern={r_.get('pattern')} mode={r_.get('mode')} status={r_['status']} {r_.get('error', '')}")
        if r_["status"] == "ok":
            bad += oracle_counts(job, r_) + (oracle_swaps(job, r_) if r_["mode"] == "oracle" else [])
        elif r_["status"] != "skipped":
            bad.append(f"{r_['status']}: {r_.get('error')}")
    keys = {result_key(r_) for r_ in out["runs"] if r_["status"] == "ok"}
    if len(keys) > 1:
        bad.append("results depend on the delay pattern")
    print("property failures:", bad[:10])
    if out.get("stderr"):
        print("worker stderr (tail):", out["stderr"][-400:])
    return 1 if bad else 0
