#!/bin/bash
# Runs every registered quick check once on /repo's working tree (seed 0) so that the committed
# evidence files come from /verif itself at this commit, then validates MANIFEST + evidence.
cd /verif || exit 2
TIER=${1:-quick}
fail=0
for p in C01 C02 C03 C04 C05 C06 C07 C08 C09 C10 C11 C12 C13 C14 C15 C16 C17 C18 C19 C20; do
  out=$(VERIF_SEED=${VERIF_SEED:-0} /venv/bin/python harness/run.py $p $TIER 2>&1 | grep -v "^KNOWN-FINDING" | tail -1)
  echo "$out"
  case "$out" in OK*) ;; *) fail=1;; esac
done
/opt/veriftools/pyvenv/bin/python - <<'PY'
import json, jsonschema, glob
jsonschema.validate(json.load(open('/verif/MANIFEST.json')), json.load(open('/root/.vp/MANIFEST.schema.json')))
sch = json.load(open('/root/.vp/EVIDENCE.schema.json'))
bad = 0
for f in sorted(glob.glob('/verif/evidence/C*.json')):
    e = json.load(open(f))
    jsonschema.validate(e, sch)
    if e.get('violations'):
        print("evidence reports violations:", f); bad = 1
print("manifest and evidence valid" + ("" if not bad else " (but see above)"))
PY
exit $fail
