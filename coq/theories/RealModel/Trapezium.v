(* Real-valued model of the inverse-CDF transform of inference/approx/conditional.py.
   No proofs here (see Proofs/TrapeziumProofs.v).

   code line (conditional.py)                 definition
   ---------------------------------------------------------------
   61-63  trapezium_full                       trapezium_full
   66-67  trapezium_near_zero                  trapezium_near_zero
   82-90  trapezium_transform (elementwise)    trapezium_transform (nz = 1e-5)
   134-135 x[k] + T(u, delta[k]) * dx[k]       cell_sample

   Specification side: a cell of the piecewise-linear interpolant, scaled to
   [0,1] and normalised by its mean, has density  f(t) = (1 - d) + 2 d t  and
   distribution function  trap_cdf d t = (1 - d) t + d t^2,  where
   d = (p1 - p0) / (p1 + p0) is the code's `delta`. *)
From Coq Require Import Reals.
Open Scope R_scope.

Definition trapezium_full (u dh : R) : R :=
  let b := dh - 1 in (b + sqrt (b * b + 4 * u * dh)) / (2 * dh).

Definition trapezium_near_zero (u dh : R) : R := u + (1 - u) * u * dh.

Definition trapezium_transform (nz u dh : R) : R :=
  if Rlt_dec (Rabs dh) nz then trapezium_near_zero u dh else trapezium_full u dh.

Definition trap_pdf (d t : R) : R := (1 - d) + 2 * d * t.
Definition trap_cdf (d t : R) : R := (1 - d) * t + d * (t * t).

Definition cell_sample (xk dxk t : R) : R := xk + t * dxk.

(* conditional.py:127-128 for one cell with end values p0, p1 *)
Definition cell_delta (p0 p1 : R) : R := (1 / 2 * (p1 - p0)) / (1 / 2 * (p1 + p0)).

(* the sample drawn from the cell [x0, x1] with end densities p0, p1 for uniform u *)
Definition pls_sample_full (x0 x1 p0 p1 u : R) : R :=
  cell_sample x0 (x1 - x0) (trapezium_full u (cell_delta p0 p1)).

(* the linear interpolant through (x0, p0), (x0 + dx, p1) *)
Definition interp (x0 dx p0 p1 x : R) : R := p0 + (p1 - p0) * ((x - x0) / dx).

(* mutation target (Appendix C): b = dh + 1 *)
Definition trapezium_full_mut (u dh : R) : R :=
  let b := dh + 1 in (b + sqrt (b * b + 4 * u * dh)) / (2 * dh).
