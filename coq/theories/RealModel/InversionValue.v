(* RealModel/InversionValue.v -- the evidence VALUE of GpLinearInverter (property C17) on
   problems of ANY size, as a function of the implementation's own Cholesky factor.
   Definitions only (proofs: Proofs/InversionValueProofs.v, property theorems:
   Properties/C17Large.v).

   Matrix/InversionEvidence.v evaluates the closed form -1/2 r^T J^-1 r - 1/2 ln det J on exact
   rationals (det J by fraction-free elimination); that is feasible for a handful of data rows.
   For hundreds / a thousand rows the determinant itself is a number like 1e-1400: it exists
   as a real number, not as a double.  The code never forms it:

   inversion.py                                                       model
   ------------                                                       -----
   186  L = cholesky(A K A^T + sigma)                                 diagL = diagonal of L
   187  v = solve_triangular(L, y - A prior_mean, lower=True)         quad  = -1/2 v.v
   188  return -0.5 * (v @ v) - log(diagonal(L)).sum()                lin_lml_value quad diagL
   204-210 (marginal_likelihood_gradient)
        LML = -0.5 * dot((y - f).T, alpha) - log(diagonal(L)).sum()   lin_lml_value quad diagL

   lin_lml_closed      the value the property speaks of (log-density of the data, without
                       -m/2 ln 2 pi), with det J = (prod diag L)^2 (C17_evidence_value)
   lin_lml_value_prod  the "one logarithm" variant  quad - ln (prod diag L): equal over the
                       reals, but the product is not a double for large data sets
   dbl_range           the magnitudes a binary64 number can have (0, or 2^-1074 .. 2^1024) *)
From Coq Require Import Reals List.
From IT Require Import RealModel.SelectionValue.      (* sum_ln, prod_list *)
Import ListNotations.
Open Scope R_scope.

Definition lin_lml_value (quad : R) (diagL : list R) : R := quad - sum_ln diagL.
Definition lin_lml_closed (quad detJ : R) : R := quad - / 2 * ln detJ.
Definition lin_lml_value_prod (quad : R) (diagL : list R) : R := quad - ln (prod_list diagL).

(* binary64: smallest positive (subnormal) number 2^-1074; everything finite is < 2^1024 *)
Definition dbl_tiny : R := / 2 ^ 1074.
Definition dbl_huge : R := 2 ^ 1024.
Definition dbl_range (x : R) : Prop := x = 0 \/ (dbl_tiny <= Rabs x < dbl_huge).

(* every entry in [a, b] *)
Definition all_in (a b : R) (l : list R) : Prop := Forall (fun x => a <= x <= b) l.
