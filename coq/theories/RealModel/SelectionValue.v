(* RealModel/SelectionValue.v -- the real-number VALUES of the two model-selection
   scores of GpRegressor (property C11): the part of regression.py that takes
   logarithms.  Definitions only (proofs: Proofs/SelectionValueProofs.v).

   The algebraic parts (`quad`, a rational computed by Matrix/Selection.v at the
   list-of-Q instance) and the vectors whose logarithms are summed come from the
   matrix model:

   regression.py                                                   model
   -------------                                                   -----
   546  -0.5 * (v @ v) - log(diagonal(L)).sum()                     ml_value  quad diagL
   565  -0.5 * ((y - mu).T @ alpha) - log(diagonal(L)).sum()        ml_value  quad diagL
   483  -0.5 * (var * alpha**2 + log(var)).sum()                    loo_value quad var
   and the closed forms of the property statement
        log N(y; mu, A) + n/2 log 2 pi = -1/2 r^T A^-1 r - 1/2 ln det A      ml_closed quad detA
        sum_i log N(y_i; m_i, v_i) + n/2 log 2 pi                            loo_closed ys ms vs
   where m_i, v_i are the mean and variance of the prediction of y_i from the other
   n - 1 points. *)
From Coq Require Import Reals List.
Import ListNotations.
Open Scope R_scope.

Fixpoint sum_ln (l : list R) : R := match l with [] => 0 | x :: r => ln x + sum_ln r end.
Fixpoint prod_list (l : list R) : R := match l with [] => 1 | x :: r => x * prod_list r end.

Definition ml_value (quad : R) (diagL : list R) : R := quad - sum_ln diagL.
Definition ml_closed (quad detA : R) : R := quad - / 2 * ln detA.

Definition loo_value (quad : R) (var : list R) : R := quad - / 2 * sum_ln var.

(* log-density of N(m, v) at y, without the constant -1/2 ln (2 pi) *)
Definition gauss_logpdf (y m v : R) : R := - / 2 * ((y - m) ^ 2 / v + ln v).

Fixpoint loo_closed (ys ms vs : list R) : R :=
  match ys, ms, vs with
  | y :: ys', m :: ms', v :: vs' => gauss_logpdf y m v + loo_closed ys' ms' vs'
  | _, _, _ => 0
  end.

(* the quadratic part of the LOO score written with the LOO predictions:
   -1/2 sum_i (y_i - m_i)^2 / v_i  (Proofs.SelectionProofs.loo_quad_value) *)
Fixpoint loo_quad_R (ys ms vs : list R) : R :=
  match ys, ms, vs with
  | y :: ys', m :: ms', v :: vs' => - / 2 * ((y - m) ^ 2 / v) + loo_quad_R ys' ms' vs'
  | _, _, _ => 0
  end.

(* ---- n = 2: the scores as functions of a hyper-parameter t, for the [Tp] derivative
   theorem.  A(t) = [[a t, b t], [b t, c t]] symmetric, r = (r1, r2) (a covariance
   hyper-parameter does not move the mean) ------------------------------------------- *)
Definition det2 (a b c : R) : R := a * c - b * b.
Definition quad2 (a b c r1 r2 : R) : R :=            (* r^T A^-1 r *)
  (c * r1 * r1 - 2 * b * r1 * r2 + a * r2 * r2) / det2 a b c.
Definition ml2 (a b c r1 r2 : R) : R := - / 2 * quad2 a b c r1 r2 - / 2 * ln (det2 a b c).
(* alpha = A^-1 r *)
Definition alpha2_1 (a b c r1 r2 : R) : R := (c * r1 - b * r2) / det2 a b c.
Definition alpha2_2 (a b c r1 r2 : R) : R := (a * r2 - b * r1) / det2 a b c.
(* 1/2 tr((alpha alpha^T - A^-1) dA), dA = [[da, db], [db, dc]] *)
Definition ml2_trace_form (a b c r1 r2 da db dc : R) : R :=
  let a1 := alpha2_1 a b c r1 r2 in let a2 := alpha2_2 a b c r1 r2 in
  let D := det2 a b c in
  / 2 * ((a1 * a1 - c / D) * da + 2 * (a1 * a2 + b / D) * db + (a2 * a2 - a / D) * dc).
