(* RealModel/SeGradient.v -- real-valued model of the kernel-specific derivative
   terms used by GpRegressor.gradient / spatial_derivatives (property C16), of the
   spatial gradients of the three mean functions, and of the predictive mean /
   variance as FUNCTIONS of the query point.  Definitions only (proofs:
   Proofs/SeGradientProofs.v).  Builds on RealModel/Kernels.v (se_val) and
   RealModel/Means.v (const_call, lin_call, quad_call), the models of property C10.

   covariance.py                                                  model
   -------------                                                  -----
   SquaredExponential.gradient_terms(v, x, theta)      257-266
     A = (x - v[None, :]) / L[None, :] ** 2 ; return A.T          se_A th x_j q i   (= A.T[i, j])
     (a / L) ** 2                                                 se_R th i
   mean.py (repaired tree, fixes/D14)
     ConstantMean.spatial_gradient    zeros(q.size)               dmean_const_R
     LinearMean.spatial_gradient      zeros(q.size) + theta[1:]   dmean_lin_R
     QuadraticMean.spatial_gradient   theta[lin] + 2 * (q - x_mean) * theta[quad]
                                                                  dmean_quad_R
   regression.py
     __call__ mean      K_qx @ alpha + mean(q)                    pmean     (function of q)
     __call__ variance  K_qq - K_qx (K_xx+S)^-1 K_xq              pvar      (function of q; C02_cov_closed)
     gradient / spatial_derivatives mean, entry i                 grad_mean_R   (DerivativesProofs.grad_mean_entry)
     spatial_derivatives variance, entry i                        dvar_R        (DerivativesProofs.dvar_entry)
*)
From Coq Require Import Reals List Arith.
From IT Require Import Model.Slices RealModel.Kernels RealModel.Means.
Import ListNotations.
Open Scope R_scope.

(* ---- SquaredExponential.gradient_terms ------------------------------------ *)
Definition se_A (th : list R) (x q : pt) (i : nat) : R :=
  (coord x i - coord q i) / (exp (par th (S i))) ^ 2.
Definition se_R (th : list R) (i : nat) : R := (exp (par th 0) / exp (par th (S i))) ^ 2.

(* first derivative d k(u, v) / d u_i  and second cross derivative d^2 k / d u_i d v_j *)
Definition se_d1 (d : nat) (th : list R) (u v : pt) (i : nat) : R :=
  - ((coord u i - coord v i) / (exp (par th (S i))) ^ 2) * se_val d th u v.
Definition se_d2 (d : nat) (th : list R) (u v : pt) (i j : nat) : R :=
  (delta i j / (exp (par th (S i))) ^ 2
   - ((coord u i - coord v i) / (exp (par th (S i))) ^ 2)
     * ((coord u j - coord v j) / (exp (par th (S j))) ^ 2)) * se_val d th u v.

(* ---- spatial gradients of the mean functions ------------------------------- *)
Definition dmean_const_R (i : nat) : R := 0.
Definition dmean_lin_R (th : list R) (i : nat) : R := 0 + par th (S i).
Definition dmean_quad_R (d : nat) (xs : list pt) (th : list R) (q : pt) (i : nat) : R :=
  par (apply_slice (quad_lin_slc d) th) i
  + 2 * (coord q i - col_mean xs i) * par (apply_slice (quad_quad_slc d) th) i.

(* ---- the GP prediction as a function of the query point --------------------- *)
(* k : kernel between two points, m : mean function, alpha_j, W = (K_xx + S)^-1 *)
Definition pmean (k : pt -> pt -> R) (m : pt -> R) (xs : list pt) (alpha : nat -> R) (q : pt) : R :=
  Rsum (seq 0 (length xs)) (fun j => k q (point xs j) * alpha j) + m q.

Definition pvar (k : pt -> pt -> R) (xs : list pt) (W : nat -> nat -> R) (q : pt) : R :=
  k q q - Rsum (seq 0 (length xs)) (fun j =>
            k q (point xs j) * Rsum (seq 0 (length xs)) (fun l => W j l * k q (point xs l))).

(* ---- what the code returns, entry i (same sums as the MathComp entry lemmas) -- *)
Definition grad_mean_R (n : nat) (Aq : nat -> nat -> R) (K alpha : nat -> R) (dmu : nat -> R) (i : nat) : R :=
  Rsum (seq 0 n) (fun j => (Aq i j * K j) * alpha j) + dmu i.

Definition dvar_R (n : nat) (Aq : nat -> nat -> R) (K : nat -> R) (W : nat -> nat -> R) (i : nat) : R :=
  - 2 * Rsum (seq 0 n) (fun j => (Aq i j * K j) * Rsum (seq 0 n) (fun l => W j l * K l)).
