(* Constructor stage of inference/likelihoods.py  (property C05): the data and the
   uncertainties AS THEY REACH THE CONSTRUCTOR, and the constants that are
   pre-computed from them once.

   Definitions only, no proofs.

   The base class stores  array(y_data).squeeze()  and  array(uncertainties).squeeze()
   (likelihoods.py:56-58) WITHOUT forcing a dtype: a list of Python ints, an
   int64 / uint16 / ... array stays an integer array, a float list / float32 /
   float64 array stays a float array.  An element is therefore either an integer
   or a float; what the property speaks about is its real value `sval`.

   numpy semantics used by the constructors, element by element:
     1.0 / a          true division: a float whatever the dtype of a   true_recip
     log(a), a * c    (c a float): computed on the value as a float    ln (sval _), sval _ * c
     a - f            (f a float array)                                sval _ - f
   and, for contrast (NOT what the pinned code does)
     reciprocal(a), a ** -1 on an integer array, 1 // a                samedtype_recip
   which keep the dtype of a, i.e. divide integers as integers (C truncation).

   likelihoods.py                                             model
   --------------                                             -----
   GaussianLikelihood.__init__ (152-157)                      gauss_init_with true_recip
     inv_sigma, inv_sigma_sqr, normalisation                  gs_inv_sigma, gs_inv_sigma_sqr, gs_norm
   _log_likelihood / _log_likelihood_gradient (159-167)       gauss_call / gauss_grad   (read the state only)
   CauchyLikelihood.__init__ (200-204)                        cauchy_init_with true_recip
     inv_gamma, normalisation                                 cs_inv_gamma, cs_norm
   (206-215)                                                  cauchy_call / cauchy_grad
   LogisticLikelihood.__init__ (248-253)                      logistic_init
     scale = sigma*(sqrt(3)/pi)  (a float array already),
     inv_scale = 1/scale, normalisation                       ls_inv_scale, ls_norm
   (255-264)                                                  logistic_call / logistic_grad
*)
From Coq Require Import Reals List ZArith.
From IT Require Import RealModel.Likelihoods.
Import ListNotations.
Open Scope R_scope.

(* one element of the stored array: integer dtype or float dtype *)
Inductive scalar : Type :=
| SInt (k : Z)
| SFlt (x : R).

Definition sval (s : scalar) : R :=
  match s with SInt k => IZR k | SFlt x => x end.

(* 1.0 / a *)
Definition true_recip (s : scalar) : R := 1 / sval s.

(* numpy.reciprocal(a): same dtype as a; integer division (truncating) for integers *)
Definition samedtype_recip (s : scalar) : R :=
  match s with SInt k => IZR (Z.quot 1 k) | SFlt x => 1 / x end.

(* ---------------- Gaussian ---------------- *)
Record gauss_state : Type := {
  gs_y : list R;
  gs_inv_sigma : list R;
  gs_inv_sigma_sqr : list R;
  gs_norm : R }.

Definition gauss_init_with (recip : scalar -> R) (ys ss : list scalar) : gauss_state :=
  {| gs_y := map sval ys;
     gs_inv_sigma := map recip ss;
     gs_inv_sigma_sqr := map (fun s => (recip s) ^ 2) ss;
     gs_norm := - sumR (map (fun s => ln (sval s)) ss) - (1 / 2) * ln (2 * PI) * INR (length ss) |}.

Definition gauss_init := gauss_init_with true_recip.

Definition gauss_call (st : gauss_state) (fs : list R) : R :=
  - (1 / 2) * sumR (map3 (fun y f i => ((y - f) * i) ^ 2) (gs_y st) fs (gs_inv_sigma st)) + gs_norm st.

Definition gauss_grad (st : gauss_state) (fs : list R) (J : list (list R)) (j : nat) : R :=
  vecmat (map3 (fun y f i2 => (y - f) * i2) (gs_y st) fs (gs_inv_sigma_sqr st)) J j.

(* ---------------- Cauchy ---------------- *)
Record cauchy_state : Type := {
  cs_y : list R;
  cs_inv_gamma : list R;
  cs_norm : R }.

Definition cauchy_init_with (recip : scalar -> R) (ys gs : list scalar) : cauchy_state :=
  {| cs_y := map sval ys;
     cs_inv_gamma := map recip gs;
     cs_norm := - sumR (map (fun g => ln (PI * sval g)) gs) |}.

Definition cauchy_init := cauchy_init_with true_recip.

Definition cauchy_call (st : cauchy_state) (fs : list R) : R :=
  - sumR (map3 (fun y f i => ln (1 + ((y - f) * i) ^ 2)) (cs_y st) fs (cs_inv_gamma st)) + cs_norm st.

Definition cauchy_grad (st : cauchy_state) (fs : list R) (J : list (list R)) (j : nat) : R :=
  vecmat (map3 (fun y f i => 2 * i * ((y - f) * i) / (1 + ((y - f) * i) ^ 2))
               (cs_y st) fs (cs_inv_gamma st)) J j.

(* ---------------- logistic ---------------- *)
Record logistic_state : Type := {
  ls_y : list R;
  ls_inv_scale : list R;
  ls_norm : R }.

(* scale = sigma * (sqrt(3)/pi) is a float array for every dtype of sigma, so both
   1.0/scale and reciprocal(scale) are the true reciprocal *)
Definition logistic_init (ys ss : list scalar) : logistic_state :=
  {| ls_y := map sval ys;
     ls_inv_scale := map (fun s => 1 / (sval s * (sqrt 3 / PI))) ss;
     ls_norm := - sumR (map (fun s => ln (sval s * (sqrt 3 / PI))) ss) |}.

Definition logistic_call (st : logistic_state) (fs : list R) : R :=
  sumR (map3 (fun y f i => (y - f) * i) (ls_y st) fs (ls_inv_scale st))
  - 2 * sumR (map3 (fun y f i => logaddexp 0 ((y - f) * i)) (ls_y st) fs (ls_inv_scale st))
  + ls_norm st.

Definition logistic_grad (st : logistic_state) (fs : list R) (J : list (list R)) (j : nat) : R :=
  vecmat (map3 (fun y f i => (2 / (1 + exp (- ((y - f) * i))) - 1) * i)
               (ls_y st) fs (ls_inv_scale st)) J j.
