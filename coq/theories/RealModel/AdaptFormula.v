(* The real-valued part of the on-line tuning (gibbs.py update_epsilon, hmc/epsilon.py
   update_epsilon):  adj = (log(target) / log(mu)) ** rate ; adj = min(adj, hi) ; adj = max(adj, lo) *)
From Coq Require Import Reals.
Open Scope R_scope.

Definition adj_raw (target mu rate : R) : R := Rpower (ln target / ln mu) rate.
Definition adj (target mu rate lo hi : R) : R := Rmax (Rmin (adj_raw target mu rate) hi) lo.
