(* Real-valued model of inference/gp/mean.py (property C10).  Definitions only.

   mean.py                                              model
   -------                                              -----
   x.mean(axis=0)                         58, 89        col_mean
   self.dx = x - x_mean[None, :]          59, 90        mdx
   ConstantMean.__call__ / build_mean / mean_and_gradients   43-50    const_call const_build const_grad
   LinearMean       ..                    72-81         lin_call lin_build lin_grad
   QuadraticMean    ..                    111-126       quad_call quad_build quad_grad
                    lin_slc = slice(1, n+1), quad_slc = slice(n+1, 2n+1)
*)
From Coq Require Import Reals List Arith ZArith.
From IT Require Import Model.Slices RealModel.Kernels.
Import ListNotations.
Open Scope R_scope.

(* x[:, k].mean() *)
Definition col_mean (xs : list pt) (k : nat) : R :=
  Rsum (seq 0 (length xs)) (fun i => coord (point xs i) k) / IZR (Z.of_nat (length xs)).
(* dx[i, k] *)
Definition mdx (xs : list pt) (i k : nat) : R := coord (point xs i) k - col_mean xs k.

Record meanfn := mkM {
  mnp : nat;                                        (* n_params *)
  mcall : list pt -> list R -> pt -> R;             (* __call__(q, theta) for one query point q *)
  mbuild : list pt -> list R -> nat -> R;           (* build_mean(theta)[i] *)
  mgrad : list pt -> list R -> nat -> nat -> R      (* mean_and_gradients(theta)[1][p][i] *)
}.

Definition const_call (xs : list pt) (th : list R) (q : pt) : R := par th 0.
Definition const_build (xs : list pt) (th : list R) (i : nat) : R := 0 + par th 0.
Definition const_grad (xs : list pt) (th : list R) (p i : nat) : R := 1.
Definition const_mean : meanfn := mkM const_np const_call const_build const_grad.

Definition lin_call (d : nat) (xs : list pt) (th : list R) (q : pt) : R :=
  par th 0 + Rsum (seq 0 d) (fun k => (coord q k - col_mean xs k) * par th (S k)).
Definition lin_build (d : nat) (xs : list pt) (th : list R) (i : nat) : R :=
  par th 0 + Rsum (seq 0 d) (fun k => mdx xs i k * par th (S k)).
Definition lin_grad (d : nat) (xs : list pt) (th : list R) (p i : nat) : R :=
  match p with O => 1 | S k => mdx xs i k end.
Definition lin_mean (d : nat) : meanfn := mkM (lin_np d) (lin_call d) (lin_build d) (lin_grad d).

Definition quad_call (d : nat) (xs : list pt) (th : list R) (q : pt) : R :=
  par th 0
  + Rsum (seq 0 d) (fun k => (coord q k - col_mean xs k) * par (apply_slice (quad_lin_slc d) th) k)
  + Rsum (seq 0 d) (fun k => (coord q k - col_mean xs k) ^ 2 * par (apply_slice (quad_quad_slc d) th) k).
Definition quad_build (d : nat) (xs : list pt) (th : list R) (i : nat) : R :=
  par th 0
  + Rsum (seq 0 d) (fun k => mdx xs i k * par (apply_slice (quad_lin_slc d) th) k)
  + Rsum (seq 0 d) (fun k => (mdx xs i k) ^ 2 * par (apply_slice (quad_quad_slc d) th) k).
(* grads = [ones] + rows of dx.T + rows of dx_sqr.T *)
Definition quad_grad (d : nat) (xs : list pt) (th : list R) (p i : nat) : R :=
  match p with
  | O => 1
  | S k => if Nat.ltb k d then mdx xs i k else (mdx xs i (k - d)) ^ 2
  end.
Definition quad_mean (d : nat) : meanfn := mkM (quad_np d) (quad_call d) (quad_build d) (quad_grad d).
