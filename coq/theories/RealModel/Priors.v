(* Real-valued model of the log-densities in inference/priors.py and of
   inference/posterior.py  (property C06).  Definitions only.

   priors.py                                                   model
   ---------                                                   -----
   GaussianPrior.__init__ 260-263  inv_sigma, normalisation    gaussp_normalisation
   GaussianPrior.__call__ 275-276  z = (mean - t)*inv_sigma    gaussp_logp
        -0.5*(z**2).sum() + normalisation
   GaussianPrior.gradient 288      (mean - t)*inv_sigma_sqr    gaussp_grad
   ExponentialPrior.__init__ 343-344  lam = 1/beta,            expp_logp_in
        normalisation = log(lam).sum()
   ExponentialPrior.__call__ 357-359  if (t < 0).any(): -1e100 expp_logp (any_neg, outside_value)
        -(lam*t).sum() + normalisation
   ExponentialPrior.gradient 371   where(t >= 0, -lam, 0)      expp_grad
   UniformPrior.__init__ 436  normalisation =                  unifp_logp_in
        -log(upper - lower).sum()
   UniformPrior.__call__ 448-452  inside.all() ? norm : -1e100 unifp_logp (all_inside)
   UniformPrior.gradient 464       zeros                       unifp_grad
   JointPrior.__call__ 199         sum(c(theta) for c in ...)  plan_logp (left fold from 0) of
                                                               Model/JointPrior.v : joint_plan
   posterior.py 35, 47, 61, 73                                 posterior_logp / _grad / _cost / _cost_grad
*)
From Coq Require Import Reals List QArith Qreals.
From Coquelicot Require Import Coquelicot.
From IT Require Import RealModel.Likelihoods Model.JointPrior.
Import ListNotations.
Open Scope R_scope.

(* the value returned outside the support: the literal -1e100 *)
Definition outside_value : R := - 10 ^ 100.

(* ---------------- GaussianPrior ---------------- *)
Definition gaussp_normalisation (sigmas : list R) : R :=
  - sumR (map ln sigmas) - (1 / 2) * ln (2 * PI) * INR (length sigmas).

Definition gaussp_logp (means sigmas ts : list R) : R :=
  - (1 / 2) * sumR (map3 (fun m s t => ((m - t) * (1 / s)) ^ 2) means sigmas ts)
  + gaussp_normalisation sigmas.

Definition gaussp_grad (means sigmas ts : list R) : list R :=
  map3 (fun m s t => (m - t) * (1 / s) ^ 2) means sigmas ts.

(* ---------------- ExponentialPrior ---------------- *)
Definition expp_logp_in (betas ts : list R) : R :=
  - sumR (map2 (fun b t => (1 / b) * t) betas ts) + sumR (map (fun b => ln (1 / b)) betas).

Fixpoint any_neg (ts : list R) : bool :=
  match ts with
  | [] => false
  | t :: r => if Rlt_dec t 0 then true else any_neg r
  end.

Definition expp_logp (betas ts : list R) : R :=
  if any_neg ts then outside_value else expp_logp_in betas ts.

Definition expp_grad (betas ts : list R) : list R :=
  map2 (fun b t => if Rle_dec 0 t then - (1 / b) else 0) betas ts.

(* ---------------- UniformPrior ---------------- *)
Definition unifp_logp_in (lowers uppers : list R) : R :=
  - sumR (map2 (fun lo up => ln (up - lo)) lowers uppers).

Fixpoint all_inside (lowers uppers ts : list R) : bool :=
  match lowers, uppers, ts with
  | lo :: ls, up :: us, t :: r =>
      if Rle_dec lo t then (if Rle_dec t up then all_inside ls us r else false) else false
  | _, _, _ => true
  end.

Definition unifp_logp (lowers uppers ts : list R) : R :=
  if all_inside lowers uppers ts then unifp_logp_in lowers uppers else outside_value.

Definition unifp_grad (lowers : list R) : list R := map (fun _ => 0) lowers.

(* ---------------- the named densities ---------------- *)
Definition exp_pdf (lam x : R) : R := lam * exp (- lam * x).        (* on x >= 0 *)
Definition exp_cdf (lam x : R) : R := 1 - exp (- lam * x).
Definition unif_pdf (lo hi x : R) : R := 1 / (hi - lo).             (* on lo <= x <= hi *)

(* ---------------- the joint prior value ---------------- *)
Definition QR (l : list Q) : list R := map Q2R l.

Definition item_logp (it : plan_item) : R :=
  match pk it with
  | KGauss => gaussp_logp (QR (pp1 it)) (QR (pp2 it)) (QR (pts it))
  | KExp => if pin it then expp_logp_in (QR (pp1 it)) (QR (pts it)) else outside_value
  | KUnif => if pin it then unifp_logp_in (QR (pp1 it)) (QR (pp2 it)) else outside_value
  end.

Definition plan_logp (plan : list plan_item) : R :=
  fold_left (fun acc it => acc + item_logp it) plan 0.

Definition joint_logp (comps : list comp) (theta : list Q) : R :=
  plan_logp (joint_plan comps theta).

(* a component evaluated by its own class (the branch decided over R) *)
Definition comp_logp (c : comp) (ts : list R) : R :=
  match ckind c with
  | KGauss => gaussp_logp (QR (cpar1 c)) (QR (cpar2 c)) ts
  | KExp => expp_logp (QR (cpar1 c)) ts
  | KUnif => unifp_logp (QR (cpar1 c)) (QR (cpar2 c)) ts
  end.

(* log of the named 1-D density assigned to one coordinate *)
Definition coord_logpdf (k : kind) (p1 p2 t : R) : R :=
  match k with
  | KGauss => ln (gauss_pdf p1 p2 t)
  | KExp => ln (exp_pdf (1 / p1) t)
  | KUnif => ln (unif_pdf p1 p2 t)
  end.

(* t is in the support of the 1-D density (closed) / in its interior *)
Definition coord_support (k : kind) (p1 p2 t : R) : Prop :=
  match k with
  | KGauss => True
  | KExp => 0 <= t
  | KUnif => p1 <= t <= p2
  end.

Definition coord_interior (k : kind) (p1 p2 t : R) : Prop :=
  match k with
  | KGauss => True
  | KExp => 0 < t
  | KUnif => p1 < t < p2
  end.

(* hyper-parameters admitted by the constructors *)
Definition coord_params_ok (k : kind) (p1 p2 : R) : Prop :=
  match k with
  | KGauss => 0 < p2
  | KExp => 0 < p1
  | KUnif => p1 < p2
  end.

(* ---------------- posterior.py ---------------- *)
Definition posterior_logp (like prior : R) : R := like + prior.
Definition posterior_grad (glike gprior : nat -> R) (j : nat) : R := glike j + gprior j.
Definition posterior_cost (like prior : R) : R := - (like + prior).
Definition posterior_cost_grad (glike gprior : nat -> R) (j : nat) : R := - (glike j + gprior j).
