(* The acquisition functions under a change of UNITS of the objective, and an absolute floor
   on the predictive standard deviation (real-number model).
   No proofs here (see Proofs/AcquisitionScaleProofs.v).

   The same objective expressed in other units (amperes instead of milli-amperes, metres
   instead of nanometres) multiplies every y-value, hence the predictive mean, the
   predictive standard deviation and the incumbent, by one factor c > 0; the gradient of the
   mean scales with c and the gradient of the VARIANCE with c^2.  acquisition.py contains no
   constant with the dimension of y: the code-level functions of RealModel/Acquisition.v are
   applied to (c mu, c sig, c ymax, c dmu, c^2 dvar).

   code (inference/gp/acquisition.py)                              definition
   ------------------------------------------------------------------------------
   seeded variant of :77/:89/:100
       mu, sig = self.gp(x); sig = maximum(sig, floor)             floored, ei_call_floored,
       ... the unchanged formulas ...                              ei_opt_func_floored
   (the pinned code has no such line: floor-free ei_call, ei_opt_func, ei_opt_grad) *)
From Coq Require Import Reals.
From IT Require Import RealModel.Acquisition.
Open Scope R_scope.

Definition floored (floor sig : R) : R := Rmax sig floor.

Definition ei_call_floored (floor mu sig ymax : R) : R := ei_call mu (floored floor sig) ymax.
Definition ei_opt_func_floored (floor mu sig ymax : R) : R := ei_opt_func mu (floored floor sig) ymax.
