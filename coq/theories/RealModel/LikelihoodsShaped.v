(* Container stage of inference/likelihoods.py  (property C05): the SHAPE in which the
   data and the uncertainties reach the constructor.

   Definitions only, no proofs.

   The documentation asks for 1D arrays, but the base class deliberately accepts more:
       self.y = array(y_data).squeeze()                    likelihoods.py:55
       _uncertainties = array(uncertainties).squeeze()     likelihoods.py:56
       if self.y.size != _uncertainties.size: raise        likelihoods.py:60
       if self.y.ndim > 1 or _uncertainties.ndim > 1: raise   likelihoods.py:65
   so a row (1,n) sliced out of an image, a column (n,1), a keepdims reduction (1,1,n),
   a nested list [[...]], a 0-d array or a Python scalar are all valid inputs, and
   "for any data" of the property ranges over them.  The two inputs are squeezed
   independently: a row of data may come with a flat array of uncertainties.

   numpy semantics used:
     array(obj)           an n-dimensional array: its shape and its elements in row-major
                          (C) order, whatever the memory layout of obj          ndarr
     a.squeeze()          drops the axes of length 1; the elements and their order
                          are unchanged                                          nd_squeeze
     a.size               product of the shape                                   nd_size
     a.ndim               length of the shape                                    nd_ndim
     a.shape[0]           leading axis (for contrast, NOT what the pinned code
                          counts the data with)                                  count_leading

   likelihoods.py                                             model
   --------------                                             -----
   Likelihood.__init__ (55-68): squeeze, size / ndim checks   nd_squeeze, base_accepts
   GaussianLikelihood.__init__ (152-160)
     n_data = self.y.size      (AFTER the squeeze)            count_size
     normalisation = -log(sigma).sum() - 0.5*log(2*pi)*n_data gs_norm of gauss_init_nd_with count_size
   Cauchy / Logistic constructors: no count is used           cauchy_init_nd, logistic_init_nd
   __call__ / gradient                                        gauss_call / gauss_grad ... of LikelihoodsTyped
*)
From Coq Require Import Reals List ZArith Arith Bool.
From IT Require Import RealModel.Likelihoods RealModel.LikelihoodsTyped.
Import ListNotations.
Open Scope R_scope.

(* numpy.array(obj): shape + elements in row-major order *)
Record ndarr : Type := { nd_shape : list nat; nd_data : list scalar }.

Definition shape_size (sh : list nat) : nat := fold_right Nat.mul 1%nat sh.

(* the invariant of every numpy array: as many elements as the shape says *)
Definition nd_wf (a : ndarr) : Prop := length (nd_data a) = shape_size (nd_shape a).

Definition nd_size (a : ndarr) : nat := shape_size (nd_shape a).
Definition nd_ndim (a : ndarr) : nat := length (nd_shape a).

Definition squeeze_shape (sh : list nat) : list nat := filter (fun d => negb (Nat.eqb d 1)) sh.

Definition nd_squeeze (a : ndarr) : ndarr :=
  {| nd_shape := squeeze_shape (nd_shape a); nd_data := nd_data a |}.

(* the checks of the base-class constructor that concern the container
   (positivity of the uncertainties is a hypothesis over R in the theorems) *)
Definition base_accepts (ya sa : ndarr) : bool :=
  Nat.eqb (nd_size (nd_squeeze ya)) (nd_size (nd_squeeze sa))
  && Nat.leb (nd_ndim (nd_squeeze ya)) 1
  && Nat.leb (nd_ndim (nd_squeeze sa)) 1.

(* how the data points are counted *)
Definition count_size (ya : ndarr) : nat := nd_size (nd_squeeze ya).       (* self.y.size, pinned *)
Definition count_leading (ya : ndarr) : nat :=                             (* shape[0] before the squeeze; 1 for a 0-d input *)
  match nd_shape ya with [] => 1%nat | d :: _ => d end.

(* ---------------- the three constructors on shaped inputs ---------------- *)
Definition gauss_init_nd_with (count : ndarr -> nat) (ya sa : ndarr) : gauss_state :=
  let ys := nd_data (nd_squeeze ya) in
  let ss := nd_data (nd_squeeze sa) in
  {| gs_y := map sval ys;
     gs_inv_sigma := map true_recip ss;
     gs_inv_sigma_sqr := map (fun s => (true_recip s) ^ 2) ss;
     gs_norm := - sumR (map (fun s => ln (sval s)) ss) - (1 / 2) * ln (2 * PI) * INR (count ya) |}.

Definition gauss_init_nd := gauss_init_nd_with count_size.

Definition cauchy_init_nd (ya ga : ndarr) : cauchy_state :=
  cauchy_init (nd_data (nd_squeeze ya)) (nd_data (nd_squeeze ga)).

Definition logistic_init_nd (ya sa : ndarr) : logistic_state :=
  logistic_init (nd_data (nd_squeeze ya)) (nd_data (nd_squeeze sa)).
