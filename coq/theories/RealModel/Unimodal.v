(* Real-valued model of inference/pdf/unimodal.py (the parametrised family) and
   of the interval cost of inference/pdf/base.py  (property C19).  Definitions only.

   unimodal.py                                              model
   -----------                                              -----
   :144-151 log_pdf_model(x, theta)                         log_pdf_model
        theta = x0, s0, ln_v, f, k, q ; v = exp(ln_v)
        z0 = (x - x0)/s0 ; z = z0 * exp(-f tanh(z0/k))
        -(0.5 (1+v)) log(1 + |z|^q / v)                      (abs_pow: numpy 0.0**q = 0)
   :141     pdf_model = exp(log_pdf_model)                  pdf_model
   :27-33   Gauss-Chebyshev nodes / weights (n = 128)       gc_t, gc_u, gc_w
   :136-139 norm(theta) = sum(w * pdf_model(u, [0, sd, theta[2:]])) * theta[1]
                                                            norm_model
   :129     evaluate_model = pdf_model / norm               evaluate_model
   base.py:67-72  __hdi_cost                                hdi_cost
   base.py:28-66  interval(): Nelder-Mead over (c, w) on
        __hdi_cost at the ends of [c - w/2, c + w/2]        interval_cost, interval_mass
        (the optimiser itself is not modelled)
*)
From Coq Require Import Reals List.
Import ListNotations.
Open Scope R_scope.

Record theta := { t_x0 : R; t_s0 : R; t_lnv : R; t_f : R; t_k : R; t_q : R }.

Definition abs_pow (z q : R) : R := if Req_EM_T z 0 then 0 else Rpower (Rabs z) q.

Definition zscore (x : R) (th : theta) : R := (x - t_x0 th) / t_s0 th.

Definition log_pdf_of_z (z0 : R) (th : theta) : R :=
  let v := exp (t_lnv th) in
  let z := z0 * exp (- t_f th * tanh (z0 / t_k th)) in
  - (1 / 2 * (1 + v)) * ln (1 + abs_pow z (t_q th) / v).

Definition log_pdf_model (x : R) (th : theta) : R := log_pdf_of_z (zscore x th) th.

Definition pdf_model (x : R) (th : theta) : R := exp (log_pdf_model x th).

Definition gc_n : nat := 128.
Definition gc_sd : R := 2 / 10.
Definition gc_t (k : nat) : R := cos (1 / 2 * PI * ((2 * INR k - 1) / INR gc_n)).
Definition gc_u (k : nat) : R := gc_t k / (1 - gc_t k * gc_t k).
Definition gc_w (k : nat) : R :=
  (PI / INR gc_n) * (1 + gc_t k * gc_t k) / (gc_sd * Rpower (1 - gc_t k * gc_t k) (3 / 2)).

Definition shape (th : theta) : theta :=
  Build_theta 0 gc_sd (t_lnv th) (t_f th) (t_k th) (t_q th).

Definition norm_model (th : theta) : R :=
  fold_right Rplus 0 (map (fun k => gc_w k * pdf_model (gc_u k) (shape th)) (seq 1 gc_n)) * t_s0 th.

Definition evaluate_model (x : R) (th : theta) : R := pdf_model x th / norm_model th.

(* parameters of the family member fitted to data transformed by x -> a x + b *)
Definition affine_theta (a b : R) (th : theta) : theta :=
  Build_theta (a * t_x0 th + b) (a * t_s0 th) (t_lnv th) (t_f th) (t_k th) (t_q th).

Definition hdi_cost (w Pa Pb Fa Fb f : R) : R :=
  (w * (Pa - Pb)) * (w * (Pa - Pb)) + (Fb - Fa - f) * (Fb - Fa - f).

(* the quantity interval() minimises over (c, w), for an estimator with density P and
   cumulative function F, and the probability the candidate interval holds *)
Definition interval_mass (F : R -> R) (c w : R) : R := F (c + w / 2) - F (c - w / 2).

Definition interval_cost (P F : R -> R) (wt f c w : R) : R :=
  hdi_cost wt (P (c - w / 2)) (P (c + w / 2)) (F (c - w / 2)) (F (c + w / 2)) f.

Definition nondecreasing (F : R -> R) : Prop := forall x y, x <= y -> F x <= F y.
