(* Constructor configuration of the acquisition classes (real-number model).
   No proofs here (see Proofs/AcquisitionConfigProofs.v).

   code (inference/gp/acquisition.py)                           definition
   ------------------------------------------------------------------------------
   :161-162  def __init__(self, kappa: float = 2.0):            ucb_kappa
                 self.kappa = kappa
   :168-185  __call__ / opt_func / opt_func_gradient use        ucb_call (ucb_kappa arg) ...
             self.kappa

   The argument is `None` when the caller omits it and `Some k` when the caller passes k --
   for EVERY k, in particular k = 0 (pure exploitation, allowed by the docstring: kappa >= 0),
   which is a falsy value in Python. *)
From Coq Require Import Reals.
From IT Require Import RealModel.Acquisition.
Open Scope R_scope.

Definition ucb_kappa (arg : option R) : R :=
  match arg with Some k => k | None => 2 end.

(* mutation target: `self.kappa = kappa or 2.0` takes every falsy value as missing *)
Definition ucb_kappa_falsy (arg : option R) : R :=
  match arg with
  | Some k => if Req_EM_T k 0 then 2 else k
  | None => 2
  end.
