(* Real-valued model of inference/gp/covariance.py (property C10).
   Definitions only, no proofs (Proofs/KernelsProofs.v).

   A point is the list of its d coordinates; a hyper-parameter vector `theta` is a
   list of reals in the code's parametrisation (logs of amplitude / length-scales /
   alpha / noise level; change-point location and width as they are).  Matrices
   are functions of their row / column index into the data list `xs` handed to
   pass_spatial_data.

   covariance.py                                        model
   -------------                                        -----
   SquaredExponential.__call__            240-245       se_val
     .pass_spatial_data (distances, epsilon) 212-226    se_dist, jitter * delta i j
     .build_covariance                    247-255       se_build
     .covariance_and_gradients            268-276       se_build, se_grad     (formulas as written)
   RationalQuadratic.__call__             335-341       rq_val   ((1+Z/k)**(-k) as exp(-k ln(1+Z/k)))
     .build_covariance                    343-348       rq_build
     .covariance_and_gradients            350-365       rq_build, rq_grad
   WhiteNoise.__call__ / build / grads    160-175       wn_val (= 0), wn_build, wn_grad
   HeteroscedasticNoise (n = x.shape[0])  649-686       hn_val (= 0), hn_build, hn_grad
   CompositeCovariance                    55-105        ksum   (slices from Model.Slices.slice_builder)
   ChangePoint.__call__                   529-544       cp_val    (coefficient recursion: coeffs_from)
     .build_covariance                    546-559       cp_build
     .covariance_and_gradients            561-593       cp_grad  = kernel part cp_kgrad, change-point part
                                                        cp_wgrad (REPAIRED, fixes/D13) ; the formula of the
                                                        pinned tree is cp_wgrad_pinned / cp_grad_pinned
     .logistic / logistic_and_gradient    595-605       logistic, dlogistic
*)
From Coq Require Import Reals List Arith.
From IT Require Import Model.Slices.
Import ListNotations.
Open Scope R_scope.

Definition pt := list R.

Definition coord (u : pt) (k : nat) : R := nth k u 0.          (* u[k] *)
Definition par (th : list R) (k : nat) : R := nth k th 0.      (* theta[k] *)
Definition point (xs : list pt) (i : nat) : pt := nth i xs []. (* x[i, :] *)

(* theta with entry p replaced by t *)
Fixpoint upd (l : list R) (p : nat) (t : R) : list R :=
  match l, p with
  | [], _ => []
  | _ :: r, O => t :: r
  | x :: r, S p' => x :: upd r p' t
  end.

Fixpoint Rsum (l : list nat) (f : nat -> R) : R :=
  match l with [] => 0 | k :: r => f k + Rsum r f end.

Fixpoint lsum (l : list R) : R := match l with [] => 0 | a :: r => a + lsum r end.

Definition delta (i j : nat) : R := if Nat.eqb i j then 1 else 0.
Definition jitter : R := 1 / 1000000000000.        (* 1e-12 *)

(* ------------------------------------------------------------------ *)
(* SquaredExponential: theta = [ln a, ln l_0 .. ln l_{d-1}]            *)
Definition se_dist (u v : pt) (k : nat) : R := - (1/2) * (coord u k - coord v k) ^ 2.
Definition se_expo (d : nat) (th : list R) (u v : pt) : R :=
  Rsum (seq 0 d) (fun k => se_dist u v k / (exp (par th (S k))) ^ 2).
Definition se_val (d : nat) (th : list R) (u v : pt) : R :=
  (exp (par th 0)) ^ 2 * exp (se_expo d th u v).
Definition se_build (d : nat) (xs : list pt) (th : list R) (i j : nat) : R :=
  (exp (par th 0)) ^ 2 * (exp (se_expo d th (point xs i) (point xs j)) + jitter * delta i j).
Definition se_grad (d : nat) (xs : list pt) (th : list R) (p i j : nat) : R :=
  match p with
  | O => 2 * se_build d xs th i j
  | S k => (-2 / (exp (par th (S k))) ^ 2) * se_dist (point xs i) (point xs j) k * se_build d xs th i j
  end.

(* ------------------------------------------------------------------ *)
(* RationalQuadratic: theta = [ln a, ln alpha, ln l_0 .. ln l_{d-1}]   *)
Definition rq_dist (u v : pt) (k : nat) : R := (1/2) * (coord u k - coord v k) ^ 2.
Definition rq_Z (d : nat) (th : list R) (u v : pt) : R :=
  Rsum (seq 0 d) (fun k => rq_dist u v k / (exp (par th (S (S k)))) ^ 2).
Definition rq_F (d : nat) (th : list R) (u v : pt) : R := 1 + rq_Z d th u v / exp (par th 1).
Definition rq_C (d : nat) (th : list R) (u v : pt) : R :=
  exp (- exp (par th 1) * ln (rq_F d th u v)).
Definition rq_val (d : nat) (th : list R) (u v : pt) : R := (exp (par th 0)) ^ 2 * rq_C d th u v.
Definition rq_build (d : nat) (xs : list pt) (th : list R) (i j : nat) : R :=
  (exp (par th 0)) ^ 2 * (rq_C d th (point xs i) (point xs j) + jitter * delta i j).
Definition rq_grad (d : nat) (xs : list pt) (th : list R) (p i j : nat) : R :=
  let u := point xs i in let v := point xs j in
  let K := rq_build d xs th i j in
  let F := rq_F d th u v in
  match p with
  | O => 2 * K
  | S O => - K * (ln F * exp (par th 1) - rq_Z d th u v / F)
  | S (S k) => (2 * K / F) * (rq_dist u v k / (exp (par th (S (S k)))) ^ 2)
  end.

(* ------------------------------------------------------------------ *)
(* WhiteNoise: theta = [ln sigma];   HeteroscedasticNoise: theta = [ln sigma_0 .. ln sigma_{n-1}] *)
Definition wn_val (th : list R) (u v : pt) : R := 0.
Definition wn_build (xs : list pt) (th : list R) (i j : nat) : R := exp (2 * par th 0) * delta i j.
Definition wn_grad (xs : list pt) (th : list R) (p i j : nat) : R := 2 * wn_build xs th i j.

Definition hn_val (th : list R) (u v : pt) : R := 0.
Definition hn_build (xs : list pt) (th : list R) (i j : nat) : R := exp (2 * par th i) * delta i j.
Definition hn_grad (xs : list pt) (th : list R) (p i j : nat) : R :=
  exp (2 * par th p) * (if (Nat.eqb i p && Nat.eqb j p)%bool then 2 else 0).

(* ------------------------------------------------------------------ *)
(* a covariance function object after pass_spatial_data *)
Record kernel := mkK {
  np : nat;                                                (* n_params *)
  kval : list R -> pt -> pt -> R;                          (* __call__(u, v, theta)[a, b] for rows u, v *)
  kbuild : list pt -> list R -> nat -> nat -> R;           (* build_covariance(theta)[i, j] *)
  kgrad : list pt -> list R -> nat -> nat -> nat -> R;     (* covariance_and_gradients(theta)[1][p][i, j] *)
  kdiag : list pt -> list R -> nat -> R;                   (* what build_covariance adds to the pairwise value at [i, i]:
                                                              jitter a^2 * 1e-12 and noise variances *)
  kok : list R -> Prop                                     (* theta admissible (change-point widths non-zero) *)
}.

Definition se_diag (xs : list pt) (th : list R) (i : nat) : R := (exp (par th 0)) ^ 2 * jitter.
Definition wn_diag (xs : list pt) (th : list R) (i : nat) : R := exp (2 * par th 0).
Definition hn_diag (xs : list pt) (th : list R) (i : nat) : R := exp (2 * par th i).

Definition se (d : nat) : kernel := mkK (se_np d) (se_val d) (se_build d) (se_grad d) se_diag (fun _ => True).
Definition rq (d : nat) : kernel := mkK (rq_np d) (rq_val d) (rq_build d) (rq_grad d) se_diag (fun _ => True).
Definition wn : kernel := mkK wn_np wn_val wn_build wn_grad wn_diag (fun _ => True).
Definition hn (n : nat) : kernel := mkK (hn_np n) hn_val hn_build hn_grad hn_diag (fun _ => True).

(* [f(comp, theta[slc]) for comp, slc in zip(components, slices)] *)
Fixpoint each {A : Type} (ks : list kernel) (sls : list slice) (f : kernel -> list R -> A) (th : list R)
  : list A :=
  match ks, sls with
  | k :: kr, s :: sr => f k (apply_slice s th) :: each kr sr f th
  | _, _ => []
  end.

Fixpoint all_ok (ks : list kernel) (sls : list slice) (th : list R) : Prop :=
  match ks, sls with
  | k :: kr, s :: sr => kok k (apply_slice s th) /\ all_ok kr sr th
  | _, _ => True
  end.

(* ------------------------------------------------------------------ *)
(* CompositeCovariance *)
Definition nps (ks : list kernel) : nat := total (map np ks).
Definition sum_slices (ks : list kernel) : list slice := slice_builder (map np ks).

(* p-th element of the concatenation of the components' gradient lists *)
Fixpoint sum_grad (ks : list kernel) (sls : list slice) (xs : list pt) (th : list R) (p i j : nat) : R :=
  match ks, sls with
  | k :: kr, s :: sr =>
      if Nat.ltb p (np k) then kgrad k xs (apply_slice s th) p i j
      else sum_grad kr sr xs th (p - np k) i j
  | _, _ => 0
  end.

Definition ksum (ks : list kernel) : kernel :=
  mkK (nps ks)
      (fun th u v => lsum (each ks (sum_slices ks) (fun k t => kval k t u v) th))
      (fun xs th i j => lsum (each ks (sum_slices ks) (fun k t => kbuild k xs t i j) th))
      (fun xs th p i j => sum_grad ks (sum_slices ks) xs th p i j)
      (fun xs th i => lsum (each ks (sum_slices ks) (fun k t => kdiag k xs t i) th))
      (fun th => all_ok ks (sum_slices ks) th).

(* ------------------------------------------------------------------ *)
(* ChangePoint *)
Definition logistic (c w x : R) : R := 1 / (1 + exp (- ((x - c) / w))).
(* logistic_and_gradient: q = 0 location, q = 1 width *)
Definition dlogistic (q : nat) (c w x : R) : R :=
  let f := logistic c w x in
  let dfdc := - f * (1 - f) / w in
  match q with O => dfdc | _ => dfdc * ((x - c) / w) end.

Definition cp_a (cw : R * R) (xu xv : R) : R :=            (* w1 *)
  (1 - logistic (fst cw) (snd cw) xu) * (1 - logistic (fst cw) (snd cw) xv).
Definition cp_b (cw : R * R) (xu xv : R) : R :=            (* w2 *)
  logistic (fst cw) (snd cw) xu * logistic (fst cw) (snd cw) xv.

(* kernel_coeffs = [1.0]; for each change-point: kernel_coeffs[-1] *= w1; kernel_coeffs.append(w2).
   `last` is the current last element. *)
Fixpoint coeffs_from (last : R) (cps : list (R * R)) (xu xv : R) : list R :=
  match cps with
  | [] => [last]
  | cw :: r => last * cp_a cw xu xv :: coeffs_from (cp_b cw xu xv) r xu xv
  end.
Definition coeffs (cps : list (R * R)) (xu xv : R) : list R := coeffs_from 1 cps xu xv.

(* sum(K[i] * kernel_coeffs[i] for i in range(n_kernels)) *)
Fixpoint wsum (vals coefs : list R) : R :=
  match vals, coefs with
  | a :: ar, c :: cr => a * c + wsum ar cr
  | _, _ => 0
  end.

Definition cp_counts (ks : list kernel) : list nat := map np ks ++ repeat 2%nat (length ks - 1)%nat.
Definition cp_all_slices (ks : list kernel) : list slice := slice_builder (cp_counts ks).
Definition cov_slc (ks : list kernel) : list slice := firstn (length ks) (cp_all_slices ks).
Definition cp_slc (ks : list kernel) : list slice := skipn (length ks) (cp_all_slices ks).
(* [(theta[slc][0], theta[slc][1]) for slc in cp_slc] *)
Definition cp_params (ks : list kernel) (th : list R) : list (R * R) :=
  map (fun s => (par (apply_slice s th) 0, par (apply_slice s th) 1)) (cp_slc ks).

(* (A + A.T)[i, j] with A = -dw[:, None] * (1 - w)[None, :]  and  (B + B.T)[i, j] with B = dw[:, None] * w[None, :] *)
Definition cp_da (q : nat) (cw : R * R) (xi xj : R) : R :=
  let c := fst cw in let w := snd cw in
  - dlogistic q c w xi * (1 - logistic c w xj) + - dlogistic q c w xj * (1 - logistic c w xi).
Definition cp_db (q : nat) (cw : R * R) (xi xj : R) : R :=
  let c := fst cw in let w := snd cw in
  dlogistic q c w xi * logistic c w xj + dlogistic q c w xj * logistic c w xi.

(* gradient w.r.t. parameter q of change-point m, REPAIRED formula (fixes/D13):
     K_vals[m] * w2[m-1] * (A + A.T) + K_vals[m+1] * w1[m+1] * (B + B.T)
   with w2[-1] := 1 and w1[n_kernels-1] := 1.  `last` carries w2 of the preceding change-point. *)
Fixpoint cp_wgrad (last : R) (Kv : list R) (cps : list (R * R)) (m q : nat) (xi xj : R) : R :=
  match Kv, cps with
  | K0 :: ((K1 :: _) as Kr), cw :: cr =>
      match m with
      | O => K0 * last * cp_da q cw xi xj
             + K1 * (match cr with [] => 1 | cw' :: _ => cp_a cw' xi xj end) * cp_db q cw xi xj
      | S m' => cp_wgrad (cp_b cw xi xj) Kr cr m' q xi xj
      end
  | _, _ => 0
  end.

(* the formula of the pinned tree (covariance.py:587-592):
     K_vals[m] * (A + A.T) + K_vals[m+1] * (B + B.T) *)
Fixpoint cp_wgrad_pinned (Kv : list R) (cps : list (R * R)) (m q : nat) (xi xj : R) : R :=
  match Kv, cps with
  | K0 :: ((K1 :: _) as Kr), cw :: cr =>
      match m with
      | O => K0 * cp_da q cw xi xj + K1 * cp_db q cw xi xj
      | S m' => cp_wgrad_pinned Kr cr m' q xi xj
      end
  | _, _ => 0
  end.

(* gradients.extend([dK * kernel_coeffs[i] for dK in K_grads[i]]) : p-th element *)
Fixpoint cp_kgrad (ks : list kernel) (sls : list slice) (cf : list R) (xs : list pt) (th : list R)
  (p i j : nat) : R :=
  match ks, sls, cf with
  | k :: kr, s :: sr, c :: cr =>
      if Nat.ltb p (np k) then kgrad k xs (apply_slice s th) p i j * c
      else cp_kgrad kr sr cr xs th (p - np k) i j
  | _, _, _ => 0
  end.

Section ChangePoint.
  Variable axis : nat.
  Variable ks : list kernel.

  Definition cp_val (th : list R) (u v : pt) : R :=
    wsum (each ks (cov_slc ks) (fun k t => kval k t u v) th)
         (coeffs (cp_params ks th) (coord u axis) (coord v axis)).

  Definition cp_build (xs : list pt) (th : list R) (i j : nat) : R :=
    wsum (each ks (cov_slc ks) (fun k t => kbuild k xs t i j) th)
         (coeffs (cp_params ks th) (coord (point xs i) axis) (coord (point xs j) axis)).

  Definition cp_grad_with (wg : list R -> list (R * R) -> nat -> nat -> R -> R -> R)
    (xs : list pt) (th : list R) (p i j : nat) : R :=
    let xi := coord (point xs i) axis in
    let xj := coord (point xs j) axis in
    if Nat.ltb p (nps ks) then
      cp_kgrad ks (cov_slc ks) (coeffs (cp_params ks th) xi xj) xs th p i j
    else
      wg (each ks (cov_slc ks) (fun k t => kbuild k xs t i j) th) (cp_params ks th)
         (Nat.div (p - nps ks) 2) (Nat.modulo (p - nps ks) 2) xi xj.

  Definition cp_grad := cp_grad_with (cp_wgrad 1).
  Definition cp_grad_pinned := cp_grad_with cp_wgrad_pinned.
  Definition changepoint_grad_pinned := cp_grad_pinned.      (* name used in DESIGN.md *)

  Definition cp_diag (xs : list pt) (th : list R) (i : nat) : R :=
    wsum (each ks (cov_slc ks) (fun k t => kdiag k xs t i) th)
         (coeffs (cp_params ks th) (coord (point xs i) axis) (coord (point xs i) axis)).

  Definition cp_ok (th : list R) : Prop :=
    all_ok ks (cov_slc ks) th /\ Forall (fun cw : R * R => snd cw <> 0) (cp_params ks th).

  Definition kcp : kernel := mkK (total (cp_counts ks)) cp_val cp_build cp_grad cp_diag cp_ok.
  Definition kcp_pinned : kernel := mkK (total (cp_counts ks)) cp_val cp_build cp_grad_pinned cp_diag cp_ok.
End ChangePoint.
