(* Real-valued model of inference/pdf/kde.py : GaussianKDE values  (property C12).

   Definitions only (plus the evaluation tactics used by generated goal files).

   kde.py                                                   model
   ------                                                   -----
   :70  norm = 1/(len(sample) * sqrt(2 pi) * h)             kde_norm N h
   :72  q = 1/(sqrt(2) h)
   :110 dx = x - sample[slices[r]]
   :111 exp(-((dx*q)**2)).sum()    = sum exp(-(dx/h)^2/2)   ksum h slice x   (kernel)
   :112 pdf *= norm                                         kde_pdf N h slice x
        exact KDE: the same sum over the whole sample       kde_pdf N h sample x
   :127 coeff = 0.5/len(sample)
   :131 k = 1 + erf(dx*q)          (1+erf(z/sqrt 2))/2 = Phi z = 1/2 + int_0^z phi
   :132 cdf = coeff*k.sum() + cdf_offsets[r]                kde_cdf N off h slice x
   :137 1.06 * std(sample) / sample.size**0.2               rule_of_thumb
   :152-153 log-bandwidth grid  (repaired, D17)             cv_grid ; pinned: cv_grid_pinned
   :195-218 leave-one-out log-probability                   cv_logprob
   :157-193 grid extension / refinement                     cv_search (over an abstract score)
*)
From Coq Require Import Reals List QArith Qreals ZArith.
From Coquelicot Require Import Coquelicot.
From Interval Require Import Tactic.
From IT Require Import Model.KdeRegions.
Import ListNotations.
Open Scope R_scope.

Definition kernel (h x y : R) : R := exp (- (((x - y) / h) * ((x - y) / h)) / 2).

Definition ksum (h : R) (ys : list R) (x : R) : R :=
  fold_right (fun y acc => kernel h x y + acc) 0 ys.

Definition kde_norm (N : Z) (h : R) : R := / (IZR N * sqrt (2 * PI) * h).

Definition kde_pdf (N : Z) (h : R) (ys : list R) (x : R) : R := ksum h ys x * kde_norm N h.

Definition phi (t : R) : R := exp (- (t * t) / 2) / sqrt (2 * PI).
Definition Phi (z : R) : R := 1 / 2 + RInt phi 0 z.

Definition csum (h : R) (ys : list R) (x : R) : R :=
  fold_right (fun y acc => Phi ((x - y) / h) + acc) 0 ys.

Definition kde_cdf (N : Z) (off h : R) (ys : list R) (x : R) : R := off + csum h ys x / IZR N.

(* ---- the implementation's value at one point, from the discrete model ---- *)
Definition pdf_code_at (n : nat) (sample : list Q) (h x : Q) : R :=
  let s := QSort.sort sample in
  kde_pdf (Z.of_nat (length s)) (Q2R h)
          (map Q2R (region_slice n s h (region_of n s x))) (Q2R x).

Definition pdf_exact_at (sample : list Q) (h x : Q) : R :=
  kde_pdf (Z.of_nat (length sample)) (Q2R h) (map Q2R sample) (Q2R x).

Definition cdf_code_at (n : nat) (sample : list Q) (h x : Q) : R :=
  let s := QSort.sort sample in
  let r := region_of n s x in
  kde_cdf (Z.of_nat (length s)) (Q2R (cdf_offset n s h r)) (Q2R h)
          (map Q2R (region_slice n s h r)) (Q2R x).

Definition cdf_exact_at (sample : list Q) (h x : Q) : R :=
  kde_cdf (Z.of_nat (length sample)) 0 (Q2R h) (map Q2R sample) (Q2R x).

(* ---- bandwidth selection ---- *)
Definition rsum (l : list R) : R := fold_right Rplus 0 l.
Definition rmean (l : list R) : R := rsum l / INR (length l).
(* numpy.std: population variance (ddof = 0) *)
Definition rvar (l : list R) : R := rmean (map (fun x => (x - rmean l) * (x - rmean l)) l).

Definition rule_of_thumb (l : list R) : R :=
  (106 / 100) * sqrt (rvar l) / Rpower (INR (length l)) (2 / 10).

Definition cv_offsets : list Z := [-2; -1; 0; 1; 2]%Z.
Definition cv_dh : R := 1 / 2.
(* repaired (D17): the grid lives in log-bandwidth space *)
Definition cv_grid (h0 : R) : list R := map (fun m => ln h0 + IZR m * cv_dh) cv_offsets.
(* pinned: built from the bandwidth itself *)
Definition cv_grid_pinned (h0 : R) : list R := map (fun m => h0 + IZR m * cv_dh) cv_offsets.
Definition cv_widths (h0 : R) : list R := map exp (cv_grid h0).
Definition cv_widths_pinned (h0 : R) : list R := map exp (cv_grid_pinned h0).

(* leave-one-out cross-validation log-probability, kde.py:195-218
   (reduce(logaddexp, ...) = ln of the sum of exponentials) *)
Definition log_kernel (x c h : R) : R := - (1 / 2) * (((x - c) / h) * ((x - c) / h)) - ln h.

Definition log_evaluation (pt : R) (samples : list R) (w : R) : R :=
  ln (rsum (map (fun c => exp (log_kernel pt c w)) samples))
  - ln (INR (length samples) * sqrt (2 * PI)).

Definition loo_term (samples : list R) (w : R) (pt : R) : R :=
  let lp := log_evaluation pt samples w in
  let d := ln (99 / 100) - ln (w * INR (length samples) * sqrt (2 * PI)) - lp in
  lp + ln (1 - exp d).

Definition cv_logprob (samples : list R) (w : R) : R := rsum (map (loo_term samples w) samples).

(* ---- the grid search of cross_validation_bandwidth_estimator over an
        abstract score  u |-> cross_validation_logprob(samples, exp u)  ---- *)
(* numpy.argmax: index of the first maximum *)
Fixpoint rargmax_aux (l : list R) (best : R) (bi i : nat) : nat :=
  match l with
  | [] => bi
  | x :: t => if Rlt_dec best x then rargmax_aux t x i (S i) else rargmax_aux t best bi (S i)
  end.
Definition rargmax (l : list R) : nat :=
  match l with [] => 0%nat | x :: t => rargmax_aux t x 0%nat 1%nat end.

Definition insert_at {A} (i : nat) (v : A) (l : list A) : list A := firstn i l ++ v :: skipn i l.

Section Search.
  Variable score : R -> R.

  (* one pass of the "extend the grid while the maximum is at an edge" loop *)
  Definition cv_extend (st : list R * list R) : list R * list R :=
    let '(lh, lp) := st in
    let mi := rargmax lp in
    if (Nat.ltb 0 mi && Nat.ltb mi (length lh - 1))%bool then st
    else if Nat.eqb mi 0 then
      let nh := hd 0 lh - cv_dh in (nh :: lh, score nh :: lp)
    else
      let nh := last lh 0 + cv_dh in (lh ++ [nh], lp ++ [score nh]).

  (* one pass of the refinement loop *)
  Definition cv_refine (st : list R * list R) : list R * list R :=
    let '(lh, lp) := st in
    let mi := rargmax lp in
    let lo := (1 / 2) * (nth (mi - 1) lh 0 + nth mi lh 0) in
    let up := (1 / 2) * (nth mi lh 0 + nth (mi + 1) lh 0) in
    let lh1 := insert_at mi lo lh in
    let lp1 := insert_at mi (score lo) lp in
    (insert_at (mi + 2) up lh1, insert_at (mi + 2) (score up) lp1).

  Fixpoint iter {A} (k : nat) (f : A -> A) (a : A) : A :=
    match k with O => a | S k' => iter k' f (f a) end.

  (* log of the selected bandwidth, given the log-grid to start from *)
  Definition cv_search (grid : list R) : R :=
    let st0 := (grid, map score grid) in
    let st1 := iter 5 cv_extend st0 in
    let '(lh, lp) := iter 6 cv_refine st1 in
    nth (rargmax lp) lh 0.
End Search.

(* ---- evaluation tactics for generated goal files (pdf; the cdf tactic needs
        two small lemmas and lives in Proofs/KdeProofs.v) ----
   The list part of the model (sorting, region look-up, slice) is evaluated by
   vm_compute inside Coq; what remains is a closed real expression that
   coq-interval encloses. *)
Ltac kde_lists :=
  cbv zeta;
  repeat match goal with
  | |- context [map Q2R ?l] =>
      let v := eval vm_compute in l in
      replace l with v by (vm_compute; reflexivity); cbv [map]
  end;
  repeat match goal with
  | |- context [Z.of_nat ?l] =>
      let v := eval vm_compute in (Z.of_nat l) in
      replace (Z.of_nat l) with v by (vm_compute; reflexivity)
  end;
  repeat match goal with
  | |- context [Q2R (cdf_offset ?n ?s ?h ?r)] =>
      let v := eval vm_compute in (Qred (cdf_offset n s h r)) in
      replace (Q2R (cdf_offset n s h r)) with (Q2R v)
        by (apply Qeq_eqR; vm_compute; reflexivity)
  end.

Ltac kde_pdf_goal :=
  unfold pdf_code_at, pdf_exact_at; kde_lists;
  cbv [kde_pdf ksum kernel kde_norm fold_right Q2R Qnum Qden];
  interval with (i_prec 90).
