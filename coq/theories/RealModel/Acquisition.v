(* Real-valued formula model of inference/gp/acquisition.py (pinned tree).
   No proofs here (see Proofs/AcquisitionProofs.v).

   Inputs of every formula are what the code reads from the regressor at the
   query point:  mu = gp(x)[0][0], sig = gp(x)[1][0] (predictive mean and
   standard deviation), ymax = self.mu_max, and per spatial coordinate
   dmu, dvar = gp.spatial_derivatives(x) (gradient of the mean and of the
   VARIANCE sig^2).

   code line (acquisition.py)                    definition
   ------------------------------------------------------------------------
   4    scipy.special.erf / erfcx                 erf, erfc, erfcx
   68-71  ir2pi, ir2, rpi2, ln2pi                 ir2pi, ir2, rpi2, ln2pi
   127-137 normal_pdf, normal_cdf,                normal_pdf, normal_cdf,
           cdf_pdf_ratio, ln_pdf                  cdf_pdf_ratio, ln_pdf
   78     Z = (mu[0]-mu_max)/sig[0]               zscore
   79     if Z < -3                               ei_* : Rlt_dec Z (-3)
   80-81  tail branch of __call__                 ln_ei_tail, ei_tail
   83-85  ordinary branch of __call__             ei_ordinary
   76-86  ExpectedImprovement.__call__            ei_call
   88-97  ExpectedImprovement.opt_func            ei_opt_func
   99-125 ExpectedImprovement.opt_func_gradient   ei_opt_func (value),
                                                  ei_grad_tail / ei_grad_ordinary,
                                                  ei_opt_grad
   168-189 UpperConfidenceBound                   ucb_call, ucb_opt_func, ucb_opt_grad
   212-229 MaxVariance                            mv_call, mv_opt_func, mv_opt_grad

   The specification side: phi, Phi (standard normal density / distribution
   function, Phi z = 1/2 + int_0^z phi) and ei_spec = sig (Z Phi Z + phi Z). *)
From Coq Require Import Reals.
From Coquelicot Require Import Coquelicot.
Open Scope R_scope.

(* ---- specification: the standard normal law ---- *)
Definition phi (z : R) : R := / sqrt (2 * PI) * exp (- (z * z) / 2).
Definition Phi (z : R) : R := 1 / 2 + RInt phi 0 z.
(* the "improvement kernel"  h(z) = z Phi(z) + phi(z) *)
Definition ei_kernel (z : R) : R := z * Phi z + phi z.

(* ---- scipy.special (the usual integral definitions) ---- *)
Definition erf (x : R) : R := 2 / sqrt PI * RInt (fun t => exp (- (t * t))) 0 x.
Definition erfc (x : R) : R := 1 - erf x.
Definition erfcx (x : R) : R := exp (x * x) * erfc x.

(* ---- ExpectedImprovement.__init__ constants ---- *)
Definition ir2pi : R := 1 / sqrt (2 * PI).
Definition ir2 : R := 1 / sqrt 2.
Definition rpi2 : R := sqrt (1 / 2 * PI).
Definition ln2pi : R := ln (2 * PI).

(* ---- helper methods ---- *)
Definition normal_pdf (z : R) : R := exp (- (1 / 2) * (z * z)) * ir2pi.
Definition normal_cdf (z : R) : R := 1 / 2 * (1 + erf (z * ir2)).
Definition cdf_pdf_ratio (z : R) : R := rpi2 * erfcx (- z * ir2).
Definition ln_pdf (z : R) : R := - (1 / 2) * (z * z + ln2pi).

Definition zscore (mu sig ymax : R) : R := (mu - ymax) / sig.

(* ---- ExpectedImprovement ---- *)
Definition ei_ordinary (mu sig ymax : R) : R :=
  let Z := zscore mu sig ymax in
  sig * (Z * normal_cdf Z + normal_pdf Z).

Definition ln_ei_tail (mu sig ymax : R) : R :=
  let Z := zscore mu sig ymax in
  ln (1 + Z * cdf_pdf_ratio Z) + ln_pdf Z + ln sig.

Definition ei_tail (mu sig ymax : R) : R := exp (ln_ei_tail mu sig ymax).

Definition ei_call (mu sig ymax : R) : R :=
  if Rlt_dec (zscore mu sig ymax) (-3) then ei_tail mu sig ymax
  else ei_ordinary mu sig ymax.

Definition ei_opt_func (mu sig ymax : R) : R :=
  if Rlt_dec (zscore mu sig ymax) (-3) then - ln_ei_tail mu sig ymax
  else - ln (ei_ordinary mu sig ymax).

(* gradient of ln EI along one spatial coordinate (before the sign flip) *)
Definition ei_grad_tail (mu sig ymax dmu dvar : R) : R :=
  let Z := zscore mu sig ymax in
  let R0 := cdf_pdf_ratio Z in
  let H := 1 + Z * R0 in
  (1 / 2 * dvar / sig + R0 * dmu) / (H * sig).

Definition ei_grad_ordinary (mu sig ymax dmu dvar : R) : R :=
  let Z := zscore mu sig ymax in
  let pdf := normal_pdf Z in
  let cdf := normal_cdf Z in
  let EI := sig * (Z * cdf + pdf) in
  (1 / 2 * pdf * dvar / sig + dmu * cdf) / EI.

Definition ei_opt_grad (mu sig ymax dmu dvar : R) : R :=
  - (if Rlt_dec (zscore mu sig ymax) (-3) then ei_grad_tail mu sig ymax dmu dvar
     else ei_grad_ordinary mu sig ymax dmu dvar).

(* what all of the above is meant to compute *)
Definition ei_spec (mu sig ymax : R) : R :=
  sig * ei_kernel (zscore mu sig ymax).
Definition ln_ei_grad_spec (mu sig ymax dmu dvar : R) : R :=
  let Z := zscore mu sig ymax in
  (1 / 2 * phi Z * dvar / sig + dmu * Phi Z) / ei_spec mu sig ymax.

(* ---- UpperConfidenceBound ---- *)
Definition ucb_call (kappa mu sig : R) : R := mu + kappa * sig.
Definition ucb_opt_func (kappa mu sig : R) : R := - mu - kappa * sig.
Definition ucb_opt_grad (kappa sig dmu dvar : R) : R :=
  - (dmu + 1 / 2 * kappa * dvar / sig).

(* ---- MaxVariance ---- *)
Definition mv_call (sig : R) : R := sig ^ 2.
Definition mv_opt_func (sig : R) : R := - sig ^ 2.
Definition mv_opt_grad (dvar : R) : R := - dvar.
