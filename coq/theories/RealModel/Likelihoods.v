(* Real-valued model of inference/likelihoods.py  (property C05).

   Definitions only, no proofs.  Every formula is written the way the code
   writes it; the textbook densities they are compared with are at the end.

   likelihoods.py                                             model
   --------------                                             -----
   Likelihood.__call__ : _log_likelihood(model(theta))        *_loglike ys ss fs   (fs = predictions)
   Likelihood.gradient : _log_likelihood_gradient(            *_gradient ys ss fs J j
        model(theta), model_jacobian(theta))                    = entry j of dL_dF @ J  (J = list of rows)
   Likelihood.cost / cost_gradient  (112-119)                 cost / cost_gradient

   GaussianLikelihood (152-167)
     inv_sigma = 1/sigma ; inv_sigma_sqr = inv_sigma**2       / s , (/ s)^2
     normalisation = -log(sigma).sum() - 0.5*log(2*pi)*n      gauss_normalisation
     z = (y - f)*inv_sigma ; -0.5*(z**2).sum() + norm         gauss_loglike
     dL_dF = (y - f)*inv_sigma_sqr                            gauss_dLdF
   CauchyLikelihood (200-215)
     inv_gamma = 1/gamma ; normalisation = -log(pi*gamma).sum()
     -log(1 + z**2).sum() + normalisation                     cauchy_loglike
     dL_dF = 2*inv_gamma*z/(1 + z**2)                         cauchy_dLdF
   LogisticLikelihood (248-264)
     scale = sigma*(sqrt(3)/pi) ; inv_scale = 1/scale         logistic_scale
     normalisation = -log(scale).sum()
     z.sum() - 2*logaddexp(0, z).sum() + normalisation        logistic_loglike
     dL_dF = (2/(1 + exp(-z)) - 1)*inv_scale                  logistic_dLdF
*)
From Coq Require Import Reals List.
From Coquelicot Require Import Coquelicot.
Import ListNotations.
Open Scope R_scope.

Definition sumR (l : list R) : R := fold_right Rplus 0 l.

Fixpoint map2 {A B C} (g : A -> B -> C) (xs : list A) (ys : list B) : list C :=
  match xs, ys with
  | x :: xs', y :: ys' => g x y :: map2 g xs' ys'
  | _, _ => []
  end.

Fixpoint map3 {A B C D} (g : A -> B -> C -> D) (xs : list A) (ys : list B) (zs : list C) : list D :=
  match xs, ys, zs with
  | x :: xs', y :: ys', z :: zs' => g x y z :: map3 g xs' ys' zs'
  | _, _, _ => []
  end.

(* entry j of the vector-matrix product  v @ J,  J given as its list of rows *)
Definition vecmat (v : list R) (J : list (list R)) (j : nat) : R :=
  sumR (map2 (fun vi row => vi * nth j row 0) v J).

(* numpy.logaddexp(a, b) = log(exp(a) + exp(b)) *)
Definition logaddexp (a b : R) : R := ln (exp a + exp b).

(* ---------------- Gaussian ---------------- *)
Definition gauss_normalisation (ss : list R) : R :=
  - sumR (map ln ss) - (1 / 2) * ln (2 * PI) * INR (length ss).

Definition gauss_z (y s f : R) : R := (y - f) * (1 / s).

Definition gauss_loglike (ys ss fs : list R) : R :=
  - (1 / 2) * sumR (map3 (fun y s f => (gauss_z y s f) ^ 2) ys ss fs) + gauss_normalisation ss.

Definition gauss_dLdF (ys ss fs : list R) : list R :=
  map3 (fun y s f => (y - f) * (1 / s) ^ 2) ys ss fs.

Definition gauss_gradient (ys ss fs : list R) (J : list (list R)) (j : nat) : R :=
  vecmat (gauss_dLdF ys ss fs) J j.

(* ---------------- Cauchy ---------------- *)
Definition cauchy_normalisation (gs : list R) : R := - sumR (map (fun g => ln (PI * g)) gs).

Definition cauchy_z (y g f : R) : R := (y - f) * (1 / g).

Definition cauchy_loglike (ys gs fs : list R) : R :=
  - sumR (map3 (fun y g f => ln (1 + (cauchy_z y g f) ^ 2)) ys gs fs) + cauchy_normalisation gs.

Definition cauchy_dLdF (ys gs fs : list R) : list R :=
  map3 (fun y g f => 2 * (1 / g) * cauchy_z y g f / (1 + (cauchy_z y g f) ^ 2)) ys gs fs.

Definition cauchy_gradient (ys gs fs : list R) (J : list (list R)) (j : nat) : R :=
  vecmat (cauchy_dLdF ys gs fs) J j.

(* ---------------- logistic ---------------- *)
Definition logistic_scale (s : R) : R := s * (sqrt 3 / PI).

Definition logistic_normalisation (ss : list R) : R := - sumR (map (fun s => ln (logistic_scale s)) ss).

Definition logistic_z (y s f : R) : R := (y - f) * (1 / logistic_scale s).

Definition logistic_loglike (ys ss fs : list R) : R :=
  sumR (map3 logistic_z ys ss fs)
  - 2 * sumR (map3 (fun y s f => logaddexp 0 (logistic_z y s f)) ys ss fs)
  + logistic_normalisation ss.

Definition logistic_dLdF (ys ss fs : list R) : list R :=
  map3 (fun y s f => (2 / (1 + exp (- logistic_z y s f)) - 1) * (1 / logistic_scale s)) ys ss fs.

Definition logistic_gradient (ys ss fs : list R) (J : list (list R)) (j : nat) : R :=
  vecmat (logistic_dLdF ys ss fs) J j.

(* ---------------- cost = -value, cost_gradient = -gradient ---------------- *)
Definition cost (value : R) : R := - value.
Definition cost_gradient (grad : nat -> R) (j : nat) : R := - grad j.

(* ---------------- the named densities (textbook forms) ---------------- *)
Definition gauss_pdf (mu s x : R) : R :=
  1 / (s * sqrt (2 * PI)) * exp (- ((x - mu) ^ 2) / (2 * s ^ 2)).

Definition cauchy_pdf (x0 g x : R) : R :=
  1 / (PI * g * (1 + ((x - x0) / g) ^ 2)).

Definition cauchy_cdf (x0 g x : R) : R := / PI * atan ((x - x0) / g) + 1 / 2.

(* logistic distribution with location mu and scale s *)
Definition logistic_pdf (mu s x : R) : R :=
  exp (- ((x - mu) / s)) / (s * (1 + exp (- ((x - mu) / s))) ^ 2).

Definition logistic_cdf (mu s x : R) : R := / (1 + exp (- ((x - mu) / s))).

(* sum over data points of the log of a named density with location f_i and
   scale (function of) s_i, evaluated at the datum y_i *)
Definition sum_logpdf (pdf : R -> R -> R -> R) (ys ss fs : list R) : R :=
  sumR (map3 (fun y s f => ln (pdf f s y)) ys ss fs).

(* what "pdf is a normalised probability density on the real line" means here:
   non-negative, and it has an antiderivative (its CDF) on the whole line that
   goes from 0 at -infinity to 1 at +infinity, i.e. the integral of pdf over
   (a, b) tends to 1 as a -> -infinity, b -> +infinity. *)
Definition normalised_pdf (pdf : R -> R) : Prop :=
  and (forall x, 0 <= pdf x)
      (exists cdf : R -> R,
         and (forall a b, is_RInt pdf a b (cdf b - cdf a))
             (and (is_lim cdf m_infty 0) (is_lim cdf p_infty 1))).
