(* Real-valued model of the cumulative function of inference/pdf/unimodal.py, of the
   integration limits it starts from, of the mirror image of the family, and of the
   way both estimators treat the TYPE of the points they are asked about
   (property C19).  Definitions only.

   unimodal.py                                              model
   -----------                                              -----
   :69-72   x0, s0, v, f, k, q = MAP
            upr_limit = x0 + s0 (4 exp(f)  + 1)             upr_limit
            lwr_limit = x0 - s0 (4 exp(-f) + 1)             lwr_limit
            (the right-hand tail of the model has width s0 exp(f), the left-hand
            tail s0 exp(-f): the limits are mirror images of each other)
   :110-124 cdf(x): the points are sorted; the first piece is the integral of the
            density from lwr_limit to the lowest point v0 (0 when v0 <= lwr_limit),
            every further piece the integral from the previous point to the next;
            the result is the running sum (put back in the order of the request)
                                                            first_piece, increments, running,
                                                            cdf_sorted
            The quadrature (scipy quad) is NOT modelled: F stands for the exact
            cumulative function of the estimated density, so that the integral of
            the density over [a, b] is F b - F a.
   the family member fitted to the mirror image  x -> -x  of the data
            (x0, s0, ln v, f, k, q) -> (-x0, s0, ln v, -f, k, q)   reflect_theta

   kde.py:124-125 / 107-108    x = atleast_1d(x); out = zeros(x.size)
            the output buffer is a float64 array WHATEVER the type of the points
            (a Python int, a list of ints, an int32 / int64 / float32 array): every
            value is stored as computed                     store BufFloat
            for contrast (NOT what the pinned code does): zeros_like(x) inherits the
            type of the points, and an integer buffer truncates what is stored
                                                            store BufLike
   a point reaches the arithmetic as its real value: int - float64 and
   float32 - float64 are float64 operations on the exactly converted value
                                                            qval, typed_eval
*)
From Coq Require Import Reals List ZArith.
From IT Require Import RealModel.Unimodal.
Import ListNotations.
Open Scope R_scope.

(* ---- integration limits ---- *)
Definition upr_limit (th : theta) : R := t_x0 th + t_s0 th * (4 * exp (t_f th) + 1).
Definition lwr_limit (th : theta) : R := t_x0 th - t_s0 th * (4 * exp (- t_f th) + 1).

(* the limit the seeded change C19_1 of round 4 installs (both limits use exp f) *)
Definition lwr_limit_samesign (th : theta) : R := t_x0 th - t_s0 th * (4 * exp (t_f th) + 1).

(* ---- mirror image ---- *)
Definition reflect_theta (th : theta) : theta :=
  Build_theta (- t_x0 th) (t_s0 th) (t_lnv th) (- t_f th) (t_k th) (t_q th).

(* ---- the cumulative function as the code assembles it (exact quadrature) ---- *)
Definition first_piece (F : R -> R) (L v0 : R) : R :=
  if Rlt_dec L v0 then F v0 - F L else 0.

Fixpoint increments (F : R -> R) (prev : R) (vs : list R) : list R :=
  match vs with
  | [] => []
  | v :: t => (F v - F prev) :: increments F v t
  end.

Fixpoint running (acc : R) (l : list R) : list R :=
  match l with
  | [] => []
  | x :: t => (acc + x) :: running (acc + x) t
  end.

(* vs: the requested points in increasing order *)
Definition cdf_sorted (F : R -> R) (L : R) (vs : list R) : list R :=
  match vs with
  | [] => []
  | v0 :: t => running 0 (first_piece F L v0 :: increments F v0 t)
  end.

(* what every value of one call is short of F by *)
Definition cdf_base (F : R -> R) (L : R) (vs : list R) : R :=
  match vs with
  | [] => 0
  | v0 :: _ => if Rlt_dec L v0 then F L else F v0
  end.

Definition nonneg (F : R -> R) : Prop := forall x, 0 <= F x.

(* ---- the type of the requested points ---- *)
Inductive query : Type :=
| QInt (k : Z)        (* Python int, element of a list of ints, int32 / int64 element *)
| QFlt32 (x : R)      (* float32 element: x is the (exactly representable) value *)
| QFlt64 (x : R).

Definition qval (q : query) : R :=
  match q with QInt k => IZR k | QFlt32 x => x | QFlt64 x => x end.

Inductive buffer : Type := BufFloat | BufLike.

(* C truncation towards zero, as numpy does when a float is stored into an integer array *)
Definition trunc0 (v : R) : R :=
  if Rle_dec 0 v then IZR (Int_part v) else - IZR (Int_part (- v)).

Definition store (b : buffer) (q : query) (v : R) : R :=
  match b, q with
  | BufLike, QInt _ => trunc0 v
  | _, _ => v
  end.

(* a method (pdf or cdf of either estimator) whose float64 behaviour is G, asked about
   typed points, with the given kind of output buffer *)
Definition typed_eval (b : buffer) (G : R -> R) (qs : list query) : list R :=
  map (fun q => store b q (G (qval q))) qs.
