(* Model of the table-based moment computations of the density estimators (property C19).

   Executable model over Q, no proofs.

   scipy.integrate.simpson(y, x=x)  (scipy 1.18, _quadrature.py)        simpson
     N odd : _basic_simpson over the triples (0,1,2), (2,3,4), ...       simp / triple
     N even: the same on the first N-1 points + the correction
             alpha*y[-1] + beta*y[-2] - eta*y[-3] for the last interval  last_corr
     N = 2 : trapezium
     (apply_where(den != 0, ..., fill_value=0): Coq's x / 0 = 0)

   kde.py:241-253 / unimodal.py:159-171   moments()
     mu  = simpson(p*x, x)                                               moments_pinned
     var = simpson(p*(x-mu)^2, x); skw = simpson(p*(x-mu)^3)/var^1.5;
     kur = simpson(p*(x-mu)^4)/var^2 - 3
     repaired (D19a): p is first divided by simpson(p, x), because the
     grid only spans a finite range and the mean  sum w p x  is
     shift-covariant only if  sum w p = 1                                moments
     The model returns (mu, var, m3, m4) with m3, m4 the third / fourth
     central integrals: skw = m3/var^1.5 (irrational), kur = m4/var^2-3.

   unimodal.py:96-102  sample_moments(samples)
     pinned (one pass): mu = mean(x); sig^2 = mean(x^2) - mu^2;
        skew*sig^3 = mean(x^3) - 3 mu sig^2 - mu^3                       sample_moments_pinned
     repaired (D19b, centred): sig^2 = mean((x-mu)^2),
        skew*sig^3 = mean((x-mu)^3)                                      sample_moments
     returned here as (mu, sig^2, skew*sig^3).

   base.py:67-72  __hdi_cost                                             hdi_cost_q
   base.py:28-66  interval(fraction): the result is judged from the
     values the real cost reads at the returned (c, w) and around it     check_interval
*)
From Coq Require Import List ZArith QArith Qabs Bool.
Import ListNotations.
Open Scope Q_scope.

Definition pt := (Q * Q)%type.     (* (x_i, y_i) *)

(* one parabolic segment of _basic_simpson *)
Definition triple (p0 p1 p2 : pt) : Q :=
  let h0 := fst p1 - fst p0 in
  let h1 := fst p2 - fst p1 in
  let hsum := h0 + h1 in
  let hprod := h0 * h1 in
  let h0divh1 := h0 / h1 in
  hsum / 6 * (snd p0 * (2 - 1 / h0divh1) + snd p1 * (hsum * (hsum / hprod)) + snd p2 * (2 - h0divh1)).

(* correction for the last interval when the number of points is even;
   p1 p2 p3 are the last three points *)
Definition last_corr (p1 p2 p3 : pt) : Q :=
  let h0 := fst p2 - fst p1 in
  let h1 := fst p3 - fst p2 in
  let alpha := (2 * (h1 * h1) + 3 * h0 * h1) / (6 * (h1 + h0)) in
  let beta := (h1 * h1 + 3 * h0 * h1) / (6 * h0) in
  let eta := (h1 * h1 * h1) / (6 * h0 * (h0 + h1)) in
  alpha * snd p3 + beta * snd p2 - eta * snd p1.

Definition corr_of (p1 p2 : pt) (rest : list pt) : Q :=
  match rest with
  | [p3] => last_corr p1 p2 p3
  | _ => 0
  end.

(* Qred keeps the exact rationals in lowest terms (Qred q == q): without it the
   un-reduced denominators multiply at every addition and the model cannot be run *)
Fixpoint simp (l : list pt) : Q :=
  match l with
  | p0 :: p1 :: ((p2 :: rest) as t2) => Qred (Qred (triple p0 p1 p2) + Qred (corr_of p1 p2 rest) + simp t2)
  | _ => 0
  end.

Definition simpson (l : list pt) : Q :=
  match l with
  | [p0; p1] => (1 # 2) * (fst p1 - fst p0) * (snd p1 + snd p0)
  | _ => simp l
  end.

(* integral of g(x, p) over the table *)
Definition integ (g : Q -> Q -> Q) (l : list pt) : Q :=
  simpson (map (fun xp => (fst xp, g (fst xp) (snd xp))) l).

Fixpoint pw (d : Q) (k : nat) : Q := match k with O => 1 | S k' => d * pw d k' end.
Definition central (mu : Q) (k : nat) (x p : Q) : Q := p * pw (x - mu) k.

(* moments() as written in the pinned tree *)
Definition moments_pinned (l : list pt) : Q * Q * Q * Q :=
  let mu := Qred (integ (fun x p => p * x) l) in
  (mu, integ (central mu 2) l, integ (central mu 3) l, integ (central mu 4) l).

(* repaired: the tabulated density is renormalised on its own grid first *)
Definition normalise (l : list pt) : list pt :=
  let Z := integ (fun _ p => p) l in map (fun xp => (fst xp, Qred (snd xp / Z))) l.

Definition moments (l : list pt) : Q * Q * Q * Q := moments_pinned (normalise l).

Definition kurtosis (m : Q * Q * Q * Q) : Q :=
  let '(_, var, _, m4) := m in m4 / (var * var) - 3.

(* the table of the estimator fitted to data transformed by x -> a x + b *)
Definition transform (a b : Q) (l : list pt) : list pt :=
  map (fun xp => (a * fst xp + b, snd xp / a)) l.

(* ---- sample moments ---- *)
Definition qsum (l : list Q) : Q := fold_right Qplus 0 l.
Definition qlen (l : list Q) : Q := inject_Z (Z.of_nat (length l)).
Definition qmean (l : list Q) : Q := qsum l / qlen l.

Definition sample_moments_pinned (l : list Q) : Q * Q * Q :=
  let mu := qmean l in
  let x2 := map (fun x => x * x) l in
  let x3 := map (fun x => x * x * x) l in
  let sig2 := qmean x2 - mu * mu in
  (mu, sig2, qmean x3 - 3 * mu * sig2 - mu * mu * mu).

Definition sample_moments (l : list Q) : Q * Q * Q :=
  let mu := qmean l in
  (mu, qmean (map (fun x => (x - mu) * (x - mu)) l),
       qmean (map (fun x => (x - mu) * (x - mu) * (x - mu)) l)).

(* ---- interval cost, base.py:67-72 ---- *)
Definition hdi_cost_q (w Pa Pb Fa Fb f : Q) : Q :=
  (w * (Pa - Pb)) * (w * (Pa - Pb)) + (Fb - Fa - f) * (Fb - Fa - f).

(* ---- correspondence interface ---- *)
Definition within (obs exact tol : Q) : bool := Qle_bool (Qabs (obs - exact)) tol.

(* observed (mu, var, skw, kur) of moments() against the exact table moments:
   |mu - mu*| <= rtol * sd-scale, var relative, kurtosis absolute, and
   skw * var^1.5 = m3 checked as  (skw^2 var^3 ~ m3^2  and same sign).
   scale = a length scale of the table (its span), rtol e.g. 1e-9. *)
Definition sgn (q : Q) : Z := Z.sgn (Qnum q).

Definition check_moments (l : list pt) (obs : Q * Q * Q * Q) (scale rtol : Q) : nat :=
  let '(mu, var, m3, m4) := moments l in
  let '(omu, ovar, oskw, okur) := obs in
  let b (k : nat) (ok : bool) := if ok then 0%nat else Nat.pow 2 k in
  (b 0 (within omu mu (rtol * scale)) +
   b 1 (within ovar var (rtol * var)) +
   b 2 (within (oskw * oskw * (var * var * var)) (m3 * m3) (rtol * 1000 * (Qabs (m3 * m3) + rtol * var * var * var))
        && (Z.eqb (sgn oskw) (sgn m3) || within (oskw * oskw) 0 (rtol * 1000))) +
   b 3 (within okur (m4 / (var * var) - 3) (rtol * 1000)))%nat.

Definition check_moments_pinned (l : list pt) (obs : Q * Q * Q * Q) (scale rtol : Q) : nat :=
  let '(mu, var, m3, m4) := moments_pinned l in
  let '(omu, ovar, oskw, okur) := obs in
  let b (k : nat) (ok : bool) := if ok then 0%nat else Nat.pow 2 k in
  (b 0 (within omu mu (rtol * scale)) +
   b 1 (within ovar var (rtol * var)))%nat.

(* observed (mu, sig, skew) of sample_moments against the exact centred moments *)
Definition check_sample_moments (l : list Q) (obs : Q * Q * Q) (rtol : Q) : nat :=
  let '(mu, sig2, m3) := sample_moments l in
  let '(omu, osig, oskew) := obs in
  let b (k : nat) (ok : bool) := if ok then 0%nat else Nat.pow 2 k in
  let sig3 := osig * osig * osig in
  (b 0 (within (omu * omu - 2 * omu * mu + mu * mu) 0 (rtol * rtol * sig2)) +   (* |mu - mu*| <= rtol sd *)
   b 1 (within (osig * osig) sig2 (rtol * sig2)) +
   b 2 (within (oskew * sig3) m3 (rtol * 1000 * sig3 + rtol * Qabs m3)))%nat.

(* ---- judgement of an interval returned by base.py:28-66 interval(fraction) ----
   Observed on the real estimator at the returned (c, w):
     wt = 0.2 / pdf(mode); Pa Pb Fa Fb = the end densities / cumulative values the real
     __hdi_cost read there; cost = the value it returned; probes = the real cost at
     neighbouring (c', w') (wider / narrower / shifted intervals).
   bit 0: the enclosed probability differs from f by more than tol_loose;
   bit 1: it differs by more than tol_tight AND some neighbouring interval has less than
          half the cost, i.e. the search stopped (or was confined) short of a better
          interval that lies next to the returned one;
   bit 2: weighted end-density mismatch above tol_ends;
   bit 3: the returned cost is not the model's cost of the observed end values. *)
Definition qlt_bool (a b : Q) : bool := negb (Qle_bool b a).

Definition better_probe (exact : Q) (probes : list Q) : bool :=
  existsb (fun q => qlt_bool (2 * q) exact) probes.

Definition bit (k : nat) (ok : bool) : nat := if ok then 0%nat else Nat.pow 2 k.

Definition check_interval (wt Pa Pb Fa Fb f cost : Q) (probes : list Q)
                          (tol_tight tol_loose tol_ends rtol atol : Q) : nat :=
  let m := Fb - Fa in
  let exact := hdi_cost_q wt Pa Pb Fa Fb f in
  (bit 0 (within m f tol_loose) +
   bit 1 (within m f tol_tight || negb (better_probe exact probes)) +
   bit 2 (within (wt * (Pa - Pb)) 0 tol_ends) +
   bit 3 (within cost exact (rtol * exact + atol)))%nat.

Fixpoint failing_codes {A} (chk : A -> nat) (l : list A) (i : nat) : list nat :=
  match l with
  | [] => []
  | c :: t => let k := chk c in
              if Nat.eqb k 0 then failing_codes chk t (S i) else i :: k :: failing_codes chk t (S i)
  end.
