(* Executable model over Q of
     AcquisitionFunction.starting_positions   (inference/gp/acquisition.py:13-37)
     GpOptimiser.__init__ / add_evaluation    (inference/gp/optimisation.py:99-103,136-190)
   No proofs here (see Proofs/OptimiserProofs.v).

   code                                             definition
   -----------------------------------------------------------------------
   acquisition.py:14-18  lwr += widths*0.01 ...     shrunk c1      (c1 = 0.01)
   acquisition.py:23     inside test                inside
   acquisition.py:27     x0 + 0.02*widths*(2u-1)    cand           (c2 = 0.02)
   acquisition.py:29     minimum(upr, maximum(..))  clip
   acquisition.py:30-31  sorted(.., key)[0]         first_min
   acquisition.py:34     lwr + (upr-lwr)*u          unif
   acquisition.py:21-37  loop over gp.x             starts
   optimisation.py:160-165  append x, y, y_err      add_evaluation
   optimisation.py:187 / acquisition.py:41  y.max() list_max
   optimisation.py:99-101,145-147  resize           init_x(_pinned), new_x(_pinned)

   The random numbers (numpy.random.random(size=L)) are a script: a list of
   vectors of uniforms.  opt_func (the sort key) is a parameter. *)
From Coq Require Import List QArith Qminmax Qabs Bool.
Import ListNotations.
Open Scope Q_scope.

Definition bnd := (Q * Q)%type.

(* ---------------- starting_positions ---------------- *)
Definition shrunk (c1 : Q) (b : bnd) : bnd :=
  let w := snd b - fst b in (fst b + w * c1, snd b - w * c1).

Definition clip (b : bnd) (s : Q) : Q := Qmin (snd b) (Qmax (fst b) s).

Fixpoint inside (c1 : Q) (bs : list bnd) (x0 : list Q) : bool :=
  match bs, x0 with
  | b :: bs', x :: x0' =>
      Qle_bool (fst (shrunk c1 b)) x && Qle_bool x (snd (shrunk c1 b)) && inside c1 bs' x0'
  | _, _ => true
  end.

(* one clipped local sample around x0 *)
Fixpoint cand (c1 c2 : Q) (bs : list bnd) (x0 u : list Q) : list Q :=
  match bs, x0, u with
  | b :: bs', x :: x0', ui :: u' =>
      clip (shrunk c1 b) (x + c2 * (snd b - fst b) * (2 * ui - 1)) :: cand c1 c2 bs' x0' u'
  | _, _, _ => []
  end.

(* pinned-tree mutation target: the same sample without the clipping line *)
Fixpoint cand_unclipped (c2 : Q) (bs : list bnd) (x0 u : list Q) : list Q :=
  match bs, x0, u with
  | b :: bs', x :: x0', ui :: u' =>
      (x + c2 * (snd b - fst b) * (2 * ui - 1)) :: cand_unclipped c2 bs' x0' u'
  | _, _, _ => []
  end.

(* a uniform draw from the shrunk box *)
Fixpoint unif (c1 : Q) (bs : list bnd) (u : list Q) : list Q :=
  match bs, u with
  | b :: bs', ui :: u' =>
      let sb := shrunk c1 b in (fst sb + (snd sb - fst sb) * ui) :: unif c1 bs' u'
  | _, _ => []
  end.

(* sorted(samples, key=f)[0] : the first element with the least key *)
Fixpoint first_min {A} (key : A -> Q) (best : A) (l : list A) : A :=
  match l with
  | [] => best
  | a :: l' => if Qlt_le_dec (key a) (key best) then first_min key a l' else first_min key best l'
  end.

Definition n_local : nat := 20.

Fixpoint starts (c1 c2 : Q) (bs : list bnd) (key : list Q -> Q)
         (xs : list (list Q)) (script : list (list Q)) : list (list Q) :=
  match xs with
  | [] => []
  | x0 :: xs' =>
      if inside c1 bs x0 then
        match map (cand c1 c2 bs x0) (firstn n_local script) with
        | [] => []
        | s :: ss => first_min key s ss :: starts c1 c2 bs key xs' (skipn n_local script)
        end
      else
        match script with
        | [] => []
        | u :: rest => unif c1 bs u :: starts c1 c2 bs key xs' rest
        end
  end.

(* what a point being in the (original) box means *)
Fixpoint in_box (bs : list bnd) (s : list Q) : Prop :=
  match bs, s with
  | b :: bs', x :: s' => (fst b <= x /\ x <= snd b) /\ in_box bs' s'
  | [], [] => True
  | _, _ => False
  end.

Fixpoint in_box_b (bs : list bnd) (s : list Q) : bool :=
  match bs, s with
  | b :: bs', x :: s' => Qle_bool (fst b) x && Qle_bool x (snd b) && in_box_b bs' s'
  | [], [] => true
  | _, _ => false
  end.

(* ---------------- data set of the optimiser ---------------- *)
Record opt_state := mk_state {
  st_x : list (list Q);        (* self.x  : rows *)
  st_y : list Q;               (* self.y *)
  st_yerr : option (list Q);   (* self.y_err (None when not given) *)
  st_ymax : Q                  (* acquisition.mu_max = gp.y.max() *)
}.

Definition list_max (l : list Q) : Q :=
  match l with [] => 0 | a :: l' => fold_left Qmax l' a end.

Definition init_state (x : list (list Q)) (y : list Q) (yerr : option (list Q)) : opt_state :=
  mk_state x y yerr (list_max y).

(* None = the ValueError of optimisation.py:167 *)
Definition add_evaluation (st : opt_state) (nx : list Q) (ny : Q) (nerr : option Q)
  : option opt_state :=
  let x' := st_x st ++ [nx] in
  let y' := st_y st ++ [ny] in
  match st_yerr st, nerr with
  | None, _ => Some (mk_state x' y' None (list_max y'))
  | Some e, Some ne => Some (mk_state x' y' (Some (e ++ [ne])) (list_max y'))
  | Some _, None => None
  end.

Fixpoint add_all (st : opt_state) (news : list (list Q * Q * option Q)) : option opt_state :=
  match news with
  | [] => Some st
  | (nx, ny, ne) :: rest =>
      match add_evaluation st nx ny ne with
      | Some st' => add_all st' rest
      | None => None
      end
  end.

(* ---------------- the caller's arrays (D16) ---------------- *)
(* an ndarray as the caller sees it: its shape, its values, and whether it owns
   its buffer (ndarray.resize refuses to change the SIZE of a view; a resize to
   the same size just re-labels the shape of the object, view or not) *)
Record ndarray := mk_arr { shape : list nat; data : list Q; owndata : bool }.

Definition size (a : ndarray) : nat := length (data a).

(* __init__: returns (self.x, the caller's array afterwards);
   None = exception.  Pinned: self.x.resize([size,1]) acts on the caller's object. *)
Definition init_x_pinned (x : ndarray) : option (ndarray * ndarray) :=
  match shape x with
  | [_] => let x' := mk_arr [size x; 1%nat] (data x) (owndata x) in Some (x', x')
  | _ => Some (x, x)
  end.

(* repaired: reshape returns a new array object (a view) *)
Definition init_x (x : ndarray) : option (ndarray * ndarray) :=
  match shape x with
  | [_] => Some (mk_arr [size x; 1%nat] (data x) false, x)
  | _ => Some (x, x)
  end.

Definition shape_eqb (s1 s2 : list nat) : bool :=
  if list_eq_dec Nat.eq_dec s1 s2 then true else false.

(* add_evaluation's treatment of new_x for a d-dimensional problem *)
Definition new_x_pinned (d : nat) (nx : ndarray) : option (ndarray * ndarray) :=
  if shape_eqb (shape nx) [1%nat; d] then Some (nx, nx)
  else if Nat.eqb (size nx) d || owndata nx
       then let nx' := mk_arr [1%nat; d] (firstn d (data nx) ++ repeat 0 (d - size nx))
                              (owndata nx) in
            Some (nx', nx')
       else None.

Definition new_x (d : nat) (nx : ndarray) : option (ndarray * ndarray) :=
  if shape_eqb (shape nx) [1%nat; d] then Some (nx, nx)
  else if Nat.eqb (size nx) d then Some (mk_arr [1%nat; d] (data nx) false, nx)
       else None.   (* reshape raises on a size mismatch *)

(* ---------------- checkers used by the generated case files ---------------- *)
Definition Qclose (tol a b : Q) : bool := Qle_bool (Qabs (a - b)) tol.

Fixpoint vec_close (tol : Q) (a b : list Q) : bool :=
  match a, b with
  | [], [] => true
  | x :: a', y :: b' => Qclose tol x y && vec_close tol a' b'
  | _, _ => false
  end.

Fixpoint Qlist_eqb (a b : list Q) : bool :=
  match a, b with
  | [], [] => true
  | x :: a', y :: b' => Qeq_bool x y && Qlist_eqb a' b'
  | _, _ => false
  end.

Fixpoint Qrows_eqb (a b : list (list Q)) : bool :=
  match a, b with
  | [], [] => true
  | x :: a', y :: b' => Qlist_eqb x y && Qrows_eqb a' b'
  | _, _ => false
  end.

Definition opt_Qlist_eqb (a b : option (list Q)) : bool :=
  match a, b with
  | None, None => true
  | Some x, Some y => Qlist_eqb x y
  | _, _ => false
  end.

Definition state_eqb (a b : opt_state) : bool :=
  Qrows_eqb (st_x a) (st_x b) && Qlist_eqb (st_y a) (st_y b)
  && opt_Qlist_eqb (st_yerr a) (st_yerr b) && Qeq_bool (st_ymax a) (st_ymax b).

(* a case of the add_evaluation correspondence:
   initial data, the evaluations added, the observed final state (None = ValueError) *)
Definition add_case := (list (list Q) * list Q * option (list Q) *
                        list (list Q * Q * option Q) * option opt_state)%type.

Definition check_add_case (c : add_case) : bool :=
  let '(x, y, e, news, obs) := c in
  match add_all (init_state x y e) news, obs with
  | Some m, Some o => state_eqb m o
  | None, None => true
  | _, _ => false
  end.

(* a case of the starting_positions correspondence: c1, c2 (the doubles 0.01 and 0.02
   as exact rationals), tol, bounds, gp.x rows, script, observed starts.
   Every observed start must (a) lie in the box and (b) be, within tol, one of the
   model's candidates for its row (local branch) or the model's uniform draw. *)
Definition starts_case := (Q * Q * Q * list bnd * list (list Q) * list (list Q) * list (list Q))%type.

Fixpoint check_starts_rows (c1 c2 tol : Q) (bs : list bnd) (xs script obs : list (list Q)) : bool :=
  match xs, obs with
  | [], [] => true
  | x0 :: xs', o :: obs' =>
      if inside c1 bs x0 then
        in_box_b bs o
        && existsb (vec_close tol o) (map (cand c1 c2 bs x0) (firstn n_local script))
        && check_starts_rows c1 c2 tol bs xs' (skipn n_local script) obs'
      else
        match script with
        | [] => false
        | u :: rest => in_box_b bs o && vec_close tol o (unif c1 bs u)
                       && check_starts_rows c1 c2 tol bs xs' rest obs'
        end
  | _, _ => false
  end.

Definition check_starts_case (c : starts_case) : bool :=
  let '(c1, c2, tol, bs, xs, script, obs) := c in check_starts_rows c1 c2 tol bs xs script obs.

Fixpoint failing_from {A} (chk : A -> bool) (l : list A) (i : nat) : list nat :=
  match l with
  | [] => []
  | c :: l' => if chk c then failing_from chk l' (S i) else i :: failing_from chk l' (S i)
  end.
Definition failing {A} (chk : A -> bool) (l : list A) (i : nat) : list nat := failing_from chk l i.
