(* Model of the discrete structure of inference/pdf/kde.py : GaussianKDE  (property C12).

   Executable model over Q / nat, no proofs.  Every double is a rational, so
   quantification over Q covers every representable input.

   kde.py                                                  model
   ------                                                  -----
   :49  self.sample = sort(array(sample).flatten())        QSort.sort
   :71  self.cutoff = self.h * 4                           cutoff h
   :77  n = int(log((s[-1]-s[0])/h)/log(2)) + 1            argument n (float computation; the
          (repaired: max(.., 0), defect D18)                harness reads tree.n back and the
                                                            model checks  range <= 2^n h, the
                                                            only fact the theorems need;
                                                            layers_exact is the exact value)
   :80  mids = linspace(s[0], s[-1], 2**n + 1)             edges n s   (linspace_at)
   :81  mids = 0.5 * (mids[1:] + mids[:-1])                mid n s r
   :84  lwr_inds = searchsorted(sample, mids - cutoff)     lwr n s h r  (searchsorted-left =
   :85  upr_inds = searchsorted(sample, mids + cutoff)     upr n s h r   count of elements < v)
   :86  slices = [slice(l, u) ...]                         region_slice n s h r
   :87  cdf_offsets = lwr_inds / sample.size               cdf_offset n s h r
   :91  BinaryTree(n, (s[0], s[-1]))
   :296   edges = linspace(lo, hi, 2**n + 1)               edges n s
   :297   regions = arange(-1, edges.size); [0]=0;
          [-1] = edges.size - 2                            regions_table n
   :306   regions[searchsorted(edges, values)]             region_of n s x
   :310 unique_index_groups(values)                        unique_index_groups
          (np.unique: sorted distinct values; groups =
           positions of each value.  inverse_inds.argsort()
           is not a stable sort, so the order inside a
           group is unspecified: the model lists positions
           in increasing order and the harness sorts each
           observed group before comparing)
   :104-113 / :123-133  zeros; for r, g: out[g] = f_r(x[g])  eval_groups
*)
From Coq Require Import List ZArith QArith Qround Qabs Bool Orders Sorting.Mergesort.
Import ListNotations.
Open Scope Q_scope.

Module QOrder <: TotalLeBool.
  Definition t := Q.
  Definition leb := Qle_bool.
  Theorem leb_total : forall a1 a2, is_true (leb a1 a2) \/ is_true (leb a2 a1).
  Proof.
    intros a b. unfold leb, is_true.
    destruct (Qlt_le_dec b a) as [H|H].
    - right. apply Qle_bool_iff. apply Qlt_le_weak. exact H.
    - left. apply Qle_bool_iff. exact H.
  Qed.
End QOrder.

Module QSort := Sort QOrder.

Definition Qlt_b (a b : Q) : bool := negb (Qle_bool b a).

Definition qnat (k : nat) : Q := inject_Z (Z.of_nat k).
Definition nregions (n : nat) : nat := Nat.pow 2 n.
(* 2^n as a rational (computed in Z: nregions is a unary nat) *)
Definition pow2 (n : nat) : Q := inject_Z (2 ^ Z.of_nat n).

Definition s_first (s : list Q) : Q := hd 0 s.
Definition s_last (s : list Q) : Q := last s 0.
Definition srange (s : list Q) : Q := s_last s - s_first s.

Definition cutoff (h : Q) : Q := 4 * h.

(* width of one region and the k-th point of linspace(s[0], s[-1], 2^n + 1) *)
Definition rwidth (n : nat) (s : list Q) : Q := srange s / pow2 n.
Definition edge (n : nat) (s : list Q) (k : nat) : Q := s_first s + qnat k * rwidth n s.
Definition edges (n : nat) (s : list Q) : list Q := map (edge n s) (seq 0 (S (nregions n))).
Definition mid (n : nat) (s : list Q) (r : nat) : Q := (1 # 2) * (edge n s (S r) + edge n s r).

(* numpy.searchsorted(a, v) (side='left') on a sorted array: number of elements < v *)
Definition count_lt (v : Q) (l : list Q) : nat := length (filter (fun y => Qlt_b y v) l).

Definition lwr (n : nat) (s : list Q) (h : Q) (r : nat) : nat := count_lt (mid n s r - cutoff h) s.
Definition upr (n : nat) (s : list Q) (h : Q) (r : nat) : nat := count_lt (mid n s r + cutoff h) s.

(* a[l:u] *)
Definition slice {A} (l u : nat) (a : list A) : list A := firstn (u - l) (skipn l a).

Definition region_slice (n : nat) (s : list Q) (h : Q) (r : nat) : list Q :=
  slice (lwr n s h r) (upr n s h r) s.

Definition cdf_offset (n : nat) (s : list Q) (h : Q) (r : nat) : Q :=
  qnat (lwr n s h r) / qnat (length s).

(* pinned-tree mutant of Appendix C: offsets from the upper indices *)
Definition cdf_offset_upr (n : nat) (s : list Q) (h : Q) (r : nat) : Q :=
  qnat (upr n s h r) / qnat (length s).

(* arange(-1, E) with [0] := 0 and [-1] := E - 2, where E = 2^n + 1 *)
Definition regions_table (n : nat) : list nat :=
  0%nat :: seq 0 (nregions n) ++ [(nregions n - 1)%nat].

Definition region_of (n : nat) (s : list Q) (x : Q) : nat :=
  nth (count_lt x (edges n s)) (regions_table n) 0%nat.

(* ---- unique_index_groups ------------------------------------------- *)
Definition positions (v : nat) (vals : list nat) : list nat :=
  filter (fun i => Nat.eqb (nth i vals 0%nat) v) (seq 0 (length vals)).

Definition uniques (vals : list nat) : list nat :=
  filter (fun v => existsb (Nat.eqb v) vals) (seq 0 (S (list_max vals))).

Definition unique_index_groups (vals : list nat) : list (nat * list nat) :=
  map (fun v => (v, positions v vals)) (uniques vals).

Definition region_groups (n : nat) (s : list Q) (xs : list Q) : list (nat * list nat) :=
  unique_index_groups (map (region_of n s) xs).

(* ---- array evaluation: out = zeros; for r, g in groups: out[g] = F r x[g] ---- *)
Fixpoint upd {A} (l : list A) (i : nat) (v : A) : list A :=
  match l, i with
  | [], _ => []
  | _ :: t, O => v :: t
  | a :: t, S j => a :: upd t j v
  end.

Definition assign_group {A} (F : nat -> Q -> A) (xs : list Q) (out : list A)
           (rg : nat * list nat) : list A :=
  fold_left (fun o i => upd o i (F (fst rg) (nth i xs 0))) (snd rg) out.

Definition eval_groups {A} (zero : A) (F : nat -> Q -> A) (groups : list (nat * list nat))
           (xs : list Q) : list A :=
  fold_left (assign_group F xs) groups (repeat zero (length xs)).

(* the array call of __call__ / cdf with per-region evaluation F *)
Definition eval_array {A} (zero : A) (F : nat -> Q -> A) (n : nat) (s xs : list Q) : list A :=
  eval_groups zero F (region_groups n s xs) xs.

(* ---- number of layers ---------------------------------------------- *)
(* hypothesis of the coverage theorem: range <= 2^n * h  (region width <= h) *)
Definition covers_cond (n : nat) (s : list Q) (h : Q) : bool :=
  Qle_bool (srange s) (pow2 n * h).

(* exact value of  int(log2(range/h)) + 1  (int() truncates towards zero); the
   repaired code clips it at 0 (D18).  Used only for reporting. *)
Definition layers_exact (s : list Q) (h : Q) : Z :=
  let q := srange s / h in
  if Qle_bool 1 q then Z.log2 (Qfloor q) + 1
  else
    let p := h / srange s in            (* > 1 *)
    let k := Z.log2 (Qfloor p) in
    (* log2 q in (-k-1, -k]  ->  int() = -k, except when p = 2^k' exactly (then -k) *)
    1 - k.
Definition layers_repaired (s : list Q) (h : Q) : Z := Z.max 0 (layers_exact s h).

(* ---- correspondence interface -------------------------------------- *)
Definition Qeqb_list (a b : list Q) : bool :=
  Nat.eqb (length a) (length b) && forallb (fun p => Qeq_bool (fst p) (snd p)) (combine a b).

Definition nat_eqb_list (a b : list nat) : bool :=
  Nat.eqb (length a) (length b) && forallb (fun p => Nat.eqb (fst p) (snd p)) (combine a b).

(* a/b correctly rounded to double differs from a/b by at most 2^-53 relative *)
Definition close53 (obs exact : Q) : bool :=
  Qle_bool (Qabs (obs - exact) * inject_Z (2 ^ 52)) (Qabs exact).

Record kde_case := {
  c_sample : list Q;           (* as given (unsorted) *)
  c_h : Q;
  c_n : nat;                   (* tree.n read back *)
  c_points : list Q;
  o_sorted : list Q;           (* kde.sample *)
  o_edges : list Q;            (* kde.tree.edges *)
  o_slices : list (nat * nat); (* kde.slices *)
  o_offsets : list Q;          (* kde.cdf_offsets *)
  o_regions : list nat;        (* tree.regions[searchsorted(edges, points)] *)
  o_groups : list (nat * list nat) (* tree.region_groups(points), each group sorted *)
}.

Definition groups_eqb (a b : list (nat * list nat)) : bool :=
  Nat.eqb (length a) (length b) &&
  forallb (fun p => Nat.eqb (fst (fst p)) (fst (snd p)) && nat_eqb_list (snd (fst p)) (snd (snd p)))
          (combine a b).

(* bit k of the result = 1 when component k disagrees; 0 = full agreement *)
Definition check_structure (c : kde_case) : nat :=
  let s := QSort.sort (c_sample c) in
  let n := c_n c in
  let h := c_h c in
  let R := seq 0 (nregions n) in
  let b (k : nat) (ok : bool) := if ok then 0%nat else Nat.pow 2 k in
  (b 0 (Qeqb_list s (o_sorted c)) +
   b 1 (Qeqb_list (edges n s) (o_edges c)) +
   b 2 (nat_eqb_list (map (lwr n s h) R) (map fst (o_slices c)) &&
        nat_eqb_list (map (upr n s h) R) (map snd (o_slices c))) +
   b 3 (Nat.eqb (length (o_offsets c)) (nregions n) &&
        forallb (fun p => close53 (fst p) (snd p))
                (combine (o_offsets c) (map (cdf_offset n s h) R))) +
   b 4 (nat_eqb_list (map (region_of n s) (c_points c)) (o_regions c)) +
   b 5 (groups_eqb (region_groups n s (c_points c)) (o_groups c)) +
   b 6 (covers_cond n s h))%nat.

Definition check_case (c : kde_case) : bool := Nat.eqb (check_structure c) 0.

Fixpoint failing {A} (f : A -> bool) (l : list A) (i : nat) : list nat :=
  match l with
  | [] => []
  | x :: t => if f x then failing f t (S i) else i :: failing f t (S i)
  end.

(* codes of the failing cases, for diagnosis: flat list  index; code; index; code ... *)
Fixpoint failing_codes (l : list kde_case) (i : nat) : list nat :=
  match l with
  | [] => []
  | c :: t => let k := check_structure c in
              if Nat.eqb k 0 then failing_codes t (S i) else i :: k :: failing_codes t (S i)
  end.
