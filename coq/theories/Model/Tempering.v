(* Executable model of inference/mcmc/parallel.py  (property C08).  No proofs here.

   code (parallel.py)                          model
   ------------------------------------------  -----------------------------------
   tight_pairs, l.168  candidate list          candidate_pairs
                l.171-174  while/choice/filter tight_loop   (choice = scripted index,
                                                             taken modulo len(pairs))
                l.176-187  leftovers            leftovers, shuffle, pair_up, order_pair
   uniform_pairs l.158-160                      uniform_pairs
   rng.shuffle (scripted, harness/lib/c08lib)   shuffle     (insertion shuffle driven
                                                             by a list of draws)
   swap l.211-216  dt, pi, pj, dp, exp(-dt*dp)  swap_exponent, swap_decide
        l.217-231  Di / Dj, send, counters      swap_pair_msgs, coordinator `swap_pairs`
   tempering_process l.47-66 (four tasks)       handle
   take_steps l.145-152                         co_take_steps
   swap l.195-201                               co_swap
   advance l.242-274                            advance_plan, co_advance
   return_chains l.371-376                      co_return_chains
   processes + pipes  l.126-136                 sys, step  (coordinator = resumption
                                                tree; each worker: FIFO inbox, FIFO
                                                outbox, chain)
   tempering_process l.35-45 (loop / shutdown)  wpc, wstep  (program points of the loop)

   Numbers are exact rationals (Q).  `decide_accept` (Common/ExpBounds) answers
   u < e^d from rational bounds on exp; outside its tiny undecided gap this is the
   code's  rng.random() <= exp(-dt*dp).
*)
From Coq Require Import List Arith ZArith QArith Bool Lia.
From IT Require Import Common.ExpBounds.
Import ListNotations.
Open Scope nat_scope.

(* ====================================================================== *)
(* (a) pairing                                                            *)
(* ====================================================================== *)
Definition pair := (nat * nat)%type.

(* `j in k` for a 2-tuple k *)
Definition mem_pair (j : nat) (k : pair) : bool := (j =? fst k) || (j =? snd k).
(* `any(j in k for j in p)` *)
Definition conflicts (p k : pair) : bool := mem_pair (fst p) k || mem_pair (snd p) k.

(* [(i, i + j) for i in range(N - 1) for j in [1, 2]][:-1] *)
Definition candidate_pairs (N : nat) : list pair :=
  removelast (flat_map (fun i => [(i, i + 1); (i, i + 2)]) (seq 0 (N - 1))).

(* while len(pairs) > 0: p = choice(pairs); pairs = [k for k in pairs if not any(j in k for j in p)];
   sample.append(p).   Returns (sample, pairs left, script left). *)
Fixpoint tight_loop (fuel : nat) (pairs : list pair) (script : list nat) (sample : list pair)
  : list pair * list pair * list nat :=
  match fuel with
  | O => (sample, pairs, script)
  | S f =>
    match pairs with
    | [] => (sample, pairs, script)
    | _ :: _ =>
      let p := nth (hd 0 script mod length pairs) pairs (0, 0) in
      tight_loop f (filter (fun k => negb (conflicts p k)) pairs) (tl script) (sample ++ [p])
    end
  end.

(* [i for i in range(N) if not any(i in p for p in sample)] *)
Definition in_sample (i : nat) (sample : list pair) : bool := existsb (mem_pair i) sample.
Definition leftovers (N : nat) (sample : list pair) : list nat :=
  filter (fun i => negb (in_sample i sample)) (seq 0 N).

(* scripted rng.shuffle: element i of the input is inserted at position
   draw_i mod (len(result)+1) into the shuffle of the elements after it *)
Fixpoint insert_at {A : Type} (k : nat) (x : A) (l : list A) : list A :=
  match k, l with
  | O, _ => x :: l
  | S k', y :: t => y :: insert_at k' x t
  | S _, [] => [x]
  end.
Fixpoint shuffle (draws : list nat) (l : list nat) : list nat :=
  match l with
  | [] => []
  | x :: t => let r := shuffle (tl draws) t in insert_at (hd 0 draws mod S (length r)) x r
  end.

(* zip(l[::2], l[1::2]) *)
Fixpoint pair_up (l : list nat) : list pair :=
  match l with
  | a :: b :: t => (a, b) :: pair_up t
  | _ => []
  end.

(* p if p[0] < p[1] else (p[1], p[0]) *)
Definition order_pair (p : pair) : pair := if fst p <? snd p then p else (snd p, fst p).

(* returns (pairs, choice script left, shuffle draws left) *)
Definition tight_pairs (N : nat) (choices draws : list nat) : list pair * list nat * list nat :=
  let cand := candidate_pairs N in
  let '(sample, _, choices') := tight_loop (length cand) cand choices [] in
  if length sample =? N / 2 then (sample, choices', draws)
  else
    let lo := leftovers N sample in
    (sample ++ map order_pair (pair_up (shuffle draws lo)), choices', skipn (length lo) draws).

Definition uniform_pairs (N : nat) (draws : list nat) : list pair * list nat :=
  (pair_up (shuffle draws (seq 0 N)), skipn N draws).

Definition flatten (ps : list pair) : list nat := flat_map (fun p => [fst p; snd p]) ps.


(* ====================================================================== *)
(* (b) exchange rule and hand-over                                        *)
(* ====================================================================== *)
Open Scope Q_scope.

Definition point := list Q.

(* dt = inv_temps[i] - inv_temps[j]; pi = probabilities[i] / inv_temps[i]; pj = ...;
   dp = pi - pj;  exp(-dt * dp)  *)
Definition swap_exponent (bi bj pri prj : Q) : Q :=
  let dt := bi - bj in
  let pi := pri / bi in
  let pj := prj / bj in
  let dp := pi - pj in
  (- dt) * dp.

(* rng.random() <= exp(-dt*dp) *)
Definition swap_decide (u bi bj pri prj : Q) : option bool :=
  decide_accept u (swap_exponent bi bj pri prj).

(* --- chains ----------------------------------------------------------- *)
(* A chain as far as the exchange is concerned: inverse temperature and the
   stored history (newest first) of (point, stored log-probability).  c_tape /
   c_quad / c_replay only feed the concrete step function used in executions. *)
Record chain := mkChain {
  c_beta : Q;
  c_hist : list (point * Q);
  c_tape : list (point * Q);
  c_quad : list (Q * Q);
  c_replay : bool
}.

Definition get_last (c : chain) : point := fst (hd ([], 0) (c_hist c)).     (* chain.get_last() *)
Definition last_prob (c : chain) : Q := snd (hd ([], 0) (c_hist c)).        (* chain.probs[-1] *)

Definition set_hist (c : chain) (h : list (point * Q)) : chain :=
  mkChain (c_beta c) h (c_tape c) (c_quad c) (c_replay c).

(* chain.replace_last(position); chain.probs[-1] = probability * chain.inv_temp *)
Definition update_position (x : point) (p : Q) (c : chain) : chain :=
  match c_hist c with
  | [] => c
  | _ :: older => set_hist c ((x, p * c_beta c) :: older)
  end.

Inductive msg :=
| Advance (n : nat)                      (* {"task": "advance", "advance_count": n} *)
| SendPosition                           (* {"task": "send_position"} *)
| UpdatePosition (x : point) (p : Q)     (* {"task": "update_position", position, probability} *)
| SendChain.                             (* {"task": "send_chain"} *)

Inductive reply :=
| AdvanceComplete
| Position (x : point) (p : Q)
| ChainObj (c : chain).

(* one pass through the task dispatch of tempering_process *)
Definition handle (take_step : chain -> chain) (m : msg) (c : chain) : chain * list reply :=
  match m with
  | Advance n => (Nat.iter n take_step c, [AdvanceComplete])
  | SendPosition => (c, [Position (get_last c) (last_prob c)])
  | UpdatePosition x p => (update_position x p c, [])
  | SendChain => (c, [ChainObj c])
  end.

(* pinned tree (defect D9): a chain built with display_progress=False cannot be
   pickled (ChainProgressPrinter.__no_status is name-mangled); the worker raises
   inside connection.send(chain), nothing is sent.  `picklable` says which chains
   survive pickling; the repaired code is `handle` (every chain does). *)
Definition handle_pinned (picklable : chain -> bool) (take_step : chain -> chain) (m : msg) (c : chain)
  : chain * list reply :=
  match m with
  | SendChain => if picklable c then (c, [ChainObj c]) else (c, [])
  | _ => handle take_step m c
  end.

(* messages produced for one accepted pair (i, j):
   connections[i].send(Dj); connections[j].send(Di) *)
Definition swap_pair_msgs (betas : list Q) (data : list (point * Q)) (i j : nat)
  : list (nat * msg) :=
  let bi := nth i betas 0 in let bj := nth j betas 0 in
  let '(xi, pri) := nth i data ([], 0) in
  let '(xj, prj) := nth j data ([], 0) in
  let pi := pri / bi in let pj := prj / bj in
  [(i, UpdatePosition xj pj); (j, UpdatePosition xi pi)].

(* the pure effect of a swap round on the vector of chains (used to state
   exchange_state; the process system delivers the same messages through pipes) *)
Fixpoint set_nth {A : Type} (k : nat) (x : A) (l : list A) {struct l} : list A :=
  match l, k with
  | [], _ => []
  | _ :: t, O => x :: t
  | y :: t, S k' => y :: set_nth k' x t
  end.

Definition deliver (take_step : chain -> chain) (cs : list chain) (im : nat * msg) : list chain :=
  match nth_error cs (fst im) with
  | Some c => set_nth (fst im) (fst (handle take_step (snd im) c)) cs
  | None => cs
  end.

Definition exchange (take_step : chain -> chain) (cs : list chain) (i j : nat) : list chain :=
  let betas := map c_beta cs in
  let data := map (fun c => (get_last c, last_prob c)) cs in
  fold_left (deliver take_step) (swap_pair_msgs betas data i j) cs.

(* C03's invariant for one chain w.r.t. an (untempered) log-density *)
Definition aligned (logp : point -> Q) (c : chain) : Prop :=
  Forall (fun xp => snd xp == c_beta c * logp (fst xp)) (c_hist c).

(* --- the concrete step functions used in executions --------------------- *)
(* stub chain of harness/lib/c08lib.py:  logp(x) = - sum a_i (x_i - m_i)^2;
   tape entry (d, c):  prop = x + d;  p_new = logp(prop) * beta;
   accept iff p_new - p_old >= c.   In replay mode the tape holds the observed
   (point, probability) of a real sampler's step and is appended as is. *)
Fixpoint quad_logp (qd : list (Q * Q)) (x : point) : Q :=
  match qd, x with
  | (a, m) :: qd', xi :: x' => quad_logp qd' x' - a * (xi - m) * (xi - m)
  | _, _ => 0
  end.

Fixpoint vec_add (x d : point) : point :=
  match x, d with
  | xi :: x', di :: d' => Qred (xi + di) :: vec_add x' d'
  | _, _ => []
  end.

Definition chain_step (c : chain) : chain :=
  match c_tape c with
  | [] => c
  | (d, thr) :: tape' =>
    let c' := mkChain (c_beta c) (c_hist c) tape' (c_quad c) (c_replay c) in
    if c_replay c then set_hist c' ((d, thr) :: c_hist c)
    else
      let x := get_last c in
      let p_old := last_prob c in
      let prop := vec_add x d in
      let p_new := Qred (quad_logp (c_quad c) prop * c_beta c) in
      if Qle_bool thr (p_new - p_old)
      then set_hist c' ((prop, p_new) :: c_hist c)
      else set_hist c' ((x, p_old) :: c_hist c)
  end.

(* the stub chain as its constructor leaves it: probs = [logp(start) * inv_temp] *)
Definition stub_chain (beta : Q) (start : point) (tape : list (point * Q)) (quad : list (Q * Q)) : chain :=
  mkChain beta [(start, Qred (quad_logp quad start * beta))] tape quad false.

(* ====================================================================== *)
(* (c) advance: cycle arithmetic                                          *)
(* ====================================================================== *)
Inductive op := TakeSteps (n : nat) | Swap.

Definition cycle (s : nat) : list op := [TakeSteps s; Swap].
Definition cycles_of (s c : nat) : list op := concat (repeat (cycle s) c).

Definition advance_plan (n s : nat) : list op :=
  let total_cycles := (n / s)%nat in
  let k0 := 50%nat in
  let k := if (k0 <? total_cycles)%nat then total_cycles else k0 in
  let cycles := if (k0 <? total_cycles)%nat then 1%nat else (total_cycles / k0)%nat in
  concat (repeat (cycles_of s cycles) k)                                         (* for j in range(k): for i in range(cycles) *)
  ++ (if negb (total_cycles mod k =? 0)%nat then cycles_of s (total_cycles mod k) else [])   (* remaining cycles *)
  ++ (if negb (n mod s =? 0)%nat then [TakeSteps (n mod s)] else []).             (* remaining steps *)

Definition steps_of (o : op) : nat := match o with TakeSteps n => n | Swap => 0%nat end.
Definition is_swap (o : op) : bool := match o with Swap => true | _ => false end.
Definition total_steps (l : list op) : nat := fold_right (fun o acc => (steps_of o + acc)%nat) 0%nat l.
Definition swap_rounds (l : list op) : nat := length (filter is_swap l).

(* ====================================================================== *)
(* (d) the process system                                                 *)
(* ====================================================================== *)
Section System.
  Variables (M Rp W Res : Type).               (* messages, replies, worker state, result *)
  Variable hdl : nat -> M -> W -> W * list Rp.  (* deterministic handler of worker i *)

  (* the coordinating process as a resumption tree *)
  Inductive coord :=
  | Done (r : Res)
  | Send (i : nat) (m : M) (k : coord)
  | Recv (i : nat) (k : Rp -> coord).

  Record worker := mkWorker { inbox : list M; outbox : list Rp; wstate : W }.
  Record sys := mkSys { co : coord; ws : nat -> worker }.

  Definition upd (f : nat -> worker) (i : nat) (w : worker) : nat -> worker :=
    fun j => if (j =? i)%nat then w else f j.

  Definition push_in (m : M) (w : worker) : worker :=
    mkWorker (inbox w ++ [m]) (outbox w) (wstate w).
  Definition pop_out (rest : list Rp) (w : worker) : worker :=
    mkWorker (inbox w) rest (wstate w).
  Definition work (i : nat) (m : M) (rest : list M) (w : worker) : worker :=
    let res := hdl i m (wstate w) in
    mkWorker rest (outbox w ++ snd res) (fst res).

  (* N worker processes (indices < N take steps) *)
  Inductive step (N : nat) : sys -> sys -> Prop :=
  | step_send : forall i m k f,
      step N (mkSys (Send i m k) f) (mkSys k (upd f i (push_in m (f i))))
  | step_recv : forall i k f r rest, outbox (f i) = r :: rest ->
      step N (mkSys (Recv i k) f) (mkSys (k r) (upd f i (pop_out rest (f i))))
  | step_work : forall i c f m rest, (i < N)%nat -> inbox (f i) = m :: rest ->
      step N (mkSys c f) (mkSys c (upd f i (work i m rest (f i)))).

  (* states are compared pointwise on the worker map *)
  Definition seq_sys (s t : sys) : Prop := co s = co t /\ forall i, ws s i = ws t i.

  (* --- an executable scheduler (used for the sequential reference run) --- *)
  Definition coord_move (s : sys) : option sys :=
    match co s with
    | Done _ => None
    | Send i m k => Some (mkSys k (upd (ws s) i (push_in m (ws s i))))
    | Recv i k =>
      match outbox (ws s i) with
      | [] => None
      | r :: rest => Some (mkSys (k r) (upd (ws s) i (pop_out rest (ws s i))))
      end
    end.

  Definition work_move (i : nat) (s : sys) : option sys :=
    match inbox (ws s i) with
    | [] => None
    | m :: rest => Some (mkSys (co s) (upd (ws s) i (work i m rest (ws s i))))
    end.

  Fixpoint first_work (idx : list nat) (s : sys) : option sys :=
    match idx with
    | [] => None
    | i :: t => match work_move i s with Some s' => Some s' | None => first_work t s end
    end.

  (* policy: the order in which workers are tried, and whether the coordinator
     goes first *)
  Definition sched (coord_first : bool) (order : list nat) (s : sys) : option sys :=
    if coord_first then
      match coord_move s with Some s' => Some s' | None => first_work order s end
    else
      match first_work order s with Some s' => Some s' | None => coord_move s end.

  Fixpoint run (coord_first : bool) (order : list nat) (fuel : nat) (s : sys) : sys * nat :=
    match fuel with
    | O => (s, O)
    | S f => match sched coord_first order s with
             | Some s' => let '(t, n) := run coord_first order f s' in (t, S n)
             | None => (s, O)
             end
    end.

  Definition stuck (N : nat) (s : sys) : bool :=
    match coord_move s with
    | Some _ => false
    | None => forallb (fun i => match inbox (ws s i) with [] => true | _ => false end) (seq 0 N)
    end.
End System.

Arguments Done {M Rp Res} r.
Arguments Send {M Rp Res} i m k.
Arguments Recv {M Rp Res} i k.
Arguments mkWorker {M Rp W} inbox outbox wstate.
Arguments inbox {M Rp W} w.
Arguments outbox {M Rp W} w.
Arguments wstate {M Rp W} w.
Arguments mkSys {M Rp W Res} co ws.
Arguments co {M Rp W Res} s.
Arguments ws {M Rp W Res} s.
Arguments upd {M Rp W} f i w.
Arguments push_in {M Rp W} m w.
Arguments pop_out {M Rp W} rest w.
Arguments work {M Rp W} hdl i m rest w.
Arguments step {M Rp W Res} hdl N s t.
Arguments seq_sys {M Rp W Res} s t.
Arguments coord_move {M Rp W Res} s.
Arguments work_move {M Rp W Res} hdl i s.
Arguments first_work {M Rp W Res} hdl idx s.
Arguments sched {M Rp W Res} hdl coord_first order s.
Arguments run {M Rp W Res} hdl coord_first order fuel s.
Arguments stuck {M Rp W Res} N s.

(* ---------------------------------------------------------------------- *)
(* the worker loop with its program points (shutdown)                      *)
(* ---------------------------------------------------------------------- *)
(*   L0: while not end.is_set():
     L1:     while not end.is_set():
     L2:         if connection.poll(0.05): D = recv(); break
     L3:     if end.is_set(): break
     L4:     dispatch D                                                      *)
Inductive wpc := L0 | L1 | L2 | L3 (d : option msg) | L4 (d : msg) | Exited.

Record wproc := mkWproc { pc : wpc; w_in : list msg; w_out : list reply; w_chain : chain; handled : nat }.

Definition wstep (take_step : chain -> chain) (stop : bool) (w : wproc) : wproc :=
  let goto p := mkWproc p (w_in w) (w_out w) (w_chain w) (handled w) in
  match pc w with
  | L0 => if stop then goto Exited else goto L1
  | L1 => if stop then goto (L3 None) else goto L2
  | L2 => match w_in w with
          | [] => goto L1                                              (* poll timed out *)
          | m :: rest => mkWproc (L3 (Some m)) rest (w_out w) (w_chain w) (handled w)
          end
  | L3 d => if stop then goto Exited
            else match d with Some m => goto (L4 m) | None => goto L0 end
  | L4 m => let '(c', rs) := handle take_step m (w_chain w) in
            mkWproc L0 (w_in w) (w_out w ++ rs) c' (S (handled w))
  | Exited => w
  end.

(* ====================================================================== *)
(* the ParallelTempering coordinator as a resumption tree                  *)
(* ====================================================================== *)
Record cstate := mkCstate {
  cs_att : list pair;          (* attempted_swaps[pair] += 1, in order *)
  cs_succ : list pair;         (* successful_swaps[i, j] += 1 *)
  cs_choices : list nat;       (* script of random.choice *)
  cs_draws : list nat;         (* script of rng.shuffle *)
  cs_unis : list Q;            (* script of rng.random *)
  cs_snaps : list (list chain);(* results of return_chains(), newest first *)
  cs_undecided : nat           (* accept decisions that fell into the exp gap *)
}.

Inductive outcome := Finished (c : cstate) | ProtocolError (c : cstate).

Definition pcoord := coord msg reply outcome.

Definition send_all (N : nat) (m : msg) (k : pcoord) : pcoord :=
  fold_right (fun i k' => Send i m k') k (seq 0 N).

Fixpoint recv_from (idx : list nat) (acc : list reply) (k : list reply -> pcoord) : pcoord :=
  match idx with
  | [] => k (rev acc)
  | i :: t => Recv i (fun r => recv_from t (r :: acc) k)
  end.
Definition recv_all (N : nat) (k : list reply -> pcoord) : pcoord := recv_from (seq 0 N) [] k.

Fixpoint send_list (l : list (nat * msg)) (k : pcoord) : pcoord :=
  match l with
  | [] => k
  | (i, m) :: t => Send i m (send_list t k)
  end.

(* take_steps *)
Definition is_complete (r : reply) : bool := match r with AdvanceComplete => true | _ => false end.
Definition co_take_steps (N n : nat) (st : cstate) (k : cstate -> pcoord) : pcoord :=
  send_all N (Advance n)
    (recv_all N (fun rs => if forallb is_complete rs then k st else Done (ProtocolError st))).

(* the loop over proposed pairs: returns the messages to send and the new state *)
Fixpoint swap_pairs (betas : list Q) (data : list (point * Q)) (pairs : list pair) (st : cstate)
  : list (nat * msg) * cstate :=
  match pairs with
  | [] => ([], st)
  | (i, j) :: rest =>
    let u := hd 0 (cs_unis st) in
    let st1 := mkCstate (cs_att st) (cs_succ st) (cs_choices st) (cs_draws st) (tl (cs_unis st))
                        (cs_snaps st) (cs_undecided st) in
    let dec := swap_decide u (nth i betas 0) (nth j betas 0)
                           (snd (nth i data ([], 0))) (snd (nth j data ([], 0))) in
    match dec with
    | Some true =>
      let st2 := mkCstate (cs_att st1) (cs_succ st1 ++ [(i, j)]) (cs_choices st1) (cs_draws st1)
                          (cs_unis st1) (cs_snaps st1) (cs_undecided st1) in
      let '(ms, st3) := swap_pairs betas data rest st2 in
      (swap_pair_msgs betas data i j ++ ms, st3)
    | Some false => swap_pairs betas data rest st1
    | None =>
      let st2 := mkCstate (cs_att st1) (cs_succ st1) (cs_choices st1) (cs_draws st1)
                          (cs_unis st1) (cs_snaps st1) (S (cs_undecided st1)) in
      swap_pairs betas data rest st2
    end
  end.

Definition position_of (r : reply) : option (point * Q) :=
  match r with Position x p => Some (x, p) | _ => None end.

Fixpoint all_some {A : Type} (l : list (option A)) : option (list A) :=
  match l with
  | [] => Some []
  | None :: _ => None
  | Some x :: t => match all_some t with Some r => Some (x :: r) | None => None end
  end.

Definition co_swap (N : nat) (betas : list Q) (st : cstate) (k : cstate -> pcoord) : pcoord :=
  send_all N SendPosition
    (recv_all N (fun rs =>
       match all_some (map position_of rs) with
       | None => Done (ProtocolError st)
       | Some data =>
         let '(pairs, choices', draws') := tight_pairs N (cs_choices st) (cs_draws st) in
         let st1 := mkCstate (cs_att st ++ pairs) (cs_succ st) choices' draws' (cs_unis st)
                             (cs_snaps st) (cs_undecided st) in
         let '(ms, st2) := swap_pairs betas data pairs st1 in
         send_list ms (k st2)
       end)).

Fixpoint co_ops (N : nat) (betas : list Q) (ops : list op) (st : cstate) (k : cstate -> pcoord) : pcoord :=
  match ops with
  | [] => k st
  | TakeSteps n :: t => co_take_steps N n st (fun st' => co_ops N betas t st' k)
  | Swap :: t => co_swap N betas st (fun st' => co_ops N betas t st' k)
  end.

Definition co_advance (N : nat) (betas : list Q) (n s : nat) := co_ops N betas (advance_plan n s).

Definition chain_of (r : reply) : option chain := match r with ChainObj c => Some c | _ => None end.

Definition co_return_chains (N : nat) (st : cstate) (k : cstate -> pcoord) : pcoord :=
  send_all N SendChain
    (recv_all N (fun rs =>
       match all_some (map chain_of rs) with
       | None => Done (ProtocolError st)
       | Some cs => k (mkCstate (cs_att st) (cs_succ st) (cs_choices st) (cs_draws st) (cs_unis st)
                                (cs :: cs_snaps st) (cs_undecided st))
       end)).

(* what a user script may call *)
Inductive call :=
| CTakeSteps (n : nat)
| CSwap
| CAdvance (n s : nat)
| CReturnChains.

Fixpoint co_calls (N : nat) (betas : list Q) (calls : list call) (st : cstate) : pcoord :=
  match calls with
  | [] => Done (Finished st)
  | CTakeSteps n :: t => co_take_steps N n st (fun st' => co_calls N betas t st')
  | CSwap :: t => co_swap N betas st (fun st' => co_calls N betas t st')
  | CAdvance n s :: t => co_advance N betas n s st (fun st' => co_calls N betas t st')
  | CReturnChains :: t => co_return_chains N st (fun st' => co_calls N betas t st')
  end.

Definition pt_handler (i : nat) (m : msg) (c : chain) : chain * list reply := handle chain_step m c.

Definition empty_chain : chain := mkChain 1 [] [] [] false.

Definition pt_init (chains : list chain) (calls : list call) (choices draws : list nat) (unis : list Q)
  : sys msg reply chain outcome :=
  let N := length chains in
  mkSys (co_calls N (map c_beta chains) calls (mkCstate [] [] choices draws unis [] 0))
        (fun i => mkWorker [] [] (nth i chains empty_chain)).

(* ====================================================================== *)
(* correspondence with the implementation                                 *)
(* ====================================================================== *)
Definition Qeqb_point (x y : point) : bool :=
  (length x =? length y)%nat && forallb (fun ab => Qeq_bool (fst ab) (snd ab)) (combine x y).

Definition hist_eqb (h1 h2 : list (point * Q)) : bool :=
  (length h1 =? length h2)%nat &&
  forallb (fun ab => Qeqb_point (fst (fst ab)) (fst (snd ab)) && Qeq_bool (snd (fst ab)) (snd (snd ab)))
          (combine h1 h2).

(* observed chain: history oldest first *)
Definition snap_eqb (model : list chain) (obs : list (list (point * Q))) : bool :=
  (length model =? length obs)%nat &&
  forallb (fun co => hist_eqb (rev (c_hist (fst co))) (snd co)) (combine model obs).

Definition count_pair (l : list pair) (i j : nat) : Z :=
  Z.of_nat (length (filter (fun p => (fst p =? i)%nat && (snd p =? j)%nat) l)).

Definition matrix_eqb (N : nat) (diag : Z) (l : list pair) (obs : list (list Z)) : bool :=
  (length obs =? N)%nat &&
  forallb (fun i =>
    let row := nth i obs [] in
    (length row =? N)%nat &&
    forallb (fun j => Z.eqb (nth j row (-1)%Z)
                            (count_pair l i j + (if (i =? j)%nat then diag else 0))%Z) (seq 0 N))
    (seq 0 N).

Record pt_case := mkCase {
  k_chains : list chain;
  k_calls : list call;
  k_choices : list nat;
  k_draws : list nat;
  k_unis : list Q;
  k_fuel : nat;
  k_snaps : list (list (list (point * Q)));   (* oldest snapshot first *)
  k_att : list (list Z);
  k_succ : list (list Z)
}.

(* 0 = agreement; 1 = model run incomplete; 2 = protocol error in the model;
   3 = an accept decision fell into the undecided gap; 4 = snapshots differ;
   5 = attempted_swaps differ; 6 = successful_swaps differ *)
Definition check_with (coord_first : bool) (order : list nat) (k : pt_case) : nat :=
  let N := length (k_chains k) in
  let s0 := pt_init (k_chains k) (k_calls k) (k_choices k) (k_draws k) (k_unis k) in
  let '(s1, _) := run pt_handler coord_first order (k_fuel k) s0 in
  if negb (stuck N s1) then 1%nat
  else match co s1 with
       | Done (Finished st) =>
         if negb (cs_undecided st =? 0)%nat then 3%nat
         else if negb ((length (cs_snaps st) =? length (k_snaps k))%nat &&
                       forallb (fun mo => snap_eqb (fst mo) (snd mo))
                               (combine (rev (cs_snaps st)) (k_snaps k))) then 4%nat
         else if negb (matrix_eqb N 1 (cs_att st) (k_att k)) then 5%nat
         else if negb (matrix_eqb N 0 (cs_succ st) (k_succ k)) then 6%nat
         else 0%nat
       | Done (ProtocolError _) => 2%nat
       | _ => 1%nat
       end.

(* the reference run: coordinator first, workers in index order; a second
   policy (workers first, highest index first) must give the same verdict *)
Definition check_case (k : pt_case) : nat :=
  let N := length (k_chains k) in
  let a := check_with true (seq 0 N) k in
  let b := check_with false (rev (seq 0 N)) k in
  if (a =? b)%nat then a else 7%nat.

Fixpoint failing_from (i : nat) (l : list pt_case) : list nat :=
  match l with
  | [] => []
  | k :: t => if (check_case k =? 0)%nat then failing_from (S i) t else i :: failing_from (S i) t
  end.
Definition failing (l : list pt_case) : list nat := failing_from 0 l.

(* pairing routines alone *)
Definition check_tight (c : nat * list nat * list nat * list pair) : bool :=
  let '(N, choices, draws, obs) := c in
  let '(ps, _, _) := tight_pairs N choices draws in
  (length ps =? length obs)%nat &&
  forallb (fun ab => (fst (fst ab) =? fst (snd ab))%nat && (snd (fst ab) =? snd (snd ab))%nat) (combine ps obs).

Definition check_uniform (c : nat * list nat * list pair) : bool :=
  let '(N, draws, obs) := c in
  let ps := fst (uniform_pairs N draws) in
  (length ps =? length obs)%nat &&
  forallb (fun ab => (fst (fst ab) =? fst (snd ab))%nat && (snd (fst ab) =? snd (snd ab))%nat) (combine ps obs).

(* advance plan vs the observed sequence of take_steps / swap calls *)
Definition op_eqb (a b : op) : bool :=
  match a, b with
  | TakeSteps n, TakeSteps m => (n =? m)%nat
  | Swap, Swap => true
  | _, _ => false
  end.
Definition check_plan (c : nat * nat * list op) : bool :=
  let '(n, s, obs) := c in
  let p := advance_plan n s in
  (length p =? length obs)%nat && forallb (fun ab => op_eqb (fst ab) (snd ab)) (combine p obs).

Fixpoint failing_b {A : Type} (chk : A -> bool) (i : nat) (l : list A) : list nat :=
  match l with
  | [] => []
  | k :: t => if chk k then failing_b chk (S i) t else i :: failing_b chk (S i) t
  end.
