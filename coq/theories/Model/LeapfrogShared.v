(* Model of the Hamiltonian trajectory code of inference/mcmc/hmc (property C07) in a
   world where the array returned by the user's gradient function is SHARED with
   that function: the function keeps the array it hands out (a stored vector, a
   cached result, an output buffer), so whatever the library leaves in the array is
   what the function holds -- and may hand out again -- afterwards.

   Executable model over Q, no proofs.  It extends Model/Leapfrog.v (which treats
   `grad` as a mathematical function, i.e. a callable that builds a new array on
   every call) by the state of the callable and by the content the library leaves
   in the returned array.

   the caller's side (harness/props/c07.py, class KeeperGrad)          model
   -----------------------------------------------------------          -----
   def grad(t): return b - A @ t            (new array every call)      KFresh
   def grad(t): return self.g               (stored vector: the         KStored g
                                             gradient of a linear
                                             log-density, computed once)
   def grad(t):                             (one-entry cache)           KMemo last
       if array_equal(t, self.key): return self.val
       self.key, self.val = t.copy(), b - A @ t ; return self.val
   def grad(t):                             (output buffer)             KBuffer buf
       copyto(self.buf, b - A @ t) ; return self.buf

   hmc/__init__.py                                                      model
   ---------------                                                      -----
   r += c * self.grad(t)         :168,172,175,181,188,193               skick c  with the
       g = self.grad(t)                the call: state of the callable      statement kick_stmt:
       tmp = c * g                     a NEW array (g is only read)         (vaxpy r c g, g)
       r += tmp                        in place on r (the library's own)    i.e. g is left as
                                                                            returned
   standard_leapfrog / bounded_leapfrog :164-194                        shared_standard_leapfrog /
                                                                        shared_bounded_leapfrog
                                                                        (same loop structure as
                                                                        Model/Leapfrog.v)
   several run_leapfrog calls on one chain, same callable               run_seq

   `kick_stmt_inplace` is the statement   g = self.grad(t); g *= c; r += g   (scaling
   the returned array in place "to avoid a temporary"); it is NOT what the code does
   and only appears in the refutation C07_inplace_scaling_refuted. *)
From Coq Require Import List QArith Qround Qabs ZArith Bool.
From IT Require Import Model.Leapfrog.
Import ListNotations.
Open Scope Q_scope.

(* ---- the callable ---------------------------------------------------------- *)

Inductive keeper : Type :=
| KFresh                                   (* builds a new array on every call *)
| KStored (g : vec)                        (* returns the vector it stores *)
| KMemo (last : option (vec * vec))        (* (point, array) of the last evaluation *)
| KBuffer (buf : vec).                     (* writes into its buffer, returns the buffer *)

Section Callable.
  Variable grad : vec -> vec.              (* the gradient of the log-density *)

  (* one call: (state of the callable afterwards, content of the returned array) *)
  Definition kcall (k : keeper) (t : vec) : keeper * vec :=
    match k with
    | KFresh => (KFresh, grad t)
    | KStored g => (KStored g, g)
    | KMemo (Some (p, a)) =>
        if veqb p t then (KMemo (Some (p, a)), a)
        else let g := grad t in (KMemo (Some (t, g)), g)
    | KMemo None => let g := grad t in (KMemo (Some (t, g)), g)
    | KBuffer _ => let g := grad t in (KBuffer g, g)
    end.
End Callable.

(* the array handed out is the callable's own: the content `v` the caller leaves in
   it is what the callable holds afterwards (nothing to hold for KFresh) *)
Definition kwb (k : keeper) (v : vec) : keeper :=
  match k with
  | KFresh => KFresh
  | KStored _ => KStored v
  | KMemo (Some (p, _)) => KMemo (Some (p, v))
  | KMemo None => KMemo None
  | KBuffer _ => KBuffer v
  end.

(* content of the array the callable keeps *)
Definition kept (k : keeper) : option vec :=
  match k with
  | KFresh => None
  | KStored g => Some g
  | KMemo (Some (_, a)) => Some a
  | KMemo None => None
  | KBuffer b => Some b
  end.

(* ---- the statement `r += c * g` as an operation on (r, g) --------------------- *)
(* coefficient, r, g  |->  (r afterwards, g afterwards) *)
Definition stmt := Q -> vec -> vec -> vec * vec.

(* hmc/__init__.py: `r += c * self.grad(t)` -- the product is a new array *)
Definition kick_stmt : stmt := fun c r g => (vaxpy r c g, g).

(* NOT the code: `g = self.grad(t); g *= c; r += g` *)
Definition kick_stmt_inplace : stmt :=
  fun c r g => let g' := map (fun x => Qred (x * c)) g in (vaxpy r 1 g', g').

(* ---- the integrators in the shared world ---------------------------------------- *)
Definition world := (keeper * state)%type.

Section Shared.
  Variable grad : vec -> vec.
  Variable st : stmt.
  Variable m : mass.
  Variable inv_temp eps : Q.

  Definition skick (h : Q) (w : world) : world :=
    let '(k, (t, r)) := w in
    let (k1, g) := kcall grad k t in
    let (r', g') := st h r g in
    (kwb k1 g', (t, r')).

  Definition sdrift (w : world) : world := (fst w, drift m eps (snd w)).

  Definition sinner (w : world) : world := skick (r_step inv_temp eps) (sdrift w).

  Definition shared_standard_leapfrog (k : keeper) (t r : vec) (n : nat) : world :=
    let w := skick ((1 # 2) * r_step inv_temp eps) (k, (t, r)) in
    let w := Nat.iter (n - 1) sinner w in
    let w := sdrift w in
    skick ((1 # 2) * r_step inv_temp eps) w.

  Variable lo hi : vec.

  Definition sbdrift (w : world) : world := (fst w, bdrift m eps lo hi (snd w)).

  Definition sbinner (w : world) : world := skick (r_step inv_temp eps) (sbdrift w).

  Definition shared_bounded_leapfrog (k : keeper) (t r : vec) (n : nat) : world :=
    let w := skick ((1 # 2) * r_step inv_temp eps) (k, (t, r)) in
    let w := Nat.iter (n - 1) sbinner w in
    let w := sbdrift w in
    skick ((1 # 2) * r_step inv_temp eps) w.
End Shared.

(* ---- a call history: run_leapfrog(t, r, n) several times, one callable ---------- *)
Definition request := (vec * vec * nat)%type.

Fixpoint run_seq (traj : keeper -> vec -> vec -> nat -> world) (k : keeper) (reqs : list request)
  : keeper * list state :=
  match reqs with
  | [] => (k, [])
  | (t, r, n) :: qs =>
      let w := traj k t r n in
      let (k', ss) := run_seq traj (fst w) qs in
      (k', snd w :: ss)
  end.

(* ---- definitions used in the statements of the theorems ------------------------- *)

(* the callable is a correct gradient function of `grad`: what it keeps is what a
   call has to return *)
Definition kinv (grad : vec -> vec) (k : keeper) : Prop :=
  match k with
  | KFresh => True
  | KStored g => forall t, Forall2 Qeq (grad t) g
  | KMemo (Some (p, a)) => Forall2 Qeq a (grad p)
  | KMemo None => True
  | KBuffer _ => True
  end.

(* ---- correspondence interface ---------------------------------------------------- *)
Record sh_case := {
  s_mass : mass; s_inv_temp : Q; s_eps : Q; s_A : list vec; s_b : vec;
  s_bounds : option (vec * vec);
  s_keeper : keeper;                   (* the callable before the first call *)
  s_calls : list request;              (* run_leapfrog(t, r, n), in call order *)
  s_obs : list state;                  (* what each call returned *)
  s_obs_kept : option vec }.           (* content of the callable's array after the last call *)

Definition traj_of (c : sh_case) : keeper -> vec -> vec -> nat -> world :=
  match s_bounds c with
  | None => shared_standard_leapfrog (lin_grad (s_A c) (s_b c)) kick_stmt
              (s_mass c) (s_inv_temp c) (s_eps c)
  | Some (lo, hi) => shared_bounded_leapfrog (lin_grad (s_A c) (s_b c)) kick_stmt
              (s_mass c) (s_inv_temp c) (s_eps c) lo hi
  end.

Fixpoint states_eqb (a b : list state) : bool :=
  match a, b with
  | [], [] => true
  | x :: a', y :: b' => state_eqb x y && states_eqb a' b'
  | _, _ => false
  end.

Definition okept_eqb (a b : option vec) : bool :=
  match a, b with
  | None, None => true
  | Some x, Some y => veqb x y
  | _, _ => false
  end.

(* exact comparison (dyadic data) *)
Definition check_shared_exact (c : sh_case) : bool :=
  let (k, ss) := run_seq (traj_of c) (s_keeper c) (s_calls c) in
  states_eqb ss (s_obs c) && okept_eqb (kept k) (s_obs_kept c).

(* comparison to a relative tolerance (arbitrary doubles) *)
Definition state_close (tol : Q) (s o : state) : bool :=
  let scale := qmax (vmaxabs (fst o)) (vmaxabs (snd o)) in
  vclose tol scale (fst s) (fst o) && vclose tol scale (snd s) (snd o).

Fixpoint states_close (tol : Q) (a b : list state) : bool :=
  match a, b with
  | [], [] => true
  | x :: a', y :: b' => state_close tol x y && states_close tol a' b'
  | _, _ => false
  end.

Definition okept_close (tol : Q) (a b : option vec) : bool :=
  match a, b with
  | None, None => true
  | Some x, Some y => vclose tol (vmaxabs y) x y
  | _, _ => false
  end.

Definition check_shared_tol (tol : Q) (c : sh_case) : bool :=
  let (k, ss) := run_seq (traj_of c) (s_keeper c) (s_calls c) in
  states_close tol ss (s_obs c) && okept_close tol (kept k) (s_obs_kept c).
