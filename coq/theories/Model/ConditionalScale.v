(* Scale behaviour of inference/approx/conditional.py: tables whose VALUES are tiny or
   huge (a correctly normalised pdf over a variable measured in large or small units, an
   un-normalised table multiplied by 1e-20 .. 1e20) and grids in large or small units.
   Definitions only (see Proofs/ConditionalScaleProofs.v).

   code line (conditional.py)                       definition
   ------------------------------------------------------------------------
   (input)  c * probability_density                  scale c p
   (input)  s * x                                    scale s x
   128      delta = ... / means                      Model.Conditional.cell_deltas
   128'     delta = ... / maximum(means, eps)        cell_deltas_floor eps   (NOT the code:
            the "guard against 0/0" variant with an absolute floor under the cell mean;
            kept as a refuted mutant, like weights_pinned)
   129'     weights with the same floor              weights_floor eps       (refuted mutant)

   Nothing in piecewise_linear_sample may depend on the absolute size of the table: the
   weights are normalised inside the function and delta is a ratio. *)
From Coq Require Import List QArith Qabs Qminmax Bool.
From IT Require Import Model.Conditional.
Import ListNotations.
Open Scope Q_scope.

Definition scale (c : Q) (l : list Q) : list Q := map (Qmult c) l.

(* pointwise Qeq of two lists of the same length *)
Definition Qlist_eq (a b : list Q) : Prop := Forall2 Qeq a b.

(* the absolute-floor variant of conditional.py:128 *)
Fixpoint cell_deltas_floor (eps : Q) (p : list Q) : list Q :=
  match p with
  | a :: ((b :: _) as t) =>
      ((1 # 2) * (b - a) / Qmax ((1 # 2) * (b + a)) eps) :: cell_deltas_floor eps t
  | _ => []
  end.

(* the same floor under the cell masses before normalising (conditional.py:129-130) *)
Definition weights_floor (eps : Q) (x p : list Q) : list Q :=
  normalise (map (fun m => Qmax m eps) (cell_masses x p)).

(* every cell mean of the table is at least eps: the region in which the floor is invisible *)
Fixpoint means_above (eps : Q) (p : list Q) : Prop :=
  match p with
  | a :: ((b :: _) as t) => eps <= (1 # 2) * (b + a) /\ means_above eps t
  | _ => True
  end.

(* scipy's composite rule with the partial sums kept in lowest terms: the same value as
   Model.Conditional.simpson (Proofs/ConditionalScaleProofs.v, simpson_red_eq), evaluated
   without the blow-up of unreduced denominators on tables of 53-bit doubles with large
   exponents.  Used by the generated unit cases only. *)
Fixpoint simpson_red (x y : list Q) : Q :=
  match x, y with
  | x0 :: x1 :: ((x2 :: xr) as xt), y0 :: y1 :: ((y2 :: yr) as yt) =>
      Qred (Qred (simpson_basic x0 x1 x2 y0 y1 y2) +
            match xr, yr with
            | [x3], [y3] => Qred (simpson_last (x2 - x1) (x3 - x2) y1 y2 y3)
            | _, _ => simpson_red xt yt
            end)
  | [x0; x1], [y0; y1] => (1 # 2) * (x1 - x0) * (y0 + y1)
  | _, _ => 0
  end.

Definition check_unit_case_red (c : unit_case) : bool :=
  let '(rtol, x, pc) := c in Qclose rtol (simpson_red x pc) 1.
