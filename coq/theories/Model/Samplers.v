(* Executable models of the Markov-chain samplers (properties C01, C03; reused
   by C09).  No proofs here.

   Every sampler is modelled as ONE TRANSITION (one take_step / one ensemble
   iteration) as a function of
     - the sampler state just before the call (exact rationals),
     - the tape of random draws the call consumes, in consumption order
       (standard-normal draws, uniform draws, integer draws -- all as Q),
     - the user's log-density logp (a Section variable; executions use the
       rational quadratic family `quad` below) and, for HMC, its gradient,
   returning the new state, the unconsumed tape and the log of every posterior
   evaluation (point, tempered value) in evaluation order.

   gibbs.py   MetropolisChain.take_step :288-307   metro_step   (repaired: appends pval to probs;
                                                    the pinned behaviour is metro_step_pinned)
              GibbsChain.take_step      :627-656   gibbs_step
              Parameter.*_proposal      :88-122    propose (try_count / max_tries / sigma*0.25)
   pca.py     PcaChain.take_step        :150-183   pca_step    (directions are part of the state)
   hmc        HamiltonianChain.take_step           hmc_step    (standard / bounded leapfrog,
                                                    diagonal or full inverse mass)
   ensemble   __proposal/__advance_walker/__advance_all   ens_iteration
                                                   (stretch move Y = X_j + z (X_i - X_j); the pinned
                                                    code proposes X_i + z (X_j - X_i): ens_pinned)

   All of them retry until a proposal is accepted (while True / for attempt in
   range(max_attempts)); the loops are structural recursion on the tape, an
   exhausted tape is the error value OutOfTape, a uniform draw inside the
   enclosure gap of exp is Undecided (see Common/ExpBounds.v).  *)
From Coq Require Import QArith Qround Qabs ZArith List Bool.
From IT Require Import Common.ExpBounds Model.Reflect.
Import ListNotations.
Open Scope Q_scope.

Inductive res (A : Type) : Type :=
| Ok (a : A) | Undecided | OutOfTape | Stuck.
Arguments Ok {A} a.
Arguments Undecided {A}.
Arguments OutOfTape {A}.
Arguments Stuck {A}.

Definition event : Type := (list Q * Q)%type.      (* evaluation point, tempered value *)

(* ---------- small vector helpers ---------- *)
Fixpoint set_nth (i : nat) (v : Q) (x : list Q) : list Q :=
  match x, i with
  | [], _ => []
  | _ :: t, O => v :: t
  | h :: t, S i' => h :: set_nth i' v t
  end.

Fixpoint vadd (a b : list Q) : list Q :=
  match a, b with x :: a', y :: b' => (x + y) :: vadd a' b' | _, _ => [] end.
Fixpoint vsub (a b : list Q) : list Q :=
  match a, b with x :: a', y :: b' => (x - y) :: vsub a' b' | _, _ => [] end.
Fixpoint vmul (a b : list Q) : list Q :=
  match a, b with x :: a', y :: b' => (x * y) :: vmul a' b' | _, _ => [] end.
Definition vscale (c : Q) (a : list Q) : list Q := map (fun x => c * x) a.
Fixpoint vdot (a b : list Q) : Q :=
  match a, b with x :: a', y :: b' => x * y + vdot a' b' | _, _ => 0 end.
Definition mat_vec (m : list (list Q)) (v : list Q) : list Q := map (fun row => vdot row v) m.
Definition vred (a : list Q) : list Q := map Qred a.

(* ---------- the rational quadratic family used in executions ---------- *)
Fixpoint quad_diag (a m x : list Q) : Q :=
  match a, m, x with
  | ai :: a', mi :: m', xi :: x' => - ai * ((xi - mi) * (xi - mi)) + quad_diag a' m' x'
  | _, _, _ => 0
  end.
Definition quad_cross (c : list (nat * nat * Q)) (x : list Q) : Q :=
  fold_right (fun e acc => let '(i, j, cij) := e in acc - cij * nth i x 0 * nth j x 0) 0 c.
Definition quad (a m : list Q) (c : list (nat * nat * Q)) (x : list Q) : Q :=
  Qred (quad_diag a m x + quad_cross c x).

Fixpoint quad_grad_diag (a m x : list Q) : list Q :=
  match a, m, x with
  | ai :: a', mi :: m', xi :: x' => (- (2 # 1) * ai * (xi - mi)) :: quad_grad_diag a' m' x'
  | _, _, _ => []
  end.
Definition quad_grad (a m : list Q) (c : list (nat * nat * Q)) (x : list Q) : list Q :=
  fold_right (fun e g => let '(i, j, cij) := e in
                set_nth j (nth j g 0 - cij * nth i x 0)
                  (set_nth i (nth i g 0 - cij * nth j x 0) g))
             (quad_grad_diag a m x) c.

Section Sampler.
  Variable logp : list Q -> Q.
  Variable beta : Q.                       (* inv_temp = 1 / temperature *)

  Definition tlogp (x : list Q) : Q := Qred (logp x * beta).  (* posterior(x) * inv_temp *)

  (* `if p_new > p_old: accept  else: if rng.random() < exp(p_new - p_old): accept` *)
  Definition mh_test (p_new p_old : Q) (tape : list Q) : res (bool * list Q) :=
    if Qlt_bool p_old p_new then Ok (true, tape)
    else match tape with
         | [] => OutOfTape
         | u :: tape' =>
             match decide_accept u (p_new - p_old) with
             | Some b => Ok (b, tape')
             | None => Undecided
             end
         end.

  (* ================= Gibbs / Metropolis ================= *)
  Inductive pkind := PStd | PAbs | PBnd (lo hi : Q).
  Record gparam := mkGP { gp_sigma : Q; gp_kind : pkind; gp_try : nat; gp_max_tries : nat }.

  Definition apply_kind (k : pkind) (raw : Q) : Q :=
    match k with
    | PStd => raw
    | PAbs => abs_fold raw
    | PBnd lo hi => gibbs_fold lo hi (hi - lo) raw
    end.

  (* Parameter.*_proposal: try_count += 1; if try_count > max_tries: sigma *= 0.25;
     draw normal(loc = samples[-1], scale = sigma); fold *)
  Definition propose (par : gparam) (last xi : Q) : gparam * Q :=
    let t := S (gp_try par) in
    let sigma := if (gp_max_tries par <? t)%nat then Qred (gp_sigma par * (1 # 4)) else gp_sigma par in
    (mkGP sigma (gp_kind par) t (gp_max_tries par),
     Qred (apply_kind (gp_kind par) (raw_draw last sigma xi))).

  Definition reset_try (par : gparam) : gparam :=
    mkGP (gp_sigma par) (gp_kind par) 0 (gp_max_tries par).

  (* the while-True loop of GibbsChain.take_step for coordinate i *)
  Fixpoint gibbs_coord (tape : list Q) (x : list Q) (i : nat) (last : Q) (par : gparam)
           (p_old : Q) (ev : list event) : res (list Q * Q * gparam * list Q * list event) :=
    match tape with
    | [] => OutOfTape
    | xi :: tape1 =>
        let '(par', cand) := propose par last xi in
        let x' := set_nth i cand x in
        let p_new := tlogp x' in
        let ev' := (x', p_new) :: ev in
        if Qlt_bool p_old p_new then Ok (x', p_new, par', tape1, ev')
        else match tape1 with
             | [] => OutOfTape
             | u :: tape2 =>
                 match decide_accept u (p_new - p_old) with
                 | Some true => Ok (x', p_new, par', tape2, ev')
                 | Some false => gibbs_coord tape2 x i last par' p_old ev'
                 | None => Undecided
                 end
             end
    end.

  Fixpoint gibbs_coords (pars : list gparam) (lasts : list Q) (tape : list Q) (x : list Q)
           (i : nat) (p_old : Q) (ev : list event) (done : list gparam)
    : res (list Q * Q * list gparam * list Q * list event) :=
    match pars, lasts with
    | par :: pars', last :: lasts' =>
        match gibbs_coord tape x i last par p_old ev with
        | Ok (x', p_new, par', tape', ev') =>
            gibbs_coords pars' lasts' tape' x' (S i) p_new ev' (done ++ [par'])
        | Undecided => Undecided
        | OutOfTape => OutOfTape
        | Stuck => Stuck
        end
    | _, _ => Ok (x, p_old, done, tape, ev)
    end.

  (* chain state: parameters, samples and probs NEWEST FIRST *)
  Record gstate := mkGS { gs_params : list gparam; gs_samples : list (list Q); gs_probs : list Q }.

  Definition gibbs_step (s : gstate) (tape : list Q) : res (gstate * list Q * list event) :=
    match gs_samples s, gs_probs s, gs_params s with
    | x :: _, p_old :: _, _ :: _ =>
        match gibbs_coords (gs_params s) x tape x 0 p_old [] [] with
        | Ok (x', p_new, pars', tape', ev) =>
            Ok (mkGS (map reset_try pars') (x' :: gs_samples s) (p_new :: gs_probs s), tape', rev ev)
        | Undecided => Undecided
        | OutOfTape => OutOfTape
        | Stuck => Stuck
        end
    | _, _, _ => Stuck
    end.

  (* MetropolisChain.take_step: all parameters propose together *)
  Fixpoint propose_all (pars : list gparam) (lasts : list Q) (tape : list Q)
    : res (list gparam * list Q * list Q) :=
    match pars, lasts with
    | par :: pars', last :: lasts' =>
        match tape with
        | [] => OutOfTape
        | xi :: tape' =>
            let '(par', cand) := propose par last xi in
            match propose_all pars' lasts' tape' with
            | Ok (ps, cs, t) => Ok (par' :: ps, cand :: cs, t)
            | Undecided => Undecided | OutOfTape => OutOfTape | Stuck => Stuck
            end
        end
    | _, _ => Ok ([], [], tape)
    end.

  Fixpoint metro_loop (fuel : nat) (pars : list gparam) (lasts : list Q) (tape : list Q)
           (p_old : Q) (ev : list event) : res (list Q * Q * list gparam * list Q * list event) :=
    match fuel with
    | O => OutOfTape
    | S fuel' =>
        match propose_all pars lasts tape with
        | Ok (pars', cand, tape1) =>
            let p_new := tlogp cand in
            let ev' := (cand, p_new) :: ev in
            match mh_test p_new p_old tape1 with
            | Ok (true, tape2) => Ok (cand, p_new, pars', tape2, ev')
            | Ok (false, tape2) => metro_loop fuel' pars' lasts tape2 p_old ev'
            | Undecided => Undecided | OutOfTape => OutOfTape | Stuck => Stuck
            end
        | Undecided => Undecided | OutOfTape => OutOfTape | Stuck => Stuck
        end
    end.

  (* repaired behaviour: the accepted value is appended to probs *)
  Definition metro_step (s : gstate) (tape : list Q) : res (gstate * list Q * list event) :=
    match gs_samples s, gs_probs s with
    | x :: _, p_old :: _ =>
        match metro_loop (S (length tape)) (gs_params s) x tape p_old [] with
        | Ok (x', p_new, pars', tape', ev) =>
            Ok (mkGS (map reset_try pars') (x' :: gs_samples s) (p_new :: gs_probs s), tape', rev ev)
        | Undecided => Undecided | OutOfTape => OutOfTape | Stuck => Stuck
        end
    | _, _ => Stuck
    end.

  (* pinned behaviour (defect D1): probs is never extended, so every later step
     is compared with the value of the STARTING point *)
  Definition metro_step_pinned (s : gstate) (tape : list Q) : res (gstate * list Q * list event) :=
    match gs_samples s, gs_probs s with
    | x :: _, p_old :: _ =>
        match metro_loop (S (length tape)) (gs_params s) x tape p_old [] with
        | Ok (x', p_new, pars', tape', ev) =>
            Ok (mkGS (map reset_try pars') (x' :: gs_samples s) (gs_probs s), tape', rev ev)
        | Undecided => Undecided | OutOfTape => OutOfTape | Stuck => Stuck
        end
    | _, _ => Stuck
    end.

  (* ================= PCA ================= *)
  (* process_proposal: identity or Bounds.reflect (element-wise) *)
  Definition process (bounds : option (list Q * list Q)) (x : list Q) : list Q :=
    match bounds with
    | None => x
    | Some (los, his) => reflect_vec los (vsub his los) x
    end.

  (* prop = theta0 + v * sigma * normal() ; reflect ; test *)
  Fixpoint pca_dir (bounds : option (list Q * list Q)) (tape : list Q) (theta0 v : list Q)
           (sigma : Q) (p_old : Q) (ev : list event)
    : res (list Q * Q * list Q * list event) :=
    match tape with
    | [] => OutOfTape
    | xi :: tape1 =>
        let prop := vred (process bounds (vadd theta0 (vscale xi (vscale sigma v)))) in
        let p_new := tlogp prop in
        let ev' := (prop, p_new) :: ev in
        if Qlt_bool p_old p_new then Ok (prop, p_new, tape1, ev')
        else match tape1 with
             | [] => OutOfTape
             | u :: tape2 =>
                 match decide_accept u (p_new - p_old) with
                 | Some true => Ok (prop, p_new, tape2, ev')
                 | Some false => pca_dir bounds tape2 theta0 v sigma p_old ev'
                 | None => Undecided
                 end
             end
    end.

  Fixpoint pca_dirs (bounds : option (list Q * list Q)) (dirs : list (list Q)) (sigmas : list Q)
           (tape : list Q) (theta0 : list Q) (p_old : Q) (ev : list event)
    : res (list Q * Q * list Q * list event) :=
    match dirs, sigmas with
    | v :: dirs', sg :: sigmas' =>
        match pca_dir bounds tape theta0 v sg p_old ev with
        | Ok (th, p_new, tape', ev') => pca_dirs bounds dirs' sigmas' tape' th p_new ev'
        | Undecided => Undecided | OutOfTape => OutOfTape | Stuck => Stuck
        end
    | _, _ => Ok (theta0, p_old, tape, ev)
    end.

  Record pstate := mkPS { ps_dirs : list (list Q); ps_sigmas : list Q;
                          ps_bounds : option (list Q * list Q);
                          ps_samples : list (list Q); ps_probs : list Q }.

  Definition pca_step (s : pstate) (tape : list Q) : res (pstate * list Q * list event) :=
    match ps_samples s, ps_probs s, ps_dirs s with
    | x :: _, p_old :: _, _ :: _ =>
        match pca_dirs (ps_bounds s) (ps_dirs s) (ps_sigmas s) tape x p_old [] with
        | Ok (x', p_new, tape', ev) =>
            Ok (mkPS (ps_dirs s) (ps_sigmas s) (ps_bounds s) (x' :: ps_samples s) (p_new :: ps_probs s),
                tape', rev ev)
        | Undecided => Undecided | OutOfTape => OutOfTape | Stuck => Stuck
        end
    | _, _, _ => Stuck
    end.

  (* ================= Hamiltonian ================= *)
  Variable grad : list Q -> list Q.          (* gradient of logp (untempered) *)

  Inductive mass :=
  | MDiag (inv_mass sqrt_mass : list Q)                 (* ScalarMass / VectorMass *)
  | MFull (inv_mass L : list (list Q)).                 (* MatrixMass *)

  Definition velocity (m : mass) (r : list Q) : list Q :=
    match m with MDiag im _ => vmul r im | MFull im _ => mat_vec im r end.
  Definition momentum (m : mass) (z : list Q) : list Q :=
    match m with MDiag _ sm => vmul sm z | MFull _ L => mat_vec L z end.
  Definition kinetic (m : mass) (r : list Q) : Q := (1 # 2) * vdot r (velocity m r).

  Definition drift (m : mass) (eps : Q) (t r : list Q) : list Q :=
    vadd t (vscale eps (velocity m r)).
  Definition kick (c : Q) (t r : list Q) : list Q := vadd r (vscale c (grad t)).

  (* the reflection of bounded_leapfrog: position folded, momentum sign flipped *)
  Definition bounce (bounds : option (list Q * list Q)) (t r : list Q) : list Q * list Q :=
    match bounds with
    | None => (t, r)
    | Some (los, his) =>
        let pr := reflect_momenta_vec los (vsub his los) t in
        (map fst pr, vmul r (map snd pr))
    end.

  Fixpoint leap_inner (n : nat) (bounds : option (list Q * list Q)) (m : mass) (eps rstep : Q)
           (t r : list Q) : list Q * list Q :=
    match n with
    | O => (t, r)
    | S n' =>
        let t1 := drift m eps t r in
        let '(t2, r2) := bounce bounds t1 r in
        let r3 := kick rstep t2 r2 in
        leap_inner n' bounds m eps rstep (vred t2) (vred r3)
    end.

  (* standard_leapfrog / bounded_leapfrog as written (merged half kicks) *)
  Definition leapfrog (bounds : option (list Q * list Q)) (m : mass) (eps : Q) (n_steps : nat)
             (t r : list Q) : list Q * list Q :=
    let rstep := beta * eps in
    let r1 := kick ((1 # 2) * rstep) t r in
    let '(t2, r2) := leap_inner (n_steps - 1) bounds m eps rstep t r1 in
    let t3 := drift m eps t2 r2 in
    let '(t4, r4) := bounce bounds t3 r2 in
    (vred t4, vred (kick ((1 # 2) * rstep) t4 r4)).

  (* n_steps = int(steps * (1 + (u - 0.5) * 0.2)); None when the exact value is an
     integer that a rounding of the float product could miss *)
  Definition hmc_nsteps (steps : nat) (u : Q) : option nat :=
    let v := inject_Z (Z.of_nat steps) * (1 + (u - (1 # 2)) * (1 # 5)) in
    if Qeq_bool v (inject_Z (Qfloor v)) && negb (Qeq_bool u (1 # 2)) then None
    else Some (Z.to_nat (Qfloor v)).

  Fixpoint take (n : nat) (tape : list Q) : option (list Q * list Q) :=
    match n with
    | O => Some ([], tape)
    | S n' => match tape with
              | [] => None
              | x :: t => match take n' t with Some (a, b) => Some (x :: a, b) | None => None end
              end
    end.

  Record hstate := mkHS { hs_mass : mass; hs_eps : Q; hs_steps : nat;
                          hs_bounds : option (list Q * list Q);
                          hs_theta : list (list Q); hs_probs : list Q; hs_leaps : list nat }.

  Fixpoint hmc_attempts (fuel : nat) (s : hstate) (n : nat) (t0 : list Q) (p_old : Q)
           (tape : list Q) (taken : nat) (ev : list event)
    : res (list Q * Q * nat * list Q * list event) :=
    match fuel with
    | O => Stuck                      (* max_attempts exhausted: the code raises *)
    | S fuel' =>
        match take n tape with
        | None => OutOfTape
        | Some (z, tape1) =>
            let r0 := momentum (hs_mass s) z in
            let H0 := kinetic (hs_mass s) r0 - p_old in
            match tape1 with
            | [] => OutOfTape
            | u1 :: tape2 =>
                match hmc_nsteps (hs_steps s) u1 with
                | None => Undecided
                | Some ns =>
                    let '(t, r) := leapfrog (hs_bounds s) (hs_mass s) (hs_eps s) ns t0 r0 in
                    let p := tlogp t in
                    let H := kinetic (hs_mass s) r - p in
                    let d := H0 - H in
                    let ev' := (t, p) :: ev in
                    if Qle_bool 0 d then Ok (t, p, (taken + ns)%nat, tape2, ev')
                    else match tape2 with
                         | [] => OutOfTape
                         | u2 :: tape3 =>
                             match decide_accept u2 d with
                             | Some true => Ok (t, p, (taken + ns)%nat, tape3, ev')
                             | Some false =>
                                 hmc_attempts fuel' s n t0 p_old tape3 (taken + ns)%nat ev'
                             | None => Undecided
                             end
                         end
                end
            end
        end
    end.

  Definition hmc_step (max_attempts : nat) (s : hstate) (tape : list Q)
    : res (hstate * list Q * list event) :=
    match hs_theta s, hs_probs s with
    | t0 :: _, p_old :: _ =>
        match hmc_attempts max_attempts s (length t0) t0 p_old tape 0 [] with
        | Ok (t, p, taken, tape', ev) =>
            Ok (mkHS (hs_mass s) (hs_eps s) (hs_steps s) (hs_bounds s)
                     (t :: hs_theta s) (p :: hs_probs s) (taken :: hs_leaps s), tape', rev ev)
        | Undecided => Undecided | OutOfTape => OutOfTape | Stuck => Stuck
        end
    | _, _ => Stuck
    end.
End Sampler.

(* ================= Ensemble (affine-invariant stretch move) ================= *)
Section Ensemble.
  Variable logp : list Q -> Q.
  Definition elogp (x : list Q) : Q := Qred (logp x).     (* no temperature *)

  Record estate := mkES { es_pos : list (list Q); es_probs : list Q;
                          es_bounds : option (list Q * list Q);
                          es_xlwr : Q; es_xwidth : Q; es_max_attempts : nat;
                          es_failed : nat }.

  Fixpoint qpow (z : Q) (n : nat) : Q := match n with O => 1 | S n' => z * qpow z n' end.

  (* stretch: Y = X_j + z (X_i - X_j)  (Goodman & Weare) ; pinned: X_i + z (X_j - X_i) *)
  Definition stretch (pinned : bool) (xi xj : list Q) (z : Q) : list Q :=
    if pinned then vadd xi (vscale z (vsub xj xi)) else vadd xj (vscale z (vsub xi xj)).

  Definition list_set {A} (i : nat) (v : A) (l : list A) : list A :=
    firstn i l ++ match skipn i l with [] => [] | _ :: t => v :: t end.

  (* one walker: up to max_attempts proposals *)
  Fixpoint ens_walker (pinned : bool) (fuel : nat) (s : estate) (i : nat) (tape : list Q)
           (ev : list event) : res (estate * list Q * list event) :=
    match fuel with
    | O => Ok (mkES (es_pos s) (es_probs s) (es_bounds s) (es_xlwr s) (es_xwidth s)
                    (es_max_attempts s) (S (es_failed s)), tape, ev)
    | S fuel' =>
        match tape with
        | k :: u1 :: tape2 =>
            let nw := length (es_pos s) in
            let j := ((Z.to_nat (Qfloor k)) + i) mod nw in
            let x := es_xlwr s + es_xwidth s * u1 in
            let z := (1 # 2) * (x * x) in
            let xi := nth i (es_pos s) [] in
            let xj := nth j (es_pos s) [] in
            let Y := vred (process (es_bounds s) (stretch pinned xi xj z)) in
            let p := elogp Y in
            let ev' := (Y, p) :: ev in
            match tape2 with
            | [] => OutOfTape
            | u2 :: tape3 =>
                (* u2 <= exp((n-1) ln z + p - P_i)  <=>  u2 / z^(n-1) <= exp(p - P_i) *)
                let zp := qpow z (length xi - 1) in
                match decide_accept_any (u2 / zp) (p - nth i (es_probs s) 0) with
                | Some true =>
                    Ok (mkES (list_set i Y (es_pos s)) (list_set i p (es_probs s)) (es_bounds s)
                             (es_xlwr s) (es_xwidth s) (es_max_attempts s) (es_failed s), tape3, ev')
                | Some false => ens_walker pinned fuel' s i tape3 ev'
                | None => Undecided
                end
            end
        | _ => OutOfTape
        end
    end.

  Fixpoint ens_walkers (pinned : bool) (todo : nat) (i : nat) (s : estate) (tape : list Q)
           (ev : list event) : res (estate * list Q * list event) :=
    match todo with
    | O => Ok (s, tape, ev)
    | S todo' =>
        match ens_walker pinned (es_max_attempts s) s i tape ev with
        | Ok (s', tape', ev') => ens_walkers pinned todo' (S i) s' tape' ev'
        | Undecided => Undecided | OutOfTape => OutOfTape | Stuck => Stuck
        end
    end.

  (* __advance_all: failed_updates.append(0); every walker in turn *)
  Definition ens_iteration (pinned : bool) (s : estate) (tape : list Q)
    : res (estate * list Q * list event) :=
    let s0 := mkES (es_pos s) (es_probs s) (es_bounds s) (es_xlwr s) (es_xwidth s)
                   (es_max_attempts s) 0 in
    match ens_walkers pinned (length (es_pos s)) 0 s0 tape [] with
    | Ok (s', tape', ev) => Ok (s', tape', rev ev)
    | Undecided => Undecided | OutOfTape => OutOfTape | Stuck => Stuck
    end.
End Ensemble.

(* ================= correspondence interface ================= *)
(* result codes: 0 agree, 1 disagree, 2 undecided (a uniform draw fell inside the
   exp enclosure gap), 3 tape exhausted / stuck *)
Definition Qclose (tol a b : Q) : bool :=
  Qle_bool (Qabs (a - b)) (tol * (1 + Qabs b)).
Fixpoint vclose (tol : Q) (a b : list Q) : bool :=
  match a, b with
  | [], [] => true
  | x :: a', y :: b' => Qclose tol x y && vclose tol a' b'
  | _, _ => false
  end.
Fixpoint evclose (tol : Q) (a b : list event) : bool :=
  match a, b with
  | [], [] => true
  | (x, p) :: a', (y, q) :: b' => vclose tol x y && Qclose tol p q && evclose tol a' b'
  | _, _ => false
  end.
Fixpoint mclose (tol : Q) (a b : list (list Q)) : bool :=
  match a, b with
  | [], [] => true
  | x :: a', y :: b' => vclose tol x y && mclose tol a' b'
  | _, _ => false
  end.
Fixpoint nat_list_eqb (a b : list nat) : bool :=
  match a, b with
  | [], [] => true
  | x :: a', y :: b' => Nat.eqb x y && nat_list_eqb a' b'
  | _, _ => false
  end.

Definition code_of {A} (r : res A) (ok : A -> bool) : nat :=
  match r with
  | Ok a => if ok a then 0%nat else 1%nat
  | Undecided => 2%nat
  | OutOfTape => 3%nat
  | Stuck => 3%nat
  end.

(* quadratic posterior description *)
Record qpost := mkQP { qp_a : list Q; qp_m : list Q; qp_c : list (nat * nat * Q) }.
Definition qlogp (P : qpost) := quad (qp_a P) (qp_m P) (qp_c P).
Definition qgrad (P : qpost) := quad_grad (qp_a P) (qp_m P) (qp_c P).

(* Gibbs / Metropolis: one observed take_step.
   pre-state: params (sigma, kind, try_count, max_tries), last sample x, probs[-1] p;
   observed: new sample, new probs[-1], evaluation log, sigmas afterwards, unread tape length *)
Record gobs := mkGO { go_x : list Q; go_p : Q; go_events : list event; go_sigmas : list Q }.

Definition gibbs_ok (tol : Q) (o : gobs) (r : gstate * list Q * list event) : bool :=
  let '(s, tape, ev) := r in
  match gs_samples s, gs_probs s with
  | x :: _, p :: _ =>
      vclose tol x (go_x o) && Qclose tol p (go_p o) && evclose tol ev (go_events o) &&
      vclose tol (map gp_sigma (gs_params s)) (go_sigmas o) &&
      forallb (fun par => Nat.eqb (gp_try par) 0) (gs_params s) &&
      Nat.eqb (length tape) 0
  | _, _ => false
  end.

(* the pre-state must itself be well formed: the stored log-probability of the
   current point is the tempered log-density of that point (the C03 invariant the
   C01 decision theorems rest on) *)
Definition pre_ok (tol : Q) (P : qpost) (beta : Q) (x : list Q) (p : Q) : bool :=
  Qclose tol p (tlogp (qlogp P) beta x).

Definition guard (b : bool) (c : nat) : nat := if b then c else 1%nat.

Definition check_gibbs (tol : Q) (P : qpost) (beta : Q) (pars : list gparam) (x : list Q) (p : Q)
           (tape : list Q) (o : gobs) : nat :=
  guard (pre_ok tol P beta x p)
        (code_of (gibbs_step (qlogp P) beta (mkGS pars [x] [p]) tape) (gibbs_ok tol o)).

Definition check_metro (tol : Q) (P : qpost) (beta : Q) (pars : list gparam) (x : list Q) (p : Q)
           (tape : list Q) (o : gobs) : nat :=
  guard (pre_ok tol P beta x p)
        (code_of (metro_step (qlogp P) beta (mkGS pars [x] [p]) tape) (gibbs_ok tol o)).

Definition pca_ok (tol : Q) (o : gobs) (r : pstate * list Q * list event) : bool :=
  let '(s, tape, ev) := r in
  match ps_samples s, ps_probs s with
  | x :: _, p :: _ =>
      vclose tol x (go_x o) && Qclose tol p (go_p o) && evclose tol ev (go_events o) &&
      Nat.eqb (length tape) 0
  | _, _ => false
  end.

Definition check_pca (tol : Q) (P : qpost) (beta : Q) (dirs : list (list Q)) (sigmas : list Q)
           (bounds : option (list Q * list Q)) (x : list Q) (p : Q) (tape : list Q) (o : gobs) : nat :=
  guard (pre_ok tol P beta x p)
        (code_of (pca_step (qlogp P) beta (mkPS dirs sigmas bounds [x] [p]) tape) (pca_ok tol o)).

Record hobs := mkHO { ho_t : list Q; ho_p : Q; ho_events : list event; ho_leaps : nat }.

Definition hmc_ok (tol : Q) (o : hobs) (r : hstate * list Q * list event) : bool :=
  let '(s, tape, ev) := r in
  match hs_theta s, hs_probs s, hs_leaps s with
  | t :: _, p :: _, l :: _ =>
      vclose tol t (ho_t o) && Qclose tol p (ho_p o) && evclose tol ev (ho_events o) &&
      Nat.eqb l (ho_leaps o) && Nat.eqb (length tape) 0
  | _, _, _ => false
  end.

Definition check_hmc (tol : Q) (P : qpost) (beta : Q) (m : mass) (eps : Q) (steps max_attempts : nat)
           (bounds : option (list Q * list Q)) (t0 : list Q) (p : Q) (tape : list Q) (o : hobs) : nat :=
  guard (pre_ok tol P beta t0 p)
        (code_of (hmc_step (qlogp P) beta (qgrad P) max_attempts
                           (mkHS m eps steps bounds [t0] [p] [0%nat]) tape) (hmc_ok tol o)).

Record eobs := mkEO { eo_pos : list (list Q); eo_probs : list Q; eo_events : list event;
                      eo_failed : nat }.

Definition ens_ok (tol : Q) (o : eobs) (r : estate * list Q * list event) : bool :=
  let '(s, tape, ev) := r in
  mclose tol (es_pos s) (eo_pos o) && vclose tol (es_probs s) (eo_probs o) &&
  evclose tol ev (eo_events o) && Nat.eqb (es_failed s) (eo_failed o) && Nat.eqb (length tape) 0.

(* the cached stretch-sampling constants must be the ones of the sampler's alpha:
   x_lwr = sqrt(2/alpha), x_lwr + x_width = sqrt(2 alpha)  (compared through their squares) *)
Definition stretch_consts_ok (alpha : Q) (s : estate) : bool :=
  let tol := 1 # 1000000000000 in
  Qle_bool 0 (es_xlwr s) && Qle_bool 0 (es_xwidth s) &&
  Qclose tol (es_xlwr s * es_xlwr s) (2 / alpha) &&
  Qclose tol ((es_xlwr s + es_xwidth s) * (es_xlwr s + es_xwidth s)) (2 * alpha).

Definition ens_pre_ok (tol : Q) (P : qpost) (s : estate) : bool :=
  vclose tol (es_probs s) (map (elogp (qlogp P)) (es_pos s)).

Definition check_ens (pinned : bool) (tol : Q) (P : qpost) (alpha : Q) (s : estate) (tape : list Q) (o : eobs) : nat :=
  guard (stretch_consts_ok alpha s && ens_pre_ok tol P s)
        (code_of (ens_iteration (qlogp P) pinned s tape) (ens_ok tol o)).

(* indices of cases whose code is c *)
Fixpoint with_code (c : nat) (codes : list nat) (i : nat) : list nat :=
  match codes with
  | [] => []
  | x :: t => if Nat.eqb x c then i :: with_code c t (S i) else with_code c t (S i)
  end.
