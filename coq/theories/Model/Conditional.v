(* Executable model over Q of inference/approx/conditional.py (repaired tree;
   the pinned weights are kept as weights_pinned).  No proofs here.

   code line (conditional.py)                       definition
   ------------------------------------------------------------------------
   66-67   trapezium_near_zero                       trap_near_zero
   82      abs(dh) < 1e-5                            near_zero (tol = the double 1e-5)
   110     dx = x[1:] - x[:-1]                       diffs
   111-125 ValueError checks                         pls_valid
   127     means                                     cell_means
   128     delta                                     cell_deltas
   129-130 weights (pinned: means / dx)              weights_pinned
           weights (repaired: means * dx)            weights
   132     rng.choice(p=weights)  -> scripted k
   134-135 x[k] + T(u, delta[k]) * dx[k]             cell_of, cell_point
   42-58   binary_search                             bsearch
   139-150 six mode-refinement rounds                refine_step, refine_n
   153-158 p_mode, p_target, inds, lwr/upr_ind       mode_of, above, lwr_ind, upr_ind
   161-171 threshold crossing                        edge_lwr, edge_upr
   173     linspace                                  linspace
   174     grid evaluation                           (log only)
   176     p_cond /= simpson(p_cond, x=x_cond)        simpson (scipy 1.15 composite rule,
                                                      odd and even number of points), normalise
   222-225 search points of get_conditionals         search_points

   `func` (the 1-D conditional log-density) is a parameter; exp() of the grid
   values is not modelled here: the normalisation takes the exp-ed table as input. *)
From Coq Require Import List QArith Qabs Qminmax Bool Arith.
Import ListNotations.
Open Scope Q_scope.

(* ---------------- piecewise_linear_sample ---------------- *)
Fixpoint diffs (x : list Q) : list Q :=
  match x with
  | a :: ((b :: _) as t) => (b - a) :: diffs t
  | _ => []
  end.

Fixpoint cell_means (p : list Q) : list Q :=
  match p with
  | a :: ((b :: _) as t) => ((1 # 2) * (b + a)) :: cell_means t
  | _ => []
  end.

Fixpoint cell_deltas (p : list Q) : list Q :=
  match p with
  | a :: ((b :: _) as t) => ((1 # 2) * (b - a) / ((1 # 2) * (b + a))) :: cell_deltas t
  | _ => []
  end.

Fixpoint map2 {A B C} (f : A -> B -> C) (l1 : list A) (l2 : list B) : list C :=
  match l1, l2 with
  | a :: l1', b :: l2' => f a b :: map2 f l1' l2'
  | _, _ => []
  end.

Definition Qsum (l : list Q) : Q := fold_right Qplus 0 l.

Definition normalise (w : list Q) : list Q := map (fun v => v / Qsum w) w.

(* mass of the piecewise-linear interpolant on each cell *)
Definition cell_masses (x p : list Q) : list Q := map2 Qmult (cell_means p) (diffs x).

Definition weights (x p : list Q) : list Q := normalise (cell_masses x p).

(* pinned tree, conditional.py:129 *)
Definition weights_pinned (x p : list Q) : list Q :=
  normalise (map2 Qdiv (cell_means p) (diffs x)).

Definition pls_valid (x p : list Q) : bool :=
  forallb (fun d => negb (Qle_bool d 0)) (diffs x) && forallb (fun v => Qle_bool 0 v) p.

Definition trap_near_zero (u d : Q) : Q := u + (1 - u) * u * d.
Definition near_zero (tol d : Q) : bool := negb (Qle_bool tol (Qabs d)).

(* the chosen cell: left end, width, slope parameter *)
Definition cell_of (x p : list Q) (k : nat) : Q * Q * Q :=
  (nth k x 0, nth k (diffs x) 0, nth k (cell_deltas p) 0).

(* the returned sample once the transform value t in [0,1] is known *)
Definition cell_point (c : Q * Q * Q) (t : Q) : Q := fst (fst c) + t * snd (fst c).

(* ---------------- evaluate_conditional ---------------- *)
Section Eval.
Variable func : Q -> Q.

Fixpoint argmax_from (best : Q) (bi i : nat) (l : list Q) : nat :=
  match l with
  | [] => bi
  | a :: l' => if Qlt_le_dec best a then argmax_from a i (S i) l' else argmax_from best bi (S i) l'
  end.
Definition argmax (l : list Q) : nat :=
  match l with [] => 0%nat | a :: l' => argmax_from a 0 1 l' end.

Definition table := list (Q * Q).     (* (x, p) pairs in grid order *)

(* t[i]; NumPy raises on an out-of-range index (never reached with >= 3 points); the
   model returns the head *)
Definition tnth (t : table) (i : nat) : Q * Q := nth i t (hd (0, 0) t).

Definition ref_ind (t : table) : nat :=
  Nat.min (Nat.max (argmax (map snd t)) 1) (length t - 2).

Definition ref_pts (t : table) : Q * Q :=
  let i := ref_ind t in
  let xi := fst (tnth t i) in
  ((1 # 2) * (fst (tnth t (i - 1)) + xi), (1 # 2) * (fst (tnth t (i + 1)) + xi)).

Definition refine_step (t : table) : table :=
  let i := ref_ind t in
  let '(x1, x2) := ref_pts t in
  firstn i t ++ [(x1, func x1)] ++ [tnth t i] ++ [(x2, func x2)] ++ skipn (i + 1) t.

Fixpoint refine_n (n : nat) (t : table) : table :=
  match n with O => t | S n' => refine_n n' (refine_step t) end.

Fixpoint refine_log (n : nat) (t : table) : list Q :=
  match n with
  | O => []
  | S n' => let '(x1, x2) := ref_pts t in x1 :: x2 :: refine_log n' (refine_step t)
  end.

Definition between (a t b : Q) : bool :=
  (negb (Qle_bool t a) && negb (Qle_bool b t)).      (* a < t < b *)

(* binary_search: returns (x_new, evaluation log) *)
Fixpoint bsearch (fuel : nat) (tol target x1 y1 x2 y2 : Q) : Q * list Q :=
  match fuel with
  | O => (x1, [])
  | S f =>
      let xn := (1 # 2) * (x1 + x2) in
      let yn := func xn in
      if negb (Qle_bool tol (Qabs (yn - target))) then (xn, [xn])
      else match f with
           | O => (xn, [xn])
           | S _ =>
               let r := if between y1 target yn || between yn target y1
                        then bsearch f tol target x1 y1 xn yn
                        else bsearch f tol target xn yn x2 y2 in
               (fst r, xn :: snd r)
           end
  end.

Definition list_max (l : list Q) : Q :=
  match l with [] => 0 | a :: l' => fold_left Qmax l' a end.

Fixpoint first_above (thr : Q) (i : nat) (l : list Q) : option nat :=
  match l with
  | [] => None
  | a :: l' => if Qlt_le_dec thr a then Some i else first_above thr (S i) l'
  end.

Fixpoint last_above (thr : Q) (i : nat) (l : list Q) (acc : option nat) : option nat :=
  match l with
  | [] => acc
  | a :: l' => last_above thr (S i) l' (if Qlt_le_dec thr a then Some i else acc)
  end.

Definition threshold : Q := 8.

Record edges := mk_edges { e_lwr : Q; e_upr : Q; e_mode : Q; e_log : list Q }.

Definition find_edges (tol : Q) (t : table) : edges :=
  let p := map snd t in
  let pm := list_max p in
  let tgt := pm - threshold in
  let fi := match first_above tgt 0 p with Some i => i | None => 0%nat end in
  let la := match last_above tgt 0 p None with Some i => i | None => 0%nat end in
  let li := Nat.max (fi - 1) 0 in
  let ui := Nat.min (la + 1) (length t - 1) in
  let gx i := fst (tnth t i) in
  let gp i := snd (tnth t i) in
  let lw := if Qle_bool tgt (gp li) then (gx li, [])
            else bsearch 20 tol tgt (gx li) (gp li) (gx (li + 1)%nat) (gp (li + 1)%nat) in
  let up := if Qle_bool tgt (gp ui) then (gx ui, [])
            else bsearch 20 tol tgt (gx (ui - 1)%nat) (gp (ui - 1)%nat) (gx ui) (gp ui) in
  mk_edges (fst lw) (fst up) pm (snd lw ++ snd up).

Fixpoint linspace_from (a step : Q) (i n : nat) : list Q :=
  match n with
  | O => []
  | S n' => (a + inject_Z (Z.of_nat i) * step) :: linspace_from a step (S i) n'
  end.

(* numpy.linspace(a, b, n), n >= 2: a + i*step, last point set to b *)
Definition linspace (a b : Q) (n : nat) : list Q :=
  let step := (b - a) / inject_Z (Z.of_nat (n - 1)) in
  linspace_from a step 0 (n - 1) ++ [b].

(* the whole search: grid, mode value, and every point func was asked for, in order *)
Definition evaluate_search (tol : Q) (points : list Q) (grid_size : nat)
  : list Q * Q * list Q :=
  let t0 := map (fun x => (x, func x)) points in
  let t6 := refine_n 6 t0 in
  let e := find_edges tol t6 in
  let g := linspace (e_lwr e) (e_upr e) grid_size in
  (g, e_mode e, points ++ refine_log 6 t0 ++ e_log e ++ g).

End Eval.

(* ---------------- scipy.integrate.simpson(y, x=x) ---------------- *)
Definition simpson_basic (x0 x1 x2 y0 y1 y2 : Q) : Q :=
  let h0 := x1 - x0 in
  let h1 := x2 - x1 in
  let hs := h0 + h1 in
  hs / 6 * (y0 * (2 - h1 / h0) + y1 * (hs * (hs / (h0 * h1))) + y2 * (2 - h0 / h1)).

Definition simpson_last (h0 h1 y1 y2 y3 : Q) : Q :=
  let alpha := (2 * h1 * h1 + 3 * h0 * h1) / (6 * (h1 + h0)) in
  let beta := (h1 * h1 + 3 * h0 * h1) / (6 * h0) in
  let eta := (h1 * h1 * h1) / (6 * h0 * (h0 + h1)) in
  alpha * y3 + beta * y2 - eta * y1.

Fixpoint simpson (x y : list Q) : Q :=
  match x, y with
  | x0 :: x1 :: ((x2 :: xr) as xt), y0 :: y1 :: ((y2 :: yr) as yt) =>
      simpson_basic x0 x1 x2 y0 y1 y2 +
      match xr, yr with
      | [x3], [y3] => simpson_last (x2 - x1) (x3 - x2) y1 y2 y3
      | _, _ => simpson xt yt
      end
  | [x0; x1], [y0; y1] => (1 # 2) * (x1 - x0) * (y0 + y1)
  | _, _ => 0
  end.

Definition normalise_by_simpson (x e : list Q) : list Q :=
  map (fun v => v / simpson x e) e.

(* ---------------- get_conditionals: the search points ---------------- *)
Fixpoint insert_sorted (c : Q) (l : list Q) : list Q :=       (* searchsorted (left) + insert *)
  match l with
  | [] => [c]
  | a :: l' => if Qle_bool c a then c :: a :: l' else a :: insert_sorted c l'
  end.

Definition search_points (lo hi c : Q) (n : nat) : list Q :=
  let pts := linspace lo hi n in
  if existsb (Qeq_bool c) pts then pts else insert_sorted c pts.

(* ---------------- checkers for the generated case files ---------------- *)
Fixpoint Qlist_eqb (a b : list Q) : bool :=
  match a, b with
  | [], [] => true
  | x :: a', y :: b' => Qeq_bool x y && Qlist_eqb a' b'
  | _, _ => false
  end.

Definition Qclose (tol a b : Q) : bool := Qle_bool (Qabs (a - b)) tol.

Fixpoint Qlist_close (tol : Q) (a b : list Q) : bool :=
  match a, b with
  | [], [] => true
  | x :: a', y :: b' => Qclose (tol * Qabs y) x y && Qlist_close tol a' b'
  | _, _ => false
  end.

(* piecewise_linear_sample: grid, table, observed p= vector, and per draw
   (cell k, u, observed delta-free data):  the observed weights must equal the
   model's within rtol (the division by the sum is the only inexact step), and
   for every draw in the near-zero branch the observed sample must equal the
   model's exactly; for the other draws the cell data are returned to the
   harness through the interval goals. *)
Definition pls_case := (list Q * list Q * Q * list Q * Q * list (nat * Q * Q))%type.

Definition check_draw (rtol nz_tol : Q) (x p : list Q) (d : nat * Q * Q) : bool :=
  let '(k, u, obs) := d in
  let c := cell_of x p k in
  Qle_bool (fst (fst c)) obs && Qle_bool obs (fst (fst c) + snd (fst c)) &&
  (if near_zero nz_tol (snd c)
   then Qclose (rtol * (Qabs obs + snd (fst c))) (cell_point c (trap_near_zero u (snd c))) obs
   else true).

Definition check_pls_case (c : pls_case) : bool :=
  let '(x, p, rtol, obs_w, nz_tol, draws) := c in
  pls_valid x p && Qlist_close rtol (weights x p) obs_w
  && forallb (check_draw rtol nz_tol x p) draws.

Definition check_pls_case_pinned (c : pls_case) : bool :=
  let '(x, p, rtol, obs_w, nz_tol, draws) := c in
  pls_valid x p && Qlist_close rtol (weights_pinned x p) obs_w.

(* evaluate_conditional with func given as the recorded table of (point, value):
   the model must ask for exactly the recorded points in the recorded order and
   produce exactly the observed grid *)
Fixpoint lookup (tbl : list (Q * Q)) (x : Q) : Q :=
  match tbl with
  | [] => 0
  | (a, v) :: t => if Qeq_bool a x then v else lookup t x
  end.

Definition eval_case := (Q * list Q * nat * list (Q * Q) * list Q)%type.

Definition check_eval_case (c : eval_case) : bool :=
  let '(tol, points, gs, tbl, obs_grid) := c in
  let '(g, pm, log) := evaluate_search (lookup tbl) tol points gs in
  Qlist_eqb log (map fst tbl) && Qlist_eqb g obs_grid.

(* get_conditionals, one variable: bounds, conditioning coordinate, number of search
   points, grid size, recorded (point, value) table, observed grid *)
Definition cond_case := (Q * Q * Q * Q * nat * nat * list (Q * Q) * list Q)%type.
Definition check_cond_case (c : cond_case) : bool :=
  let '(tol, lo, hi, cpt, n, gs, tbl, obs_grid) := c in
  let '(g, pm, log) := evaluate_search (lookup tbl) tol (search_points lo hi cpt n) gs in
  Qlist_eqb log (map fst tbl) && Qlist_eqb g obs_grid.

(* the model's simpson against scipy's on a table: (rtol, x, y, observed value) *)
Definition simpson_case := (Q * list Q * list Q * Q)%type.
Definition check_simpson_case (c : simpson_case) : bool :=
  let '(rtol, x, y, obs) := c in Qclose (rtol * Qabs obs) (simpson x y) obs.

(* the returned conditional integrates to one under that rule: (rtol, x_cond, p_cond) *)
Definition unit_case := (Q * list Q * list Q)%type.
Definition check_unit_case (c : unit_case) : bool :=
  let '(rtol, x, pc) := c in Qclose rtol (simpson x pc) 1.

Fixpoint failing {A} (chk : A -> bool) (l : list A) (i : nat) : list nat :=
  match l with
  | [] => []
  | c :: l' => if chk c then failing chk l' (S i) else i :: failing chk l' (S i)
  end.
