(* Property C08, extension: how a chain is CONSTRUCTED, and the pure (sequential)
   effect of a whole history of take_steps / swap / advance / return_chains calls.
   No proofs here.

   Model/Tempering.v describes the exchange machinery on chains whose stored
   log-probability is already beta * L(point).  Where that comes from for a chain
   that has not taken a step yet is the constructor of the chain class:

   code                                               model
   -------------------------------------------------  ---------------------------
   gibbs.py  MetropolisChain.__init__  l.266           c_beta      (inv_temp = 1.0 / temperature)
             l.286  self.probs.append(                 fresh_chain (history = [(start,
                      self.posterior(self.get_last())                logp start * beta)])
                      * self.inv_temp)
             GibbsChain, PcaChain: the same __init__ through inheritance
             (pca.py l.54: PcaChain.__init__ calls the parent constructor with its arguments)
   hmc/__init__.py  l.84   self.inv_temp = 1.0 / temperature
                    l.92   self.probs = [self.posterior(start) * self.inv_temp]
   harness/lib/c08lib.py StubChain.__init__            Tempering.stub_chain (= fresh_chain
                                                       with the quadratic log-density)

   `fresh_chain_untempered` is the variant in which the factor inv_temp is lost
   at construction (probs[0] = posterior(start)); it is only used as a refuted
   mutation witness.

   The second part gives the pure effect of the calls on the vector of chains:
   what the process system of Model/Tempering.v computes when the messages of each
   call are delivered in order (by C08_schedule_independent the order is
   immaterial).  `check_pure` compares it with the implementation's returned
   chains and counters on every generated case, next to `check_case` (which runs
   the process system itself), so both models are tied to the code by the run.
*)
From Coq Require Import List Arith ZArith QArith Bool.
From IT Require Import Common.ExpBounds Model.Tempering.
Import ListNotations.
Open Scope Q_scope.

(* ---------------------------------------------------------------------- *)
(* construction                                                            *)
(* ---------------------------------------------------------------------- *)
(* the chain as its constructor leaves it: one sample (the start point) whose
   stored log-probability is posterior(start) * inv_temp.  tape / quad / replay
   only parametrise the step function used in executions. *)
Definition fresh_chain (logp : point -> Q) (beta : Q) (start : point)
                       (tape : list (point * Q)) (quad : list (Q * Q)) (replay : bool) : chain :=
  mkChain beta [(start, Qred (logp start * beta))] tape quad replay.

(* a real sampler (MetropolisChain / GibbsChain / PcaChain / HamiltonianChain) on the
   quadratic log-density of the harness: constructed by the model, stepped by its
   observed tape *)
Definition real_chain (beta : Q) (start : point) (tape : list (point * Q)) (quad : list (Q * Q)) : chain :=
  fresh_chain (quad_logp quad) beta start tape quad true.

(* mutation: the constructor forgets the factor inv_temp *)
Definition fresh_chain_untempered (logp : point -> Q) (beta : Q) (start : point)
                       (tape : list (point * Q)) (quad : list (Q * Q)) (replay : bool) : chain :=
  mkChain beta [(start, Qred (logp start))] tape quad replay.

(* ---------------------------------------------------------------------- *)
(* the pure effect of a history of calls                                   *)
(* ---------------------------------------------------------------------- *)
(* swap(), l.195-231, for given proposed pairs: positions are fetched from all
   chains first, every decision of the round uses those, the update messages are
   delivered afterwards.  `betas` is ParallelTempering.inv_temps, fixed at
   construction of the coordinator (l.112). *)
Definition swap_round (take_step : chain -> chain) (betas : list Q) (cs : list chain)
                      (pairs : list pair) (st : cstate) : list chain * cstate :=
  let data := map (fun c => (get_last c, last_prob c)) cs in
  let '(ms, st') := swap_pairs betas data pairs st in
  (fold_left (deliver take_step) ms cs, st').

Definition pure_swap (take_step : chain -> chain) (betas : list Q) (cs : list chain) (st : cstate)
  : list chain * cstate :=
  let '(pairs, choices', draws') := tight_pairs (length cs) (cs_choices st) (cs_draws st) in
  let st1 := mkCstate (cs_att st ++ pairs) (cs_succ st) choices' draws' (cs_unis st)
                      (cs_snaps st) (cs_undecided st) in
  swap_round take_step betas cs pairs st1.

Definition pure_take_steps (take_step : chain -> chain) (n : nat) (cs : list chain) : list chain :=
  map (fun c => Nat.iter n take_step c) cs.

Fixpoint pure_ops (take_step : chain -> chain) (betas : list Q) (ops : list op)
                  (cs : list chain) (st : cstate) : list chain * cstate :=
  match ops with
  | [] => (cs, st)
  | TakeSteps n :: t => pure_ops take_step betas t (pure_take_steps take_step n cs) st
  | Swap :: t => let '(cs', st') := pure_swap take_step betas cs st in pure_ops take_step betas t cs' st'
  end.

Fixpoint pure_calls (take_step : chain -> chain) (betas : list Q) (calls : list call)
                    (cs : list chain) (st : cstate) : list chain * cstate :=
  match calls with
  | [] => (cs, st)
  | CTakeSteps n :: t => pure_calls take_step betas t (pure_take_steps take_step n cs) st
  | CSwap :: t =>
      let '(cs', st') := pure_swap take_step betas cs st in pure_calls take_step betas t cs' st'
  | CAdvance n s :: t =>
      let '(cs', st') := pure_ops take_step betas (advance_plan n s) cs st in
      pure_calls take_step betas t cs' st'
  | CReturnChains :: t =>
      pure_calls take_step betas t cs
        (mkCstate (cs_att st) (cs_succ st) (cs_choices st) (cs_draws st) (cs_unis st)
                  (cs :: cs_snaps st) (cs_undecided st))
  end.

(* a whole session: chains as constructed, then the calls *)
Definition pure_session (take_step : chain -> chain) (chains : list chain) (calls : list call)
                        (choices draws : list nat) (unis : list Q) : list chain * cstate :=
  pure_calls take_step (map c_beta chains) calls chains (mkCstate [] [] choices draws unis [] 0).

(* the invariant the exchange rule relies on, for one chain: C03's alignment,
   a non-empty history and a non-zero inverse temperature *)
Definition good (logp : point -> Q) (c : chain) : Prop :=
  aligned logp c /\ c_hist c <> [] /\ ~ c_beta c == 0.

(* ---------------------------------------------------------------------- *)
(* correspondence: the pure model against the observed results             *)
(* ---------------------------------------------------------------------- *)
(* 0 = agreement; 3 = an accept decision fell into the undecided gap;
   4 = snapshots differ; 5 = attempted_swaps differ; 6 = successful_swaps differ *)
Definition check_pure (k : pt_case) : nat :=
  let N := length (k_chains k) in
  let '(_, st) := pure_session chain_step (k_chains k) (k_calls k) (k_choices k) (k_draws k) (k_unis k) in
  if negb (cs_undecided st =? 0)%nat then 3%nat
  else if negb ((length (cs_snaps st) =? length (k_snaps k))%nat &&
                forallb (fun mo => snap_eqb (fst mo) (snd mo))
                        (combine (rev (cs_snaps st)) (k_snaps k))) then 4%nat
  else if negb (matrix_eqb N 1 (cs_att st) (k_att k)) then 5%nat
  else if negb (matrix_eqb N 0 (cs_succ st) (k_succ k)) then 6%nat
  else 0%nat.

Fixpoint failing_pure_from (i : nat) (l : list pt_case) : list nat :=
  match l with
  | [] => []
  | k :: t => if (check_pure k =? 0)%nat then failing_pure_from (S i) t else i :: failing_pure_from (S i) t
  end.
Definition failing_pure (l : list pt_case) : list nat := failing_pure_from 0 l.
