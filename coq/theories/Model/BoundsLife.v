(* The life of a bounded sampler OBJECT (property C04, clause "limits given at
   construction stay in force ... limits stay in force across any interleaving of
   calls"): construction, steps, save -> load -> more steps.  No proofs here.

   A sampler that takes `bounds=` keeps its limits in TWO places:

     attr   self.bounds              what the object reports, and what save() writes
                                     as lower_bounds / upper_bounds
     hook   the post-processing selected ONCE, in the constructor, from the
            `bounds` argument:
              pca.py      :78-94    process_proposal = bounds.reflect | pass_through
              ensemble.py :73-90    process_proposal = bounds.reflect | pass_through
              hmc/__init__:103-116  run_leapfrog = bounded_leapfrog | standard_leapfrog

   The step functions of Model/Samplers.v consult only the hook (their `bounds`
   argument is the box of `process` / `bounce`); nothing in a step looks at the
   attribute.  The limits are in force while hook = the box given at construction.

     construct                     the constructor: both places from the argument
     save_lim                      save():  pca.py:212-216, ensemble.py:387-389, hmc:433-436
                                   (both keys iff self.bounds is not None)
     file_bounds / load_lim        load():  pca.py:241-255, ensemble.py:401-413, hmc:449-462
                                   (Bounds(...) iff both keys are in the file, handed to the
                                   constructor)
     load_lim_unhooked             the class of defect this model has to tell apart: load()
                                   re-builds the attribute afterwards (chain.bounds = bounds) but
                                   calls the constructor without it, so the hook is pass_through /
                                   standard_leapfrog while the object still reports, and re-saves,
                                   its limits.

   The numeric state (samples, probabilities, directions, widths, walkers ...) is
   carried through save/load unchanged here: its round trip is property C09. *)
From Coq Require Import QArith List Bool.
From IT Require Import Common.ExpBounds Model.Reflect Model.Samplers.
Import ListNotations.
Open Scope Q_scope.

Definition box : Type := (list Q * list Q)%type.            (* (lower, upper) *)

Record lim := mkLim { l_attr : option box; l_hook : option box }.

Definition construct (b : option box) : lim := mkLim b b.

Record limfile := mkLF { f_lower : option (list Q); f_upper : option (list Q) }.

Definition save_lim (l : lim) : limfile :=
  match l_attr l with
  | None => mkLF None None
  | Some (lo, hi) => mkLF (Some lo) (Some hi)
  end.

Definition file_bounds (f : limfile) : option box :=
  match f_lower f, f_upper f with
  | Some lo, Some hi => Some (lo, hi)
  | _, _ => None
  end.

Definition load_lim (f : limfile) : lim := construct (file_bounds f).
Definition load_lim_unhooked (f : limfile) : lim := mkLim (file_bounds f) None.

(* the limits of an object k save -> load round trips after `l` *)
Fixpoint lim_after (ld : limfile -> lim) (l : lim) (k : nat) : lim :=
  match k with
  | O => l
  | S k' => lim_after ld (ld (save_lim l)) k'
  end.

(* ---------- an object = limits + numeric state; histories of calls ---------- *)
Section Life.
  Variable St : Type.                                   (* numeric state of one sampler class *)
  Variable setb : option box -> St -> St.               (* the box the step function will use *)
  Variable step : St -> list Q -> res (St * list Q * list event).
  Variable ld : limfile -> lim.                         (* which load() *)

  Record obj := mkObj { o_lim : lim; o_st : St }.

  Inductive lop :=
  | LStep (tape : list Q)        (* one take_step / one ensemble iteration with these draws *)
  | LSaveLoad.                   (* obj.save(file); obj = Class.load(file, posterior) *)

  (* a step is taken with the HOOK's box, whatever the attribute says *)
  Definition obj_step (o : obj) (tape : list Q) : res (obj * list event) :=
    match step (setb (l_hook (o_lim o)) (o_st o)) tape with
    | Ok (s', _, ev) => Ok (mkObj (o_lim o) s', ev)
    | Undecided => Undecided | OutOfTape => OutOfTape | Stuck => Stuck
    end.

  Definition obj_save_load (o : obj) : obj := mkObj (ld (save_lim (o_lim o))) (o_st o).

  (* the whole history; returns the final object and every posterior evaluation made *)
  Fixpoint life (o : obj) (ops : list lop) : res (obj * list event) :=
    match ops with
    | [] => Ok (o, [])
    | LSaveLoad :: r => life (obj_save_load o) r
    | LStep tape :: r =>
        match obj_step o tape with
        | Ok (o', ev) =>
            match life o' r with
            | Ok (o'', ev') => Ok (o'', ev ++ ev')
            | Undecided => Undecided | OutOfTape => OutOfTape | Stuck => Stuck
            end
        | Undecided => Undecided | OutOfTape => OutOfTape | Stuck => Stuck
        end
    end.
End Life.

Arguments mkObj {St} _ _.
Arguments o_lim {St} _.
Arguments o_st {St} _.

(* ---------- the three sampler classes that take `bounds=` ---------- *)
Definition ps_setb (b : option box) (s : pstate) : pstate :=
  mkPS (ps_dirs s) (ps_sigmas s) b (ps_samples s) (ps_probs s).
Definition hs_setb (b : option box) (s : hstate) : hstate :=
  mkHS (hs_mass s) (hs_eps s) (hs_steps s) b (hs_theta s) (hs_probs s) (hs_leaps s).
Definition es_setb (b : option box) (s : estate) : estate :=
  mkES (es_pos s) (es_probs s) b (es_xlwr s) (es_xwidth s) (es_max_attempts s) (es_failed s).

Definition pca_life (logp : list Q -> Q) (beta : Q) (ld : limfile -> lim) :=
  life pstate ps_setb (pca_step logp beta) ld.
Definition hmc_life (logp : list Q -> Q) (beta : Q) (grad : list Q -> list Q) (max_attempts : nat)
           (ld : limfile -> lim) :=
  life hstate hs_setb (hmc_step logp beta grad max_attempts) ld.
Definition ens_life (logp : list Q -> Q) (pinned : bool) (ld : limfile -> lim) :=
  life estate es_setb (ens_iteration logp pinned) ld.

(* ---------- boolean box membership (exact), for witnesses ---------- *)
Fixpoint inside_vec_b (los his xs : list Q) : bool :=
  match los, his, xs with
  | lo :: los', hi :: his', x :: xs' => inside_b lo hi x && inside_vec_b los' his' xs'
  | _, _, _ => true
  end.
Definition box_in_b (b : option box) (x : list Q) : bool :=
  match b with None => true | Some (los, his) => inside_vec_b los his x end.
Definition events_in_b (b : option box) (ev : list event) : bool :=
  forallb (fun e => box_in_b b (fst e)) ev.

(* ---------- correspondence interface ----------
   One observed step of a real object that was constructed with the box b0 and has
   since been saved and loaded k times is checked by the step checker of
   Model/Samplers.v (check_pca / check_hmc / check_ens, as a function of the box),
   given the box of the MODEL's hook after that history -- not anything read from
   the real object.  attr_code compares what the real object reports as its
   bounds with the model's attribute. *)
Definition life_code (b0 : option box) (k : nat) (chk : option box -> nat) : nat :=
  chk (l_hook (lim_after load_lim (construct b0) k)).

Fixpoint qlist_eqb (a b : list Q) : bool :=
  match a, b with
  | [], [] => true
  | x :: a', y :: b' => Qeq_bool x y && qlist_eqb a' b'
  | _, _ => false
  end.
Definition obox_eqb (a b : option box) : bool :=
  match a, b with
  | None, None => true
  | Some (l1, h1), Some (l2, h2) => qlist_eqb l1 l2 && qlist_eqb h1 h2
  | _, _ => false
  end.
Definition attr_code (b0 : option box) (k : nat) (seen : option box) : nat :=
  if obox_eqb (l_attr (lim_after load_lim (construct b0) k)) seen then 0%nat else 1%nat.
