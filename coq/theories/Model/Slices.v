(* Model of the hyper-parameter bookkeeping of inference/gp/covariance.py and
   mean.py (property C10): slices, labels, bounds.  Executable, exact (nat, string, Q),
   no proofs (see Proofs/SlicesProofs.v).

   covariance.py                                         model
   -------------                                         -----
   slice_builder(lengths)                 692-697        slice_builder  (a slice is (start, stop))
   theta[slc]                                            apply_slice
   CompositeCovariance.pass_spatial_data  55-70          composite_np / composite_slices / composite_labels
      labels  f"K{i+1}: {s}"
   CompositeCovariance.estimate_hyperpar_bounds 72-84    composite_bounds  (concatenation)
   ChangePoint.pass_spatial_data          481-505        cp_counts / cp_slices / cp_cov_slc / cp_cp_slc / cp_labels
      labels  f"ChngPnt K{i}: {lab}", f"ChngPnt{i} location", f"ChngPnt{i} width"
   ChangePoint.estimate_hyperpar_bounds   507-527        cp_bounds  (kernels' bounds, then location/width interleaved)
   SquaredExponential / RationalQuadratic / WhiteNoise /
   HeteroscedasticNoise  n_params, hyperpar_labels        se_np se_labels rq_np rq_labels wn_np wn_labels hn_np hn_labels
   mean.py  ConstantMean / LinearMean / QuadraticMean     const_labels lin_labels quad_labels (+ _np)
*)
From Coq Require Import List Arith String QArith Bool.
From Coq Require Import Numbers.DecimalString Init.Decimal.
Import ListNotations.
Open Scope nat_scope.
Open Scope string_scope.

Definition slice := (nat * nat)%type.        (* slice(start, stop) *)

(* the loop of slice_builder: `last = slices[-1].stop; slices.append(slice(last, last+L))` *)
Fixpoint slices_from (last : nat) (lengths : list nat) : list slice :=
  match lengths with
  | [] => []
  | L :: r => (last, last + L) :: slices_from (last + L) r
  end.

(* slices = [slice(0, lengths[0])]; then the loop over lengths[1:]
   (the code raises IndexError on an empty list; the model returns []) *)
Definition slice_builder (lengths : list nat) : list slice :=
  match lengths with
  | [] => []
  | L0 :: r => (0, L0) :: slices_from L0 r
  end.

(* theta[start:stop]  (NumPy/Python slicing truncates at the end of the sequence) *)
Definition apply_slice {A : Type} (s : slice) (l : list A) : list A :=
  firstn (snd s - fst s) (skipn (fst s) l).

Definition total (lengths : list nat) : nat := fold_right Nat.add 0 lengths.

(* decimal rendering of an index, as an f-string does *)
Definition dec (n : nat) : string := NilEmpty.string_of_uint (Nat.to_uint n).

(* one component as the bookkeeping sees it *)
Record comp := mkComp {
  c_np : nat;                       (* n_params *)
  c_labels : list string;           (* hyperpar_labels *)
  c_bounds : list (Q * Q)           (* bounds (after estimate_hyperpar_bounds) *)
}.

(* ---- base kernels, d = x.shape[1], n = x.shape[0] ---- *)
Definition se_np (d : nat) := d + 1.
Definition se_labels (d : nat) : list string :=
  "SqrExp log-amplitude" :: map (fun i => "SqrExp log-scale " ++ dec i) (seq 0 d).
Definition rq_np (d : nat) := d + 2.
Definition rq_labels (d : nat) : list string :=
  "RQ log-amplitude" :: "RQ log-alpha" :: map (fun i => "RQ log-scale " ++ dec i) (seq 0 d).
Definition wn_np := 1.
Definition wn_labels : list string := ["WhiteNoise log-sigma"].
Definition hn_np (n : nat) := n.
Definition hn_labels (n : nat) : list string := map (fun i => "log_sigma_" ++ dec (i + 1)) (seq 0 n).

(* ---- mean functions ---- *)
Definition const_np := 1.
Definition const_labels : list string := ["ConstantMean"].
Definition lin_np (d : nat) := 1 + d.
Definition lin_labels (d : nat) : list string :=
  "LinearMean background" :: map (fun i => "LinearMean gradient " ++ dec i) (seq 0 d).
Definition quad_np (d : nat) := 1 + 2 * d.
Definition quad_labels (d : nat) : list string :=
  "mean_background" :: map (fun i => "mean_linear_coeff_" ++ dec i) (seq 0 d)
                    ++ map (fun i => "mean_quadratic_coeff_" ++ dec i) (seq 0 d).
Definition quad_lin_slc (d : nat) : slice := (1, d + 1).
Definition quad_quad_slc (d : nat) : slice := (d + 1, 2 * d + 1).

(* ---- CompositeCovariance ---- *)
(* labels of component number i (0-based) are prefixed "K{i+1}: " *)
Fixpoint prefixed (pre : nat -> string) (i : nat) (groups : list (list string)) : list (list string) :=
  match groups with
  | [] => []
  | g :: r => map (fun s => pre i ++ s) g :: prefixed pre (S i) r
  end.

Definition composite_pre (i : nat) : string := "K" ++ dec (i + 1) ++ ": ".
Definition composite_slices (cs : list comp) : list slice := slice_builder (map c_np cs).
Definition composite_np (cs : list comp) : nat := total (map c_np cs).
Definition composite_labels (cs : list comp) : list string :=
  List.concat (prefixed composite_pre 0 (map c_labels cs)).
Definition composite_bounds (cs : list comp) : list (Q * Q) := List.concat (map c_bounds cs).
Definition composite (cs : list comp) : comp :=
  mkComp (composite_np cs) (composite_labels cs) (composite_bounds cs).

(* ---- ChangePoint ---- *)
Definition cp_counts (cs : list comp) : list nat := map c_np cs ++ repeat 2 (List.length cs - 1).
Definition cp_np (cs : list comp) : nat := total (cp_counts cs).
Definition cp_slices (cs : list comp) : list slice := slice_builder (cp_counts cs).
Definition cp_cov_slc (cs : list comp) : list slice := firstn (List.length cs) (cp_slices cs).
Definition cp_cp_slc (cs : list comp) : list slice := skipn (List.length cs) (cp_slices cs).
Definition cp_pre (i : nat) : string := "ChngPnt K" ++ dec i ++ ": ".
Definition cp_point_labels (i : nat) : list string :=
  ["ChngPnt" ++ dec i ++ " location"; "ChngPnt" ++ dec i ++ " width"].
Definition cp_labels (cs : list comp) : list string :=
  List.concat (prefixed cp_pre 0 (map c_labels cs) ++ map cp_point_labels (seq 0 (List.length cs - 1))).
(* chain.from_iterable(zip(location_bounds, width_bounds)) *)
Fixpoint interleave {A : Type} (l w : list A) : list A :=
  match l, w with
  | a :: lr, b :: wr => a :: b :: interleave lr wr
  | _, _ => []
  end.
Definition cp_bounds (cs : list comp) (loc wid : list (Q * Q)) : list (Q * Q) :=
  List.concat (map c_bounds cs) ++ interleave loc wid.
Definition changepoint (cs : list comp) (loc wid : list (Q * Q)) : comp :=
  mkComp (cp_np cs) (cp_labels cs) (cp_bounds cs loc wid).

(* --- correspondence interface --------------------------------------- *)
Definition slice_eqb (a b : slice) : bool := Nat.eqb (fst a) (fst b) && Nat.eqb (snd a) (snd b).
Fixpoint list_eqb {A : Type} (e : A -> A -> bool) (l m : list A) : bool :=
  match l, m with
  | [], [] => true
  | a :: lr, b :: mr => e a b && list_eqb e lr mr
  | _, _ => false
  end.
Definition bound_eqb (a b : Q * Q) : bool := Qeq_bool (fst a) (fst b) && Qeq_bool (snd a) (snd b).
Definition comp_eqb (a b : comp) : bool :=
  Nat.eqb (c_np a) (c_np b) && list_eqb String.eqb (c_labels a) (c_labels b)
  && list_eqb bound_eqb (c_bounds a) (c_bounds b).

(* observed composite: components (as the implementation's component objects report them),
   observed slices, observed (n_params, labels, bounds) *)
Definition check_composite (c : list comp * list slice * comp) : bool :=
  let '(cs, sl, obs) := c in
  list_eqb slice_eqb (composite_slices cs) sl && comp_eqb (composite cs) obs.

(* observed change-point: components, location bounds, width bounds, cov_slc, cp_slc, observed *)
Definition check_changepoint
  (c : list comp * list (Q * Q) * list (Q * Q) * list slice * list slice * comp) : bool :=
  let '(cs, loc, wid, cov, cps, obs) := c in
  list_eqb slice_eqb (cp_cov_slc cs) cov && list_eqb slice_eqb (cp_cp_slc cs) cps
  && comp_eqb (changepoint cs loc wid) obs.

(* base kernels / means: tag, d, n, observed n_params and labels *)
Inductive base := BSE | BRQ | BWN | BHN | BConst | BLin | BQuad.
Definition base_np (b : base) (d n : nat) : nat :=
  match b with BSE => se_np d | BRQ => rq_np d | BWN => wn_np | BHN => hn_np n
             | BConst => const_np | BLin => lin_np d | BQuad => quad_np d end.
Definition base_labels (b : base) (d n : nat) : list string :=
  match b with BSE => se_labels d | BRQ => rq_labels d | BWN => wn_labels | BHN => hn_labels n
             | BConst => const_labels | BLin => lin_labels d | BQuad => quad_labels d end.
Definition check_base (c : base * nat * nat * nat * list string) : bool :=
  let '(b, d, n, onp, olab) := c in
  Nat.eqb (base_np b d n) onp && list_eqb String.eqb (base_labels b d n) olab.

Fixpoint failing {A : Type} (chk : A -> bool) (cases : list A) (i : nat) : list nat :=
  match cases with
  | [] => []
  | c :: r => if chk c then failing chk r (S i) else i :: failing chk r (S i)
  end.
