(* Model of the maps that bring a point back inside parameter limits (property C04).

   Executable model over Q, no proofs.  Every finite double is a rational, so a
   statement for all rationals covers every representable input; on dyadic
   inputs of bounded width the code's double arithmetic is exact and the model
   is compared with it exactly (harness/props/c04.py).

   inference/mcmc/utilities.py                          model
   ---------------------------------------------------  -------------------------
   np_divmod(a, b)   (floor quotient, remainder with    (fdiv a b, fmod a b)
                      the sign of b, either sign of a)
   q % 2             (0.0 or 1.0 for either sign of q)  parity q  (Z.modulo, in {0,1})
   Bounds.width = upper - lower            :129         argument w (= hi - lo)
   Bounds.reflect                          :150-153     reflect lo w theta
     q, rem = np_divmod(theta - lower, width)
     n = q % 2
     return lower + (1 - 2*n)*rem + n*width
   Bounds.reflect_momenta                  :155-159     reflect_momenta lo w theta
     reflection = 1 - 2*n
     return lower + reflection*rem + n*width, reflection
   (arrays: the same expression element-wise)           reflect_vec / reflect_momenta_vec
   hmc/__init__.py bounded_leapfrog :178-194, zero      free_step / free_bounded_leapfrog
     force, scalar or per-parameter mass
   Bounds.inside                           :161-162     inside_b / inside_vec_b

   inference/mcmc/gibbs.py
   ---------------------------------------------------
   Parameter.boundary_proposal             :117-122     gibbs_fold lo hi w x
     d = prop - lower
     n = (d // width) % 2
     if n == 0: return lower + d % width
     else:      return upper - d % width
   Parameter.abs_proposal                  :104         abs_fold x = |x|
   Parameter.standard_proposal             :95          the raw draw itself
   raw draw  rng.normal(loc=samples[-1], scale=sigma)   raw_draw s sigma z = s + sigma*z
                                                        (z the standard-normal draw)
*)
From Coq Require Import QArith Qround Qabs ZArith List Bool.
Import ListNotations.
Open Scope Q_scope.

(* floor division and modulo as numpy / Python define them for floats *)
Definition fdiv (a b : Q) : Z := Qfloor (a / b).
Definition fmod (a b : Q) : Q := a - inject_Z (fdiv a b) * b.

(* q % 2 *)
Definition parity (q : Z) : Z := (q mod 2)%Z.

Definition reflect (lo w theta : Q) : Q :=
  let d := theta - lo in
  let q := fdiv d w in
  let rem := fmod d w in
  let n := inject_Z (parity q) in
  lo + (1 - 2 * n) * rem + n * w.

Definition reflect_momenta (lo w theta : Q) : Q * Q :=
  let d := theta - lo in
  let q := fdiv d w in
  let rem := fmod d w in
  let n := inject_Z (parity q) in
  let reflection := 1 - 2 * n in
  (lo + reflection * rem + n * w, reflection).

(* the cell index of theta: number of walls between theta and the allowed
   interval, signed (walls are at lo + k*w) *)
Definition crossings (lo w theta : Q) : Z := fdiv (theta - lo) w.

(* (-1)^q *)
Definition sign_pow (q : Z) : Q := if Z.even q then 1 else -1.

Definition gibbs_fold (lo hi w x : Q) : Q :=
  let d := x - lo in
  let n := parity (fdiv d w) in
  if (n =? 0)%Z then lo + fmod d w else hi - fmod d w.

Definition abs_fold (x : Q) : Q := Qabs x.

Definition raw_draw (s sigma z : Q) : Q := s + sigma * z.

(* hmc/__init__.py:178-194 (bounded_leapfrog) for one coordinate when the force
   vanishes (flat posterior) and the mass is scalar / per-parameter
   (get_velocity(r) = r * inv_mass):
     t += epsilon * get_velocity(r); t, reflections = reflect_momenta(t); r *= reflections
   n_steps position updates in all (n_steps - 1 in the loop, one after it); the
   half kicks add 0.5*r_step*0 and leave r as it is. *)
Definition free_step (lo w eps im : Q) (tr : Q * Q) : Q * Q :=
  let (t, r) := tr in
  let p := reflect_momenta lo w (t + eps * (r * im)) in
  (fst p, r * snd p).

Fixpoint free_bounded_leapfrog (lo w eps im : Q) (n : nat) (tr : Q * Q) : Q * Q :=
  match n with
  | O => tr
  | S n' => free_bounded_leapfrog lo w eps im n' (free_step lo w eps im tr)
  end.

(* element-wise versions (Bounds works on arrays) *)
Fixpoint reflect_vec (los ws thetas : list Q) : list Q :=
  match los, ws, thetas with
  | lo :: los', w :: ws', t :: ts' => reflect lo w t :: reflect_vec los' ws' ts'
  | _, _, _ => []
  end.

Fixpoint reflect_momenta_vec (los ws thetas : list Q) : list (Q * Q) :=
  match los, ws, thetas with
  | lo :: los', w :: ws', t :: ts' => reflect_momenta lo w t :: reflect_momenta_vec los' ws' ts'
  | _, _, _ => []
  end.

Definition inside (lo hi x : Q) : Prop := lo <= x /\ x <= hi.
Definition inside_b (lo hi x : Q) : bool := Qle_bool lo x && Qle_bool x hi.

(* every component inside [lo_i, lo_i + w_i] *)
Fixpoint inside_vec (los ws xs : list Q) : Prop :=
  match los, ws, xs with
  | lo :: los', w :: ws', x :: xs' => inside lo (lo + w) x /\ inside_vec los' ws' xs'
  | _, _, _ => True
  end.

(* --- correspondence interface --------------------------------------------- *)
Definition Qeqb (a b : Q) : bool := Qeq_bool a b.

(* one Bounds.reflect / reflect_momenta observation:
   (lo, hi, theta, position from reflect, position and momentum factor from
   reflect_momenta); the model receives w = hi - lo, which is how Bounds
   computes width *)
Definition check_reflect (c : Q * Q * Q * Q * Q * Q) : bool :=
  let '(lo, hi, theta, pos, pos_m, mom) := c in
  let w := hi - lo in
  Qeqb (reflect lo w theta) pos &&
  Qeqb (fst (reflect_momenta lo w theta)) pos_m &&
  Qeqb (snd (reflect_momenta lo w theta)) mom.

(* one coordinate of one bounded_leapfrog call with a vanishing force:
   (lo, hi, eps, inverse mass, n_steps, t0, r0, observed t, observed r) *)
Definition check_leapfrog (c : Q * Q * Q * Q * nat * Q * Q * Q * Q) : bool :=
  let '(lo, hi, eps, im, n, t0, r0, t_obs, r_obs) := c in
  let tr := free_bounded_leapfrog lo (hi - lo) eps im n (t0, r0) in
  Qeqb (fst tr) t_obs && Qeqb (snd tr) r_obs.

(* one Parameter.boundary_proposal observation:
   (lower, upper, last sample, sigma, normal draw z, observed proposal) *)
Definition check_gibbs_fold (c : Q * Q * Q * Q * Q * Q) : bool :=
  let '(lo, hi, s, sigma, z, obs) := c in
  Qeqb (gibbs_fold lo hi (hi - lo) (raw_draw s sigma z)) obs.

(* one Parameter.abs_proposal observation: (last sample, sigma, z, observed) *)
Definition check_abs (c : Q * Q * Q * Q) : bool :=
  let '(s, sigma, z, obs) := c in
  Qeqb (abs_fold (raw_draw s sigma z)) obs.

Fixpoint failing {A} (f : A -> bool) (l : list A) (i : nat) : list nat :=
  match l with
  | [] => []
  | x :: t => if f x then failing f t (S i) else i :: failing f t (S i)
  end.
