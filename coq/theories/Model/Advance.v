(* Model of advancing the samplers (property C15).

   Executable model, no proofs.

   code                                                   model
   ----                                                   -----
   take_step of GibbsChain / PcaChain / HamiltonianChain  take_step draw
     (gibbs.py:652-656, pca.py:176-180, hmc/__init__.py:159-162): one sample and
     one log-probability are appended and chain_length grows by one.  WHICH values
     are appended (proposal, accept / reject, adaptation) is the business of other
     properties; here it is an arbitrary function `draw` of the whole chain state,
     which also returns the next state of the chain's random generators.
     Histories are kept newest-first (cons instead of append): only their lengths
     and the order of the calls matter here.
   base.py:31-46  MarkovChain.advance(m)                  advance draw m
       k = 100
       for j in range(k): [take_step() for _ in range(m // k)]     groups 100 (m / 100)
       if m % k != 0:     [take_step() for _ in range(m % k)]      repeat_step (m mod 100)
     (the ProgressPrinter calls do not touch the chain)
   any sequence of advance / take_step calls              run_ops
   parallel.py:21-30  ChainPool.advance(n)                pool_advance   (= map (advance n): every
       pool.map(adv_func, [(n, chain) ...])               worker gets a pickled copy of one chain, with
                                                          the chain's own generators inside it)
   the same chains advanced one after another             serial_advance
   ensemble.py:207-238 EnsembleSampler.advance(iterations)   ens_advance true   (repaired, D24)
                                                              ens_advance false  (pinned: concatenate([]) raises)
       __advance_all: every walker in turn, n_iterations += 1   advance_all
       sample_arrays = [] if self.sample is None else [self.sample]; append a copy per iteration;
       concatenate; chain_length = sample_probs.size
   base.py:48-73  MarkovChain.run_for                     rf_run true   (repaired, D23)
                                                          rf_run false  (pinned)
       time()  -- an abstract clock: step number i costs `cost i` seconds, every
       call of time() costs `b` seconds (the ScriptedClock of the harness)
       update_interval = 20                               rf_interval of the initial state
       while current_time < end_time:                     rf_run (fuelled; None = out of fuel)
           for i in range(update_interval): take_step()   rf_steps + rf_interval, batch_cost
           steps_taken = chain_length - start_length      w * rf_steps  (w = samples stored per step:
                                                          1 for the chains, n_walkers for the ensemble)
           current_time = time()                          rf_now
           update_interval = int(steps_taken / (current_time - start_time))     rate  (pinned)
           repaired:  elapsed = current_time - start_time
                      if elapsed > 0: update_interval = max(int(steps_taken / elapsed), 1)
     (pinned code with elapsed = 0 raises ZeroDivisionError; the pinned model is
      only evaluated where elapsed > 0)
*)
From Coq Require Import List ZArith QArith Qround Qreduction Arith Bool.
Import ListNotations.
Close Scope Q_scope.

Set Implicit Arguments.

(* ---------------------------------------------------------------- chains *)
Section Chain.
  Variable R : Type.      (* state of the chain's random generators *)

  Record chain := mkChain {
    samples : list (list Z);       (* newest first *)
    probs : list Z;                (* newest first *)
    chain_length : nat;
    rng : R }.

  Variable draw : chain -> list Z * Z * R.

  Definition take_step (c : chain) : chain :=
    let '(x, p, g) := draw c in
    mkChain (x :: samples c) (p :: probs c) (S (chain_length c)) g.

  Fixpoint repeat_step (k : nat) (c : chain) : chain :=
    match k with
    | O => c
    | S k' => repeat_step k' (take_step c)
    end.

  (* j groups of g steps *)
  Fixpoint groups (j g : nat) (c : chain) : chain :=
    match j with
    | O => c
    | S j' => groups j' g (repeat_step g c)
    end.

  Definition advance (m : nat) (c : chain) : chain :=
    repeat_step (m mod 100) (groups 100 (m / 100) c).

  Inductive op := OAdvance (m : nat) | OStep.

  Definition run_op (c : chain) (o : op) : chain :=
    match o with
    | OAdvance m => advance m c
    | OStep => take_step c
    end.

  Definition run_ops (ops : list op) (c : chain) : chain := fold_left run_op ops c.

  Definition op_steps (o : op) : nat := match o with OAdvance m => m | OStep => 1 end.
  Definition total_steps (ops : list op) : nat := fold_right (fun o a => op_steps o + a) 0 ops.

  (* ---- pools *)
  Fixpoint update (i : nat) (f : chain -> chain) (l : list chain) {struct l} : list chain :=
    match l with
    | [] => []
    | x :: t => match i with
                | O => f x :: t
                | S i' => x :: update i' f t
                end
    end.

  Definition pool_advance (n : nat) (chains : list chain) : list chain :=
    map (advance n) chains.

  Definition serial_advance (n : nat) (chains : list chain) : list chain :=
    fold_left (fun cs i => update i (advance n) cs) (seq 0 (length chains)) chains.
End Chain.

(* ---------------------------------------------------------------- ensemble *)
Section Ensemble.
  Record ens := mkEns {
    walkers : list (list Z);
    wprobs : list Z;
    esample : option (list (list Z));      (* self.sample, oldest first *)
    esample_probs : option (list Z);       (* self.sample_probs *)
    echain_length : nat;
    n_iterations : nat }.

  (* the outcome of the update of walker i (possibly its old position) *)
  Variable move : ens -> nat -> list Z * Z.

  Fixpoint set_nth {A} (i : nat) (x : A) (l : list A) {struct l} : list A :=
    match l with
    | [] => []
    | y :: t => match i with O => x :: t | S i' => y :: set_nth i' x t end
    end.

  Definition advance_walker (e : ens) (i : nat) : ens :=
    let '(x, p) := move e i in
    mkEns (set_nth i x (walkers e)) (set_nth i p (wprobs e))
          (esample e) (esample_probs e) (echain_length e) (n_iterations e).

  Definition advance_all (e : ens) : ens :=
    let e' := fold_left advance_walker (seq 0 (length (walkers e))) e in
    mkEns (walkers e') (wprobs e') (esample e') (esample_probs e') (echain_length e')
          (S (n_iterations e')).

  Fixpoint ens_loop (k : nat) (e : ens) (sa : list (list (list Z))) (pa : list (list Z))
    : ens * list (list (list Z)) * list (list Z) :=
    match k with
    | O => (e, sa, pa)
    | S k' => let e' := advance_all e in
              ens_loop k' e' (sa ++ [walkers e']) (pa ++ [wprobs e'])
    end.

  Definition opt_list {A} (o : option A) : list A :=
    match o with None => [] | Some x => [x] end.

  (* None = the call raised *)
  Definition ens_advance (repaired : bool) (iterations : nat) (e : ens) : option ens :=
    let '(e', sa, pa) := ens_loop iterations e (opt_list (esample e)) (opt_list (esample_probs e)) in
    match sa with
    | [] => if repaired then Some e' else None
    | _ => Some (mkEns (walkers e') (wprobs e') (Some (concat sa)) (Some (concat pa))
                       (length (concat pa)) (n_iterations e'))
    end.

  Definition stored (e : ens) : nat := match esample e with None => 0 | Some s => length s end.
  Definition stored_probs (e : ens) : nat :=
    match esample_probs e with None => 0 | Some s => length s end.

  Fixpoint ens_run (repaired : bool) (its : list nat) (e : ens) : option ens :=
    match its with
    | [] => Some e
    | m :: t => match ens_advance repaired m e with
                | None => None
                | Some e' => ens_run repaired t e'
                end
    end.
End Ensemble.

(* ---------------------------------------------------------------- run_for *)
Record rf := mkRf { rf_steps : nat; rf_now : Q; rf_interval : nat }.

Definition Qn (n : nat) : Q := inject_Z (Z.of_nat n).

(* seconds spent in steps number from, from+1, ..., from+k-1 *)
Fixpoint batch_cost (cost : nat -> Q) (from k : nat) : Q :=
  match k with
  | O => 0%Q
  | S k' => (cost from + batch_cost cost (S from) k')%Q
  end.

(* the same sum, accumulated left to right and kept reduced (what is executed) *)
Fixpoint batch_cost_acc (cost : nat -> Q) (from k : nat) (acc : Q) : Q :=
  match k with
  | O => acc
  | S k' => batch_cost_acc cost (S from) k' (Qred (acc + cost from)%Q)
  end.

(* int(steps_taken / elapsed) *)
Definition rate (steps : nat) (elapsed : Q) : nat :=
  Z.to_nat (Qfloor (Qn steps / elapsed)%Q).

Definition rf_next (repaired : bool) (w : nat) (cost : nat -> Q) (b start : Q) (st : rf) : rf :=
  let steps' := rf_steps st + rf_interval st in
  let now' := Qred (batch_cost_acc cost (rf_steps st) (rf_interval st) (rf_now st) + b)%Q in
  let elapsed := (now' - start)%Q in
  let iv := if repaired
            then (if Qle_bool elapsed 0 then rf_interval st else Nat.max (rate (w * steps') elapsed) 1)
            else rate (w * steps') elapsed in
  mkRf steps' now' iv.

(* the states at every evaluation of `current_time < end_time`; None = out of fuel *)
Fixpoint rf_run (fuel : nat) (repaired : bool) (w : nat) (cost : nat -> Q) (b start stop : Q) (st : rf)
  : option (list rf) :=
  match fuel with
  | O => if Qle_bool stop (rf_now st) then Some [st] else None
  | S f => if Qle_bool stop (rf_now st) then Some [st]
           else option_map (cons st) (rf_run f repaired w cost b start stop (rf_next repaired w cost b start st))
  end.

Fixpoint rf_iter (j : nat) (repaired : bool) (w : nat) (cost : nat -> Q) (b start : Q) (st : rf) : rf :=
  match j with
  | O => st
  | S j' => rf_iter j' repaired w cost b start (rf_next repaired w cost b start st)
  end.

Definition rf_init (start : Q) : rf := mkRf 0 start 20.

(* ---------------------------------------------------------------- correspondence interface *)
(* stub chain: the value appended by the k-th take_step is the counter k (kept as a
   binary number in the generator-state slot, so that a step costs O(1)) *)
Definition stub_draw (c : chain Z) : list Z * Z * Z :=
  ([rng c], rng c, (rng c + 1)%Z).

Definition stub_chain (n : nat) : chain Z :=
  mkChain (map (fun k => [Z.of_nat k]) (rev (seq 0 n))) (map Z.of_nat (rev (seq 0 n))) n (Z.of_nat n).

(* real chains: only the bookkeeping is compared *)
Definition const_draw (c : chain unit) : list Z * Z * unit := ([0%Z], 0%Z, tt).
Definition blank_chain (n : nat) : chain unit :=
  mkChain (repeat [0%Z] n) (repeat 0%Z n) n tt.

(* operations are given with Z counts (no big nat literals) *)
Definition zop (z : Z) : op := if (z <? 0)%Z then OStep else OAdvance (Z.to_nat z).

(* observed: chain_length, len(samples), len(probs), the newest five sample values *)
Definition chain_obs := (Z * Z * Z * list Z)%type.

Definition observe {R} (with_values : bool) (c : chain R) : chain_obs :=
  (Z.of_nat (chain_length c), Z.of_nat (length (samples c)), Z.of_nat (length (probs c)),
   if with_values then map (fun x => hd 0%Z x) (firstn 5 (samples c)) else []).

Fixpoint list_eqb {A} (eqb : A -> A -> bool) (a b : list A) : bool :=
  match a, b with
  | [], [] => true
  | x :: a', y :: b' => eqb x y && list_eqb eqb a' b'
  | _, _ => false
  end.

Definition obs_eqb (a b : chain_obs) : bool :=
  let '(a1, a2, a3, a4) := a in let '(b1, b2, b3, b4) := b in
  (a1 =? b1)%Z && (a2 =? b2)%Z && (a3 =? b3)%Z && list_eqb Z.eqb a4 b4.

(* the observation after every operation of a sequence *)
Fixpoint observe_ops {R} (with_values : bool) (draw : chain R -> list Z * Z * R)
         (ops : list Z) (c : chain R) : list chain_obs :=
  match ops with
  | [] => []
  | z :: t => let c' := run_op draw c (zop z) in
              observe with_values c' :: observe_ops with_values draw t c'
  end.

Inductive case :=
(* stub chain with n0 stored samples, operations (z >= 0: advance(z); z < 0: take_step), observations *)
| CStub (n0 : nat) (ops : list Z) (obs : list chain_obs)
(* real chain: counts only *)
| CReal (n0 : nat) (ops : list Z) (obs : list chain_obs)
(* pool: initial lengths of the chains, n, observed per chain after ChainPool.advance(n) *)
| CPool (n0s : list nat) (n : Z) (obs : list chain_obs)
(* ensemble: walkers, stored iterations before, list of advance(iterations) calls,
   observed after each call (chain_length, rows of sample, size of sample_probs, n_iterations);
   None = the call raised *)
| CEns (n_walkers : nat) (its0 : nat) (its : list Z) (obs : list (option (Z * Z * Z * Z)))
(* run_for: costs (cyclic), cost of a time() call, start_time, run_time, cap on iterations,
   observed (steps_taken, time) at every evaluation of the loop condition; None = did not return *)
| CRunFor (w : nat) (costs : list Q) (b start run_time : Q) (fuel : nat) (obs : option (list (Z * Q))).

Definition ens_move (e : ens) (i : nat) : list Z * Z :=
  ([Z.of_nat (n_iterations e); Z.of_nat i], Z.of_nat (n_iterations e)).

Definition ens_fresh (nw : nat) : ens :=
  mkEns (repeat [0%Z; 0%Z] nw) (repeat 0%Z nw) None None 0 0.

Definition ens_obs (e : ens) : Z * Z * Z * Z :=
  (Z.of_nat (echain_length e), Z.of_nat (stored e), Z.of_nat (stored_probs e),
   Z.of_nat (n_iterations e)).

Fixpoint ens_observe (its : list Z) (e : option ens) : list (option (Z * Z * Z * Z)) :=
  match its with
  | [] => []
  | z :: t => let e' := match e with
                        | None => None
                        | Some e0 => ens_advance ens_move true (Z.to_nat z) e0
                        end in
              option_map ens_obs e' :: ens_observe t e'
  end.

Definition ens_start (nw its0 : nat) : option ens :=
  if its0 =? 0 then Some (ens_fresh nw) else ens_advance ens_move true its0 (ens_fresh nw).

Definition opt_eqb {A} (eqb : A -> A -> bool) (a b : option A) : bool :=
  match a, b with
  | None, None => true
  | Some x, Some y => eqb x y
  | _, _ => false
  end.

Definition z4_eqb (a b : Z * Z * Z * Z) : bool :=
  let '(a1, a2, a3, a4) := a in let '(b1, b2, b3, b4) := b in
  (a1 =? b1)%Z && (a2 =? b2)%Z && (a3 =? b3)%Z && (a4 =? b4)%Z.

Definition cyclic (costs : list Q) (i : nat) : Q :=
  match costs with
  | [c] => c
  | _ => nth (i mod (length costs)) costs 1%Q
  end.

Definition rf_obs (w : nat) (st : rf) : Z * Q := (Z.of_nat (w * rf_steps st), rf_now st).
Definition zq_eqb (a b : Z * Q) : bool := (fst a =? fst b)%Z && Qeq_bool (snd a) (snd b).

Definition check_case (c : case) : bool :=
  match c with
  | CStub n0 ops obs => list_eqb obs_eqb (observe_ops true stub_draw ops (stub_chain n0)) obs
  | CReal n0 ops obs => list_eqb obs_eqb (observe_ops false const_draw ops (blank_chain n0)) obs
  | CPool n0s n obs =>
      list_eqb obs_eqb
        (map (observe true) (pool_advance stub_draw (Z.to_nat n) (map stub_chain n0s))) obs
  | CEns nw its0 its obs =>
      list_eqb (opt_eqb z4_eqb) (ens_observe its (ens_start nw its0)) obs
  | CRunFor w costs b start run_time fuel obs =>
      opt_eqb (list_eqb zq_eqb)
        (option_map (map (rf_obs w))
           (rf_run fuel true w (cyclic costs) b start (Qred (start + run_time)) (rf_init start)))
        obs
  end.

Fixpoint failing {A} (f : A -> bool) (l : list A) (i : nat) : list nat :=
  match l with
  | [] => []
  | x :: t => if f x then failing f t (S i) else i :: failing f t (S i)
  end.
