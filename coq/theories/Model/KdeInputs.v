(* Model of HOW a sample reaches inference/pdf/kde.py : GaussianKDE and what happens to it
   afterwards  (property C12; complements Model/KdeRegions.v, which starts from the values).
   Executable, no proofs.

   1. Object histories.  NumPy arrays are mutable objects handed over by reference.  The
      caller's memory is a list of arrays ("cells"); the estimators' private memory is a second
      list.  A history is a list of
        EConstruct src sel   k = GaussianKDE(buf_src[sel], ...)   (sel = the positions of the
                             cell the caller hands over: the whole array, a slice, a strided
                             view, a 2-D array in C order)
        EAffine src a b      buf_src *= a ; buf_src += b          (the caller rescales its data in place)
        EStore src vals      buf_src[:] = vals                    (the caller refills its buffer)
        EEval k              k(x), k.cdf(x)                       (no array changes)
      and after every event the harness reads back every caller array and every estimator's
      `sample`.

      kde.py                                                      model
      ------                                                      -----
      :49  self.sample = sort(array(sample, dtype=float)          construct false : the values handed over are
                              .flatten())                           gathered, sorted, and stored in a NEW private
           array(..) copies, flatten() copies, sort() copies        cell; the estimator refers to that cell (ROwn)
      :62-92 h, norm, q, slices, cdf_offsets, tree are numbers /  not part of the state: functions of the stored
           arrays computed once from self.sample                    sample (Model/KdeRegions.v), compared after
                                                                    the history by the structure check
      :97-134 __call__/cdf read self.sample, write only `pdf`/    EEval: identity on the world
           `cdf` (fresh zeros)
      nothing in the class writes to the array it was given       EConstruct / EEval leave w_caller unchanged

      `construct true` is NOT the code: it is the constructor that keeps a view of the caller's
      array when the values arrive in ascending order ("skip the sort, skip the copy").  It is
      here so that Properties/C12Inputs.v can show the history theorem tells the two apart.

   2. Integer dtypes.  The sample (and the evaluation points) may be given with any NumPy
      integer dtype.
      kde.py                                                      model
      ------                                                      -----
      :49  array(sample, dtype=float)   (repaired, defect D52)    to_double : integer -> binary64, round to
                                                                    nearest, ties to even; the estimate is the
                                                                    KDE of  map to_double sample
      :111/:131 dx = x[g,None] - self.sample[None, slice]         dx_repaired: x is converted to binary64 by
                                                                    NumPy's promotion (int, float64 -> float64)
      pinned :49 array(sample) keeps the integer dtype, and       dx_pinned : the difference is taken in the
           dx is an INTEGER array whenever x is integer-typed       promoted integer type, modulo 2^bits
      (not the code) exp(-q2 * dx**2): the square taken in the    sq_in_type
           integer type of dx                                                                      *)
From Coq Require Import List ZArith QArith Bool.
From IT Require Import Model.KdeRegions.
Import ListNotations.

(* ====================================================================== *)
(* 1. object histories                                                    *)
(* ====================================================================== *)
Inductive ref :=
| RView (c : nat) (sel : list nat)     (* a view of positions sel of caller cell c *)
| ROwn (i : nat).                      (* private cell i *)

Record world := {
  w_caller : list (list Q);            (* arrays the caller holds *)
  w_own : list (list Q);               (* arrays only the estimators hold *)
  w_ests : list ref                    (* estimator k -> where its `sample` lives *)
}.

Definition gather (cell : list Q) (sel : list nat) : list Q := map (fun i => nth i cell 0%Q) sel.

Definition deref (w : world) (r : ref) : list Q :=
  match r with
  | RView c sel => gather (nth c (w_caller w) []) sel
  | ROwn i => nth i (w_own w) []
  end.

Definition est_sample (w : world) (k : nat) : list Q :=
  match nth_error (w_ests w) k with
  | Some r => deref w r
  | None => []
  end.

Fixpoint sorted_b (l : list Q) : bool :=
  match l with
  | a :: (b :: _) as t => Qle_bool a b && sorted_b t
  | _ => true
  end.

(* alias = false: the code.  alias = true: keeps a view when the values arrive ordered. *)
Definition construct (alias : bool) (w : world) (src : nat) (sel : list nat) : world :=
  let given := gather (nth src (w_caller w) []) sel in
  if alias && sorted_b given then
    {| w_caller := w_caller w; w_own := w_own w; w_ests := w_ests w ++ [RView src sel] |}
  else
    {| w_caller := w_caller w;
       w_own := w_own w ++ [QSort.sort given];
       w_ests := w_ests w ++ [ROwn (length (w_own w))] |}.

Inductive event :=
| EConstruct (src : nat) (sel : list nat)
| EAffine (src : nat) (a b : Q)
| EStore (src : nat) (vals : list Q)
| EEval (k : nat).

Definition set_caller (w : world) (src : nat) (cell : list Q) : world :=
  {| w_caller := upd (w_caller w) src cell; w_own := w_own w; w_ests := w_ests w |}.

Definition step (alias : bool) (w : world) (ev : event) : world :=
  match ev with
  | EConstruct src sel => construct alias w src sel
  | EAffine src a b => set_caller w src (map (fun v => a * v + b) (nth src (w_caller w) []))
  | EStore src vals => set_caller w src vals
  | EEval _ => w
  end.

Definition run (alias : bool) (w : world) (evs : list event) : world := fold_left (step alias) evs w.

Definition init_world (cells : list (list Q)) : world :=
  {| w_caller := cells; w_own := []; w_ests := [] |}.

(* every estimator refers to an existing private cell *)
Definition wf (w : world) : Prop :=
  forall r, In r (w_ests w) -> exists i, r = ROwn i /\ (i < length (w_own w))%nat.

(* ---- correspondence interface ---- *)
Definition cells_eqb (a b : list (list Q)) : bool :=
  Nat.eqb (length a) (length b) && forallb (fun p => Qeqb_list (fst p) (snd p)) (combine a b).

Record hist_case := {
  hc_cells : list (list Q);                                (* the caller's arrays at the start *)
  hc_events : list event;
  hc_obs : list (list (list Q) * list (list Q))            (* after each event: caller arrays, every kde.sample *)
}.

(* 0 = the whole history agrees; k+1 = first disagreement after event k; 1000 = lengths differ *)
Fixpoint check_steps (w : world) (evs : list event) (obs : list (list (list Q) * list (list Q))) (k : nat) : nat :=
  match evs, obs with
  | [], [] => 0%nat
  | ev :: evs', (oc, oe) :: obs' =>
      let w' := step false w ev in
      if cells_eqb (w_caller w') oc && cells_eqb (map (deref w') (w_ests w')) oe
      then check_steps w' evs' obs' (S k) else S k
  | _, _ => 1000%nat
  end.

Definition check_history (c : hist_case) : nat :=
  check_steps (init_world (hc_cells c)) (hc_events c) (hc_obs c) 0.

Fixpoint failing_hist (l : list hist_case) (i : nat) : list nat :=
  match l with
  | [] => []
  | c :: t => let k := check_history c in
              if Nat.eqb k 0 then failing_hist t (S i) else i :: k :: failing_hist t (S i)
  end.

(* ====================================================================== *)
(* 2. integer dtypes                                                      *)
(* ====================================================================== *)
Open Scope Z_scope.

Inductive itype := I8 | U8 | I16 | U16 | I32 | U32 | I64 | U64.

Definition bits (t : itype) : Z :=
  match t with I8 | U8 => 8 | I16 | U16 => 16 | I32 | U32 => 32 | I64 | U64 => 64 end.
Definition signed (t : itype) : bool :=
  match t with I8 | I16 | I32 | I64 => true | _ => false end.
Definition tmin (t : itype) : Z := if signed t then - 2 ^ (bits t - 1) else 0.
Definition tmax (t : itype) : Z := if signed t then 2 ^ (bits t - 1) - 1 else 2 ^ bits t - 1.
Definition in_range (t : itype) (z : Z) : bool := (tmin t <=? z) && (z <=? tmax t).

(* two's-complement / modular result of an integer operation in type t *)
Definition wrap (t : itype) (z : Z) : Z := tmin t + (z - tmin t) mod 2 ^ bits t.

(* numpy.result_type of two integer ARRAYS; None = float64 *)
Definition promote (a b : itype) : option itype :=
  let mix (s u : itype) :=
    if bits u <? bits s then Some s
    else match u with U8 => Some I16 | U16 => Some I32 | U32 => Some I64 | _ => None end in
  match signed a, signed b with
  | true, false => mix a b
  | false, true => mix b a
  | _, _ => Some (if bits a <? bits b then b else a)
  end.

(* integer -> IEEE binary64: round to nearest, ties to even (53-bit significand; no overflow
   below 2^1024) *)
Definition to_double (z : Z) : Z :=
  let a := Z.abs z in
  let e := Z.log2 a - 52 in
  if e <=? 0 then z
  else
    let q := a / 2 ^ e in
    let r := a mod 2 ^ e in
    let half := 2 ^ (e - 1) in
    let q' := if r <? half then q else if half <? r then q + 1 else if Z.even q then q else q + 1 in
    Z.sgn z * (q' * 2 ^ e).

(* x - sample[i] as the pinned code computes it for an integer-typed sample (type ts) and
   integer-typed evaluation points (type tx) *)
Definition dx_pinned (tx ts : itype) (x s : Z) : Z :=
  match promote tx ts with
  | Some w => wrap w (x - s)
  | None => to_double x - to_double s
  end.

(* the repaired code: the sample is binary64, x is promoted to binary64 *)
Definition dx_repaired (x s : Z) : Z := to_double x - to_double s.

(* (not the code) the square of dx taken in dx's own integer type *)
Definition sq_in_type (w : itype) (dx : Z) : Z := wrap w (dx * dx).

(* ---- correspondence interface ---- *)
Definition zq (z : Z) : Q := inject_Z z.

Record dtype_case := {
  d_stype : itype;                  (* dtype of the sample handed over *)
  d_xtype : option itype;           (* dtype of the evaluation points; None = float64 *)
  d_raw_sample : list Z;
  d_raw_points : list Z;            (* [] when the points are float64 *)
  d_case : kde_case                 (* c_sample / c_points: the binary64 values the harness obtained by
                                       Python's own int -> float conversion; observed tables *)
}.

(* bit 0: a raw value outside its type; bit 1: c_sample is not map to_double raw_sample;
   bit 2: c_points is not map to_double raw_points; bits 3..9: check_structure *)
Definition check_dtype (c : dtype_case) : nat :=
  let b (k : nat) (ok : bool) := if ok then 0%nat else Nat.pow 2 k in
  (b 0%nat (forallb (in_range (d_stype c)) (d_raw_sample c) &&
            match d_xtype c with Some t => forallb (in_range t) (d_raw_points c) | None => true end) +
   b 1%nat (Qeqb_list (map (fun z => zq (to_double z)) (d_raw_sample c)) (c_sample (d_case c))) +
   b 2%nat (match d_xtype c with
            | Some _ => Qeqb_list (map (fun z => zq (to_double z)) (d_raw_points c)) (c_points (d_case c))
            | None => true end) +
   8 * check_structure (d_case c))%nat.

Fixpoint failing_dtype (l : list dtype_case) (i : nat) : list nat :=
  match l with
  | [] => []
  | c :: t => let k := check_dtype c in
              if Nat.eqb k 0 then failing_dtype t (S i) else i :: k :: failing_dtype t (S i)
  end.
