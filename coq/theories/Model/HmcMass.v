(* Consistency of the particle mass of HamiltonianChain (property C01).  No proofs here.

   hmc/mass.py keeps TWO descriptions of the same mass and uses them in different
   places of HamiltonianChain.take_step:

     sample_momentum   r0 = sqrt_mass * z          (ScalarMass / VectorMass)   :31
                       r0 = L @ z                  (MatrixMass)                :57
                       z  = vector of standard-normal draws
     get_velocity      r * inv_mass  /  inv_mass @ r                           :28 / :54
     kinetic_energy    0.5 * (r @ get_velocity(r))         hmc/__init__.py:199
     take_step         H0 = kinetic_energy(r0) - probs[-1] ; accept_prob = exp(H0 - H)

   Model/Samplers.v takes both descriptions (`MDiag inv_mass sqrt_mass`,
   `MFull inv_mass L`) from the live object.  The accept test exp(H0 - H) is the
   Metropolis-Hastings probability for the momentum ACTUALLY DRAWN only if the law
   of r0 is the one whose negative log-density is the kinetic energy, i.e. if

       kinetic (momentum z) = 1/2 z.z      for every z.

   For a full matrix that is  L^T inv_mass L = I  (L L^T is the mass matrix
   inv_mass^-1; L = inv(chol(inv_mass))^T in the code, `mass.py:50-51`).  `mass_gram`
   below computes L^T inv_mass L from the rows of L and of B = inv_mass L as a sum of
   outer products (no transposition needed):

       L^T B = sum_i outer (row_i L) (row_i B).

   `mass_ok tol n m` is the executable comparison run on the state of the real chain
   before every recorded transition; `mass_exact n m` is the hypothesis of the
   theorems in Properties/C01Mass.v (`mass_ok 0` implies it). *)
From Coq Require Import QArith Qabs List Bool.
From IT Require Import Common.ExpBounds Model.Reflect Model.Samplers.
Import ListNotations.
Open Scope Q_scope.

(* n x n identity, as a list of rows *)
Fixpoint ident (n : nat) : list (list Q) :=
  match n with
  | O => []
  | S n' => (1 :: repeat 0 n') :: map (cons 0) (ident n')
  end.

(* w^T A = sum_i w_i * row_i A   (rows of length n) *)
Fixpoint vec_mat (n : nat) (w : list Q) (A : list (list Q)) : list Q :=
  match w, A with
  | x :: w', r :: A' => vadd (vscale x r) (vec_mat n w' A')
  | _, _ => repeat 0 n
  end.

(* A B, row by row *)
Definition mat_mul (n : nat) (A B : list (list Q)) : list (list Q) :=
  map (fun ra => vec_mat n ra B) A.

Definition outer (a b : list Q) : list (list Q) := map (fun x => vscale x b) a.

Fixpoint madd (A B : list (list Q)) : list (list Q) :=
  match A, B with
  | ra :: A', rb :: B' => vadd ra rb :: madd A' B'
  | _, _ => []
  end.

Definition mzero (n : nat) : list (list Q) := repeat (repeat 0 n) n.

(* sum_i outer (row_i L) (row_i B)  =  L^T B *)
Fixpoint gram_sum (n : nat) (L B : list (list Q)) : list (list Q) :=
  match L, B with
  | l :: L', b :: B' => madd (outer l b) (gram_sum n L' B')
  | _, _ => mzero n
  end.

(* L^T inv_mass L *)
Definition mass_gram (n : nat) (im L : list (list Q)) : list (list Q) :=
  gram_sum n L (mat_mul n im L).

Definition mshape (n : nat) (A : list (list Q)) : bool :=
  Nat.eqb (length A) n && forallb (fun r => Nat.eqb (length r) n) A.

(* the two descriptions of the mass agree (to tol): the momenta are drawn from the
   normal law whose negative log-density is the kinetic energy *)
Definition mass_ok (tol : Q) (n : nat) (m : mass) : bool :=
  match m with
  | MDiag im sm =>
      Nat.eqb (length im) n && Nat.eqb (length sm) n &&
      vclose tol (vmul (vmul sm sm) im) (repeat 1 n)
  | MFull im L =>
      mshape n im && mshape n L && mclose tol (mass_gram n im L) (ident n)
  end.

Definition mat_eq (A B : list (list Q)) : Prop := Forall2 (Forall2 Qeq) A B.

Definition mass_exact (n : nat) (m : mass) : Prop :=
  match m with
  | MDiag im sm => length sm = n /\ Forall2 (fun s i => s * s * i == 1) sm im
  | MFull im L => Forall (fun r => length r = n) L /\ mat_eq (mass_gram n im L) (ident n)
  end.

(* one observed HamiltonianChain.take_step, with the mass of the pre-state checked for
   consistency first (code 1 = disagreement, as for every other guard) *)
Definition check_hmc_mass (mtol tol : Q) (P : qpost) (beta : Q) (m : mass) (eps : Q)
           (steps max_attempts : nat) (bounds : option (list Q * list Q)) (t0 : list Q) (p : Q)
           (tape : list Q) (o : hobs) : nat :=
  guard (mass_ok mtol (length t0) m)
        (check_hmc tol P beta m eps steps max_attempts bounds t0 p tape o).
