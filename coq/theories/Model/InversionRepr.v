(* Model/InversionRepr.v -- how a hyper-parameter vector is HANDED to GpLinearInverter
   (property C17) and where the gradient is written.  Executable model, no proofs
   (Proofs/InversionReprProofs.v, Properties/C17Repr.v).

   The property quantifies over hyper-parameter VALUES.  A caller can hand the same values
   over as a float64 array, an integer array (array([2, 0, -1])), a list or tuple of Python
   ints / floats.  NumPy gives an array built from such an object a storage class: integer
   iff every entry is an integer.  Reading an entry always yields its value (`val`); WRITING
   a number into an integer array truncates it toward zero (`put SInt`).

   inversion.py                                                     model
   ------------                                                     -----
   151-152, 171-172, 184-185, 194-199
        K = self.cov.build_covariance(theta[self.cov_slice]) ...     eval_at F theta = F (map val theta):
                                                                     every method reads the VALUES
   212  grad = zeros(self.n_hyperpars)                               grad_buffer theta = SFloat
                                                                     (a float buffer whatever theta is)
   213  grad[self.mean_slice] = array([...])                         report (grad_buffer theta) g
   216  grad[self.cov_slice]  = array([...])
   217  return LML, grad                                             gradient_reported grad_buffer G theta

   grad_buffer_like = the storage class of theta itself (`zeros_like(theta)`): the variant
   whose reported gradient depends on the representation (C17_repr_like_refuted). *)
From Coq Require Import List ZArith QArith Bool.
Import ListNotations.

Inductive num := NInt (z : Z) | NFlt (q : Q).
Definition val (x : num) : Q := match x with NInt z => inject_Z z | NFlt q => q end.
Definition is_int (x : num) : bool := match x with NInt _ => true | NFlt _ => false end.

Inductive store := SInt | SFloat.
Definition store_eqb (a b : store) : bool :=
  match a, b with SInt, SInt | SFloat, SFloat => true | _, _ => false end.

(* numpy.array(obj).dtype.kind: 'i' iff there is at least one entry and all are integers *)
Definition store_of (theta : list num) : store :=
  match theta with
  | [] => SFloat
  | _ => if forallb is_int theta then SInt else SFloat
  end.

(* the float64 array of the same values *)
Definition as_float (theta : list num) : list num := map (fun x => NFlt (val x)) theta.

(* assignment into an integer array: truncation toward zero *)
Definition trunc (x : Q) : Q := inject_Z (Z.quot (Qnum x) (Zpos (Qden x))).
Definition put (s : store) (x : Q) : Q := match s with SFloat => x | SInt => trunc x end.
Definition report (s : store) (g : list Q) : list Q := map (put s) g.

(* a method reads the values *)
Definition eval_at {T : Type} (F : list Q -> T) (theta : list num) : T := F (map val theta).

Definition grad_buffer (theta : list num) : store := SFloat.
Definition grad_buffer_like (theta : list num) : store := store_of theta.

Definition gradient_reported (buf : list num -> store) (G : list Q -> list Q) (theta : list num) : list Q :=
  report (buf theta) (eval_at G theta).
