(* The recorded chain of a sampler as a STORE that grows by single writes, so that
   "at every moment" of property C03 has a meaning between the writes of one call,
   inside the evaluations of the user's log-density, and right after a call that was
   cut short by an exception raised from inside that log-density (Ctrl-C, a failing
   forward model).  Executable model, no proofs.  Values are exact rationals (the
   doubles of the real chain), oldest entry first, as in the Python lists.

   code                                                         model
   ----                                                         -----
   params[i].samples (one list per parameter), probs            store = (data, probs), ColMajor: data = one list
     gibbs.py:28,178,267-271  (GibbsChain, MetropolisChain,       per parameter
     PcaChain)
   theta (list of arrays), probs   hmc/__init__.py:91-92,159    RowMajor: data = one vector per stored row
   sample, sample_probs            ensemble.py:63-65,219-226
   a call of self.posterior(...) / self.grad(...)               Eval  -- the only places where user code runs, i.e.
                                                                         where an exception can surface inside a step
                                                                         and where the chain can be looked at mid-call
   p.add_sample(v) on params[i]    gibbs.py:178                 PushCol i v
   theta.append(t) / concatenate([sample, walker_positions])    PushRow r (one per row of the block)
   probs.append(p) / concatenate([sample_probs, walker_probs])  PushProb p

   MetropolisChain.take_step  gibbs.py:303-323   proposals + posterior calls until one is accepted; then add_sample
                                                 for every parameter; then probs.append
   GibbsChain.take_step       gibbs.py:643-672   for every parameter: proposals + posterior calls until one is
                                                 accepted; AFTER the loop over the parameters: add_sample for every
                                                 parameter, then probs.append
   PcaChain.take_step         pca.py:152-185     the same along the principal directions
   HamiltonianChain.take_step hmc/__init__.py:127-162   attempts (gradient calls, one posterior call) until one is
                                                 accepted; then theta.append, probs.append
   EnsembleSampler.advance(m) ensemble.py:229-256   all m iterations (blocks kept in local lists), one concatenate
   All of them:  step_prog lay s = repeat Eval (s_evals s) ++ commit lay (s_rows s) (s_probs s)

   run k prog st      k = 0: prog runs to the end; k >= 1: the k-th Eval raises, nothing after it is executed
   seen k prog st     the store as every executed Eval finds it (including the raising one)
   moments            every store anybody can observe in a history of calls: before each call, inside each of
                      its evaluations, after it returned or raised

   mode()  gibbs.py:386-392, hmc/__init__.py:407-408, ensemble.py:308-316: the stored row at the arg-max of ALL
           stored log-probabilities -- the starting point (entry 0) included.
   mode_skipping k    NOT the pinned code: the arg-max taken over the entries from k on (what one gets by going
                      through get_probabilities() / get_sample(), whose `burn` defaults to 1); kept for the
                      counterexample C03_mode_skipping_start_refuted.
   gibbs_interleaved_prog   NOT the pinned code: each parameter's new value stored straight after that
                      parameter's own update; kept for C03_interleaved_gibbs_refuted. *)
From Coq Require Import QArith Qabs List Bool Arith.
From IT Require Import Common.ExpBounds Model.Reflect Model.Samplers.
Import ListNotations.
Open Scope Q_scope.

Inductive layout := ColMajor | RowMajor.

Definition store := (list (list Q) * list Q)%type.

Inductive sop :=
| Eval
| PushCol (i : nat) (v : Q)
| PushRow (r : list Q)
| PushProb (p : Q).

(* params[i].samples.append(v) *)
Fixpoint push_col (i : nat) (v : Q) (data : list (list Q)) : list (list Q) :=
  match data with
  | [] => []
  | c :: t => match i with
              | O => (c ++ [v]) :: t
              | S i' => c :: push_col i' v t
              end
  end.

Definition exec_op (o : sop) (st : store) : store :=
  match o with
  | Eval => st
  | PushCol i v => (push_col i v (fst st), snd st)
  | PushRow r => (fst st ++ [r], snd st)
  | PushProb p => (fst st, snd st ++ [p])
  end.

Definition exec_all (ops : list sop) (st : store) : store :=
  fold_left (fun s o => exec_op o s) ops st.

Definition is_eval (o : sop) : bool := match o with Eval => true | _ => false end.

Fixpoint run (k : nat) (prog : list sop) (st : store) : store :=
  match prog with
  | [] => st
  | Eval :: t => match k with
                 | O => run O t st
                 | S O => st
                 | S k' => run k' t st
                 end
  | o :: t => run k t (exec_op o st)
  end.

Fixpoint seen (k : nat) (prog : list sop) (st : store) : list store :=
  match prog with
  | [] => []
  | Eval :: t => st :: match k with
                       | O => seen O t st
                       | S O => []
                       | S k' => seen k' t st
                       end
  | o :: t => seen k t (exec_op o st)
  end.

Definition shape := (list nat * nat)%type.

Definition shape_of (lay : layout) (st : store) : shape :=
  (match lay with
   | ColMajor => map (@length Q) (fst st)
   | RowMajor => [length (fst st)]
   end, length (snd st)).

Definition trace (lay : layout) (k : nat) (prog : list sop) (st : store) : list shape :=
  map (shape_of lay) (seen k prog st).

(* the writes that end a call *)
Fixpoint push_cols (i : nat) (r : list Q) : list sop :=
  match r with
  | [] => []
  | v :: t => PushCol i v :: push_cols (S i) t
  end.

Definition commit_one (rp : list Q * Q) : list sop := push_cols 0 (fst rp) ++ [PushProb (snd rp)].

Definition commit (lay : layout) (rows : list (list Q)) (ps : list Q) : list sop :=
  match lay with
  | ColMajor => flat_map commit_one (combine rows ps)
  | RowMajor => map PushRow rows ++ map PushProb ps
  end.

(* one call of take_step (or of EnsembleSampler.advance): s_evals evaluations of user code,
   then the rows and log-probabilities it stores *)
Record step := mkStep { s_evals : nat; s_rows : list (list Q); s_probs : list Q }.

Definition step_prog (lay : layout) (s : step) : list sop :=
  repeat Eval (s_evals s) ++ commit lay (s_rows s) (s_probs s).

(* a call = its step and its crash point (0: none) *)
Definition call := (step * nat)%type.

Definition run_call (lay : layout) (st : store) (c : call) : store :=
  run (snd c) (step_prog lay (fst c)) st.

Definition run_calls (lay : layout) (calls : list call) (st : store) : store :=
  fold_left (run_call lay) calls st.

Fixpoint moments (lay : layout) (calls : list call) (st : store) : list store :=
  match calls with
  | [] => [st]
  | c :: t => st :: seen (snd c) (step_prog lay (fst c)) st ++ moments lay t (run_call lay st c)
  end.

(* ---- the rows of a store *)
Definition col_rows (cols : list (list Q)) (n : nat) : list (list Q) :=
  map (fun k => map (fun c => nth k c 0) cols) (seq 0 n).

Definition rows_of (lay : layout) (st : store) : list (list Q) :=
  match lay with
  | ColMajor => col_rows (fst st) (length (snd st))
  | RowMajor => fst st
  end.

(* every parameter has as many stored values as there are stored log-probabilities *)
Definition shaped (lay : layout) (st : store) : bool :=
  match lay with
  | ColMajor => forallb (fun c => Nat.eqb (length c) (length (snd st))) (fst st)
  | RowMajor => Nat.eqb (length (fst st)) (length (snd st))
  end.

(* ---- mode *)
Fixpoint argmax_first (l : list Q) : nat :=           (* numpy.argmax: the first maximum *)
  match l with
  | [] => 0%nat
  | x :: t =>
      match t with
      | [] => 0%nat
      | _ => let j := argmax_first t in if Qle_bool (nth j t 0) x then 0%nat else S j
      end
  end.

Definition mode_of (lay : layout) (st : store) : list Q :=
  nth (argmax_first (snd st)) (rows_of lay st) [].

(* NOT the pinned code: the first k entries are left out of the search *)
Definition mode_skipping (k : nat) (lay : layout) (st : store) : list Q :=
  nth (argmax_first (skipn k (snd st))) (skipn k (rows_of lay st)) [].

(* ---- NOT the pinned code: each parameter's value stored inside the update loop *)
Fixpoint interleaved (i : nat) (es : list nat) (r : list Q) : list sop :=
  match es, r with
  | e :: es', v :: r' => repeat Eval e ++ PushCol i v :: interleaved (S i) es' r'
  | _, _ => []
  end.

Definition gibbs_interleaved_prog (es : list nat) (r : list Q) (p : Q) : list sop :=
  interleaved 0 es r ++ [PushProb p].

(* ================================================================ correspondence interface *)
Fixpoint veqb (a b : list Q) : bool :=
  match a, b with
  | [], [] => true
  | x :: a', y :: b' => Qeq_bool x y && veqb a' b'
  | _, _ => false
  end.

Fixpoint list_eqb {A} (eqb : A -> A -> bool) (a b : list A) : bool :=
  match a, b with
  | [], [] => true
  | x :: a', y :: b' => eqb x y && list_eqb eqb a' b'
  | _, _ => false
  end.

Definition shape_eqb (a b : shape) : bool :=
  list_eqb Nat.eqb (fst a) (fst b) && Nat.eqb (snd a) (snd b).

(* the k-th stored log-probability is the tempered log-density of the k-th stored row *)
Definition rows_ok (tol : Q) (P : qpost) (beta : Q) (rows : list (list Q)) (probs : list Q) : bool :=
  Nat.eqb (length rows) (length probs) &&
  forallb (fun rp => Qclose tol (snd rp) (tlogp (qlogp P) beta (fst rp))) (combine rows probs).

Definition store_ok (lay : layout) (tol : Q) (P : qpost) (beta : Q) (st : store) : bool :=
  shaped lay st && rows_ok tol P beta (rows_of lay st) (snd st).

(* p is the maximum of the stored log-probabilities *)
Definition is_max (probs : list Q) (p : Q) : bool := forallb (fun q => Qle_bool q p) probs.

(* the reported mode is a stored row whose stored log-probability is the maximum *)
Definition mode_obs_ok (rows : list (list Q)) (probs : list Q) (m : list Q) : bool :=
  existsb (fun rp => veqb (fst rp) m && is_max probs (snd rp)) (combine rows probs).

Definition opt_ok {A} (o : option A) (f : A -> bool) : bool :=
  match o with None => true | Some a => f a end.

(* one look at a real chain: its store, optionally the current point (get_last()) and mode().
   0 agree, 1 disagree *)
Definition check_store (lay : layout) (tol : Q) (P : qpost) (beta : Q) (st : store)
           (cur : option (list Q)) (mode : option (list Q)) : nat :=
  if store_ok lay tol P beta st
     && opt_ok cur (fun x => veqb (last (rows_of lay st) []) x)
     && opt_ok mode (mode_obs_ok (rows_of lay st) (snd st))
  then 0%nat else 1%nat.

Definition store_close (tol : Q) (a b : store) : bool :=
  mclose tol (fst a) (fst b) && vclose tol (snd a) (snd b).

(* calls of a real sampler (steps taken from an identically built reference sampler, crash
   point, the store shapes noted from inside the evaluations) against the store found afterwards *)
Definition ocall := (step * nat * list shape)%type.

Fixpoint calls_ok (lay : layout) (st : store) (cs : list ocall) : bool * store :=
  match cs with
  | [] => (true, st)
  | c :: t =>
      let '(s, k, shapes) := c in
      let b := list_eqb shape_eqb (trace lay k (step_prog lay s) st) shapes in
      let r := calls_ok lay (run_call lay st (s, k)) t in
      (b && fst r, snd r)
  end.

Definition check_calls (lay : layout) (tol : Q) (st : store) (cs : list ocall) (obs : store) : nat :=
  let r := calls_ok lay st cs in
  if fst r && store_close tol (snd r) obs then 0%nat else 1%nat.

(* the same with the step COMPUTED by the sampler model from the state before the call and
   the tape of draws: Gibbs / Metropolis / PCA *)
Definition map_res {A B} (f : A -> res B) (r : res A) : res B :=
  match r with Ok a => f a | Undecided => Undecided | OutOfTape => OutOfTape | Stuck => Stuck end.

Definition step_of_g (r : res (gstate * list Q * list event)) : res step :=
  map_res (fun a => let '(s', _, ev) := a in
                    match gs_samples s', gs_probs s' with
                    | x' :: _, p' :: _ => Ok (mkStep (length ev) [x'] [p'])
                    | _, _ => Stuck
                    end) r.

Definition step_of_p (r : res (pstate * list Q * list event)) : res step :=
  map_res (fun a => let '(s', _, ev) := a in
                    match ps_samples s', ps_probs s' with
                    | x' :: _, p' :: _ => Ok (mkStep (length ev) [x'] [p'])
                    | _, _ => Stuck
                    end) r.

Definition call_ok (lay : layout) (tol : Q) (st : store) (k : nat) (shapes : list shape) (obs : store)
           (s : step) : bool :=
  list_eqb shape_eqb (trace lay k (step_prog lay s) st) shapes &&
  store_close tol (run_call lay st (s, k)) obs.

Definition check_gibbs_call (metro : bool) (tol : Q) (P : qpost) (beta : Q) (pars : list gparam)
           (st : store) (tape : list Q) (k : nat) (shapes : list shape) (obs : store) : nat :=
  let x := last (rows_of ColMajor st) [] in
  let p := last (snd st) 0 in
  guard (shaped ColMajor st && pre_ok tol P beta x p)
        (code_of (step_of_g ((if metro then metro_step else gibbs_step) (qlogp P) beta (mkGS pars [x] [p]) tape))
                 (call_ok ColMajor tol st k shapes obs)).

Definition check_pca_call (tol : Q) (P : qpost) (beta : Q) (dirs : list (list Q)) (sigmas : list Q)
           (bounds : option (list Q * list Q)) (st : store) (tape : list Q) (k : nat)
           (shapes : list shape) (obs : store) : nat :=
  let x := last (rows_of ColMajor st) [] in
  let p := last (snd st) 0 in
  guard (shaped ColMajor st && pre_ok tol P beta x p)
        (code_of (step_of_p (pca_step (qlogp P) beta (mkPS dirs sigmas bounds [x] [p]) tape))
                 (call_ok ColMajor tol st k shapes obs)).
