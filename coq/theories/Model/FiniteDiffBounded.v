(* HamiltonianChain.finite_diff with a bounds box (after fixes D07, D29, D30):

     dt = t[i] * 1e-5 ; if abs(dt) < floor: dt = floor
     t_step = t with t[i] + dt
     if bounds is not None and not bounds.inside(t_step):   dt = -dt ; t_step[i] = t[i] + dt
     G[i] = (posterior(t_step) - p) / dt          (un-tempered: the leapfrog applies inv_temp)

   The unbounded formula is Model/Leapfrog.v `finite_diff` at inv_temp = 1. *)
From Coq Require Import QArith Qabs List Bool.
From IT Require Import Model.Leapfrog.
Import ListNotations.
Open Scope Q_scope.

Fixpoint inside_box (lo hi x : vec) : bool :=
  match lo, hi, x with
  | l :: lo', u :: hi', v :: x' => Qle_bool l v && Qle_bool v u && inside_box lo' hi' x'
  | _, _, _ => true
  end.

Section FD.
  Variable logp : vec -> Q.
  Variables h fl : Q.
  Variables lo hi : vec.

  (* the step actually used for coordinate i: turned inward when the outward point leaves the box *)
  Definition fd_step_b (t : vec) (i : nat) : Q :=
    let dt := fd_step h fl (nth i t 0) in
    if inside_box lo hi (upd i (fun x => x + dt) t) then dt else - dt.

  Definition finite_diff_b (t : vec) : vec :=
    let p := logp t in
    map (fun i => let dt := fd_step_b t i in (logp (upd i (fun x => x + dt) t) - p) / dt)
        (seq 0 (length t)).
End FD.

(* correspondence: scripted posterior (value P at t, P_i at the point whose first coordinate
   differing from t is i), recorded evaluation points, observed gradient *)
Fixpoint points_ok_b (h fl : Q) (lo hi t : vec) (i : nat) (pts : list vec) : bool :=
  match pts with
  | [] => true
  | pt :: pts' =>
      let dt := fd_step_b h fl lo hi t i in
      vclose (1 # 1125899906842624) (Qabs dt) (upd i (fun x => x + dt) t) pt
      && points_ok_b h fl lo hi t (S i) pts'
  end.

Definition check_fd_b (c : Q * Q * vec * vec * vec * Q * vec * list vec * vec) : bool :=
  let '(h, fl, lo, hi, t, P, Ps, pts, obs) := c in
  vclose (1 # 281474976710656) 0 (finite_diff_b (table_logp t P Ps) h fl lo hi t) obs
  && (length pts =? length t)%nat && points_ok_b h fl lo hi t 0 pts.

Fixpoint failing_b (l : list (Q * Q * vec * vec * vec * Q * vec * list vec * vec)) (i : nat) : list nat :=
  match l with
  | [] => []
  | c :: r => if check_fd_b c then failing_b r (S i) else i :: failing_b r (S i)
  end.
