(* Model of inference/pdf/hdi.py : sample_hdi  (property C13).

   Executable model, no proofs.  Samples are integers: every finite set of
   doubles is a set of dyadic rationals, i.e. integers after multiplication by a
   common power of two, and the interval is covariant under that scaling
   (theorem hdi_affine in Proofs/HdiProofs.v), so Z loses no generality.

   hdi.py                                           model
   ------                                           -----
   s.sort(axis=0)                                   ZSort.sort
   L = int(fraction * n_samples)                    argument L (the harness
                                                    computes it with the same
                                                    float product and checks
                                                    floor(f*n) <= L exactly)
   widths = s[L:, :] - s[: n_samples - L, :]        widths s L
   i = widths.argmin(axis=0)    (first minimum)     argmin
   hdi = s[i], s[i+L]                               (nth i s 0, nth (i+L) s 0)
   else branch (n_samples <= L): s[0], s[-1]        (hd 0 s, last s 0)
   2-D input: every column independently            hdi_columns = map hdi
*)
From Coq Require Import List ZArith Bool Orders Sorting.Mergesort.
Import ListNotations.
Open Scope Z_scope.

Module ZOrder <: TotalLeBool.
  Definition t := Z.
  Definition leb := Z.leb.
  Theorem leb_total : forall a1 a2, is_true (leb a1 a2) \/ is_true (leb a2 a1).
  Proof.
    intros a b. unfold leb, is_true.
    destruct (Z.leb_spec a b) as [H|H]; [left; reflexivity|right].
    apply Z.leb_le. apply Z.lt_le_incl. exact H.
  Qed.
End ZOrder.

Module ZSort := Sort ZOrder.

Fixpoint zip_sub (hi lo : list Z) : list Z :=
  match hi, lo with
  | h :: hs, l :: ls => (h - l) :: zip_sub hs ls
  | _, _ => []
  end.

(* s[L:] - s[:n-L] *)
Definition widths (s : list Z) (L : nat) : list Z := zip_sub (skipn L s) s.

(* index of the first minimum (numpy argmin) *)
Fixpoint argmin (l : list Z) : nat :=
  match l with
  | [] => 0%nat
  | x :: t =>
      match t with
      | [] => 0%nat
      | _ => let j := argmin t in if x <=? nth j t 0 then 0%nat else S j
      end
  end.

Definition hdi (sample : list Z) (L : nat) : Z * Z :=
  let s := ZSort.sort sample in
  if (L <? length s)%nat then
    let i := argmin (widths s L) in (nth i s 0, nth (i + L) s 0)
  else (hd 0 s, last s 0).

Definition hdi_columns (cols : list (list Z)) (L : nat) : list (Z * Z) :=
  map (fun c => hdi c L) cols.

(* number of sample points inside the closed interval [a,b] *)
Definition count_in (a b : Z) (l : list Z) : nat :=
  length (filter (fun x => (a <=? x) && (x <=? b)) l).

(* --- correspondence interface --------------------------------------- *)
Definition pair_eqb (p q : Z * Z) : bool :=
  (fst p =? fst q) && (snd p =? snd q).

(* one 1-D case: sample, L as computed by the code, observed (lo, hi) *)
Definition check_case (c : list Z * nat * (Z * Z)) : bool :=
  let '(sample, L, obs) := c in pair_eqb (hdi sample L) obs.

(* one 2-D case: columns, L, observed per-column intervals *)
Definition check_case2 (c : list (list Z) * nat * list (Z * Z)) : bool :=
  let '(cols, L, obs) := c in
  (length obs =? length cols)%nat &&
  forallb (fun p => pair_eqb (fst p) (snd p)) (combine (hdi_columns cols L) obs).

Fixpoint failing {A} (f : A -> bool) (l : list A) (i : nat) : list nat :=
  match l with
  | [] => []
  | x :: t => if f x then failing f t (S i) else i :: failing f t (S i)
  end.
