(* Executable model over Q of SEVERAL GpOptimiser objects alive in one process, with the
   acquisition objects they hold kept in a heap, so that "which object is updated by whose
   update_gp" is part of the model.  No proofs here (see Proofs/OptimiserWorldProofs.v).

   code (inference/gp/optimisation.py, acquisition.py)            definition
   --------------------------------------------------------------------------------------
   a = ExpectedImprovement() / UpperConfidenceBound(k) / ...      W_alloc   (caller-made object)
   GpOptimiser.__init__ signature: acquisition = <the class>      Acq_default  (:95)
   GpOptimiser(..., acquisition=<class>)                          Acq_class
   GpOptimiser(..., acquisition=<instance>)                       Acq_instance r
   :126  acquisition() if isclass(acquisition) else acquisition   acq_target
   :127 / :190  self.acquisition.update_gp(self.gp)               heap update in wstep
   acquisition.py:39-41  self.gp = gp; self.mu_max = gp.y.max()   acq_view (incumbent, whose gp, its size)
   :136-190  add_evaluation                                        W_add i  (Model.Optimiser.add_evaluation)
   :211-235  propose_evaluation                                    W_propose i  (changes nothing)

   An optimiser is identified by its index in order of construction; an acquisition object by
   its index in order of allocation (caller-made objects and the ones made by __init__ from a
   class share this numbering). *)
From Coq Require Import List QArith Qminmax Bool Arith.
From IT Require Import Model.Optimiser.
Import ListNotations.
Open Scope Q_scope.

(* what an acquisition object holds after update_gp: mu_max, the optimiser whose regressor
   it points to, and the number of data points of that regressor *)
Definition acq_view := (Q * nat * nat)%type.

Record optimiser := mk_opt {
  o_state : opt_state;     (* self.x, self.y, self.y_err; st_ymax = max of self.y *)
  o_acq : nat              (* self.acquisition : a reference into the heap *)
}.

Record world := mk_world {
  w_opts : list optimiser;
  w_heap : list (option acq_view)     (* None: object exists, update_gp not yet called *)
}.

Definition empty_world : world := mk_world [] [].

Inductive acq_arg := Acq_default | Acq_class | Acq_instance (r : nat).

Inductive wop :=
| W_alloc
| W_new (a : acq_arg) (x : list (list Q)) (y : list Q) (e : option (list Q))
| W_add (i : nat) (nx : list Q) (ny : Q) (ne : option Q)
| W_propose (i : nat).

Fixpoint upd {A} (l : list A) (i : nat) (a : A) : list A :=
  match l, i with
  | [], _ => []
  | _ :: l', O => a :: l'
  | b :: l', S i' => b :: upd l' i' a
  end.

Definition own_view (i : nat) (st : opt_state) : acq_view :=
  (st_ymax st, i, length (st_y st)).

(* optimisation.py:126 -- the object the new optimiser will hold, and the heap after a
   possible allocation.  The signature default is the CLASS, so it behaves as Acq_class. *)
Definition acq_target (heap : list (option acq_view)) (a : acq_arg)
  : list (option acq_view) * nat :=
  match a with
  | Acq_default | Acq_class => (heap ++ [None], length heap)
  | Acq_instance r => (heap, r)
  end.

Definition wstep (w : world) (o : wop) : option world :=
  match o with
  | W_alloc => Some (mk_world (w_opts w) (w_heap w ++ [None]))
  | W_new a x y e =>
      let '(heap, r) := acq_target (w_heap w) a in
      if Nat.ltb r (length heap) then
        let st := init_state x y e in
        let i := length (w_opts w) in
        Some (mk_world (w_opts w ++ [mk_opt st r]) (upd heap r (Some (own_view i st))))
      else None
  | W_add i nx ny ne =>
      match nth_error (w_opts w) i with
      | Some o =>
          match add_evaluation (o_state o) nx ny ne with
          | Some st' => Some (mk_world (upd (w_opts w) i (mk_opt st' (o_acq o)))
                                       (upd (w_heap w) (o_acq o) (Some (own_view i st'))))
          | None => None
          end
      | None => None
      end
  | W_propose i =>
      match nth_error (w_opts w) i with Some _ => Some w | None => None end
  end.

Fixpoint wrun (w : world) (ops : list wop) : option world :=
  match ops with
  | [] => Some w
  | o :: ops' => match wstep w o with Some w' => wrun w' ops' | None => None end
  end.

(* the evaluations addressed to optimiser i, in order *)
Fixpoint adds_of (i : nat) (ops : list wop) : list (list Q * Q * option Q) :=
  match ops with
  | [] => []
  | W_add j nx ny ne :: r => if Nat.eqb j i then (nx, ny, ne) :: adds_of i r else adds_of i r
  | _ :: r => adds_of i r
  end.

(* the caller does not hand one acquisition object to two optimisers *)
Definition unshared_step (w : world) (o : wop) : Prop :=
  match o with
  | W_new (Acq_instance r) _ _ _ => ~ In r (map o_acq (w_opts w))
  | _ => True
  end.

Fixpoint unshared_run (w : world) (ops : list wop) : Prop :=
  match ops with
  | [] => True
  | o :: ops' => unshared_step w o /\
                 match wstep w o with Some w' => unshared_run w' ops' | None => True end
  end.

(* every optimiser's acquisition object holds that optimiser's own incumbent and regressor,
   and no two optimisers hold the same object *)
Definition world_ok (w : world) : Prop :=
  (forall i o, nth_error (w_opts w) i = Some o ->
     nth_error (w_heap w) (o_acq o) = Some (Some (own_view i (o_state o)))) /\
  (forall i j oi oj, nth_error (w_opts w) i = Some oi -> nth_error (w_opts w) j = Some oj ->
     o_acq oi = o_acq oj -> i = j).

(* ---- mutation target: the signature default is ONE instance made when the function is
   defined (heap slot 0 of shared_world), so the isclass branch no longer allocates ---- *)
Definition shared_world : world := mk_world [] [None].

Definition acq_target_shared (heap : list (option acq_view)) (a : acq_arg)
  : list (option acq_view) * nat :=
  match a with
  | Acq_default => (heap, 0%nat)
  | Acq_class => (heap ++ [None], length heap)
  | Acq_instance r => (heap, r)
  end.

Definition wstep_shared (w : world) (o : wop) : option world :=
  match o with
  | W_new a x y e =>
      let '(heap, r) := acq_target_shared (w_heap w) a in
      if Nat.ltb r (length heap) then
        let st := init_state x y e in
        let i := length (w_opts w) in
        Some (mk_world (w_opts w ++ [mk_opt st r]) (upd heap r (Some (own_view i st))))
      else None
  | _ => wstep w o
  end.

Fixpoint wrun_shared (w : world) (ops : list wop) : option world :=
  match ops with
  | [] => Some w
  | o :: ops' => match wstep_shared w o with Some w' => wrun_shared w' ops' | None => None end
  end.

(* ---------------- checker used by the generated case files ---------------- *)
(* what is observed of one optimiser after an operation: x, y, y_err, GpOptimiser.mu_max
   (None while the attribute does not exist: it is first set by add_evaluation), and what
   its acquisition object holds: mu_max, index of the optimiser whose CURRENT regressor it
   points to (by object identity; 999 if none), number of data points of that regressor *)
Definition obs_opt :=
  (list (list Q) * list Q * option (list Q) * option Q * acq_view)%type.

Definition view_eqb (a b : acq_view) : bool :=
  let '(m1, o1, n1) := a in let '(m2, o2, n2) := b in
  Qeq_bool m1 m2 && Nat.eqb o1 o2 && Nat.eqb n1 n2.

Definition opt_obs_eqb (w : world) (i : nat) (o : optimiser) (ob : obs_opt) : bool :=
  let '(x, y, e, mm, v) := ob in
  let st := o_state o in
  Qrows_eqb (st_x st) x && Qlist_eqb (st_y st) y && opt_Qlist_eqb (st_yerr st) e
  && match mm with None => true | Some m => Qeq_bool (st_ymax st) m end
  && match nth_error (w_heap w) (o_acq o) with
     | Some (Some v') => view_eqb v' v
     | _ => false
     end.

Fixpoint opts_obs_eqb (w : world) (i : nat) (os : list optimiser) (obs : list obs_opt) : bool :=
  match os, obs with
  | [], [] => true
  | o :: os', ob :: obs' => opt_obs_eqb w i o ob && opts_obs_eqb w (S i) os' obs'
  | _, _ => false
  end.

Definition world_obs_eqb (w : world) (obs : list obs_opt) : bool :=
  opts_obs_eqb w 0 (w_opts w) obs.

(* after EVERY operation the observation of ALL optimisers must equal the model's world;
   returns the index of the first operation after which they differ *)
Fixpoint first_world_diff (w : world) (ops : list wop) (obs : list (list obs_opt)) (k : nat)
  : option nat :=
  match ops, obs with
  | [], [] => None
  | o :: ops', ob :: obs' =>
      match wstep w o with
      | Some w' => if world_obs_eqb w' ob then first_world_diff w' ops' obs' (S k) else Some k
      | None => Some k
      end
  | _, _ => Some k
  end.

Definition world_case := (list wop * list (list obs_opt))%type.

Definition check_world_case (c : world_case) : bool :=
  match first_world_diff empty_world (fst c) (snd c) 0 with None => true | Some _ => false end.

(* per case: 0 = agrees, S k = first difference after operation k *)
Definition world_diffs (cs : list world_case) : list nat :=
  map (fun c => match first_world_diff empty_world (fst c) (snd c) 0 with
                | None => 0%nat | Some k => S k end) cs.
