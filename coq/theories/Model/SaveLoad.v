(* Model of save() / load() (property C09).

   numpy.savez / numpy.load are modelled as a key -> value store (their
   round-tripping of arrays is trusted).  A sampler's saved state is the list of
   (key, value) pairs save() writes; load() reads the keys of its schema back.
   Parameter fields are keyed "param_{i}<suffix>" (gibbs.py get_items / load).

   The field lists themselves are NOT written here: they are regenerated from
   the current source by harness/translate/saveload.py on every run
   (coq/gen/C09/Fields_<Class>.v) and the inclusion lemmas over them are
   re-proved there with incl_b / diff_b below. *)
From Coq Require Import String Ascii List Bool Arith QArith.
Import ListNotations.
Open Scope nat_scope.
Open Scope string_scope.

(* ---------- string sets ---------- *)
Definition mem_b (x : string) (l : list string) : bool := existsb (String.eqb x) l.
Definition incl_b (a b : list string) : bool := forallb (fun x => mem_b x b) a.
Definition diff_b (a b : list string) : list string := filter (fun x => negb (mem_b x b)) a.

(* ---------- keys ---------- *)
Inductive key := KChain (name : string) | KParam (i : nat) (suffix : string).

Fixpoint digits (fuel n : nat) (acc : string) : string :=
  match fuel with
  | O => acc
  | S fuel' =>
      let d := String (ascii_of_nat (48 + n mod 10)) acc in
      if Nat.eqb (n / 10) 0 then d else digits fuel' (n / 10) d
  end.
Definition nat_str (n : nat) : string := digits (S n) n "".

(* the file key: f"param_{i}" + suffix *)
Definition render (k : key) : string :=
  match k with
  | KChain s => s
  | KParam i suf => "param_" ++ nat_str i ++ suf
  end.

Definition key_eqb (a b : key) : bool :=
  match a, b with
  | KChain s, KChain t => String.eqb s t
  | KParam i s, KParam j t => Nat.eqb i j && String.eqb s t
  | _, _ => false
  end.

(* ---------- values ---------- *)
Inductive value :=
| VQ (q : Q) | VN (n : nat) | VB (b : bool)
| VL (l : list Q) | VM (m : list (list Q)).

Definition store := list (string * value).        (* what is in the .npz file *)

Fixpoint lookup (k : string) (st : store) : option value :=
  match st with
  | [] => None
  | (k', v) :: t => if String.eqb k k' then Some v else lookup k t
  end.

(* save(): write every field under its rendered key *)
Definition encode (fields : list (key * value)) : store :=
  map (fun kv => (render (fst kv), snd kv)) fields.

(* load(): read the keys of the schema back; a missing key is an error (KeyError) *)
Fixpoint decode (schema : list key) (st : store) : option (list (key * value)) :=
  match schema with
  | [] => Some []
  | k :: ks =>
      match lookup (render k) st, decode ks st with
      | Some v, Some rest => Some ((k, v) :: rest)
      | _, _ => None
      end
  end.

(* the Parameter suffixes of gibbs.py (for the injectivity sweep) *)
Definition param_suffixes : list string :=
  ["samples"; "sigma"; "avg"; "var"; "num"; "sigma_values"; "sigma_checks"; "try_count";
   "last_update"; "target_rate"; "max_tries"; "chk_int"; "growth_factor"; "adjust_rate";
   "_non_negative"; "bounded"; "upper"; "lower"; "width"].

Fixpoint nodup_b (l : list string) : bool :=
  match l with
  | [] => true
  | x :: t => negb (mem_b x t) && nodup_b t
  end.

Definition param_keys (n : nat) : list key :=
  flat_map (fun i => map (KParam i) param_suffixes) (seq 0 n).
