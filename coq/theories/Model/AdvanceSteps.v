(* Call histories with INTERRUPTED calls: what the length counters of a sampler are
   after any sequence of take_step / advance calls when a call can be cut short by
   an exception raised from inside the posterior (or its gradient) -- a model
   failure, a FloatingPointError, Ctrl-C (property C15: "the reported chain length
   equals the number of stored samples and stored log-probabilities after every
   sequence of advance / take_step calls").

   Executable model, no proofs.  Only counts are modelled: WHICH values are stored
   is the business of C01 / C03 / C14 (Model/ReadoutsSteps.v carries the values for
   the read-outs of C14; here the state also carries the reported counters
   chain_length and n_iterations, which that model does not have).

   code                                                        model  (state sst)
   ----                                                        -----
   len(params[i].samples) for every parameter i  (Metropolis / s_cols : one entry per parameter
     Gibbs / PCA chains), [len(theta)] (HMC),                          (KCol n) or a single entry (KRow, KEns)
     [sample.shape[0]] (ensemble; 0 while sample is None)
   len(probs) / sample_probs.size                              s_probs
   chain_length                                                s_len
   EnsembleSampler.n_iterations                                s_iter  (0 for the chains)

   a call of self.posterior(...) / self.grad(...)              Eval   the only places where user code runs, i.e. where
                                                                      an exception can surface in the middle of a call
   p.add_sample(v) on params[i]          gibbs.py:178          Push i 1
   self.theta.append(t)                  hmc/__init__.py:159   Push 0 1
   sample = concatenate([...k rows...])  ensemble.py:220-224,252   Push 0 k
   probs.append(p) / sample_probs = concatenate(...)           PushProbs k
   self.chain_length += 1                                      IncLen
   self.chain_length = self.sample_probs.size                  LenFromProbs
   self.n_iterations += 1                ensemble.py:213       IncIter

   MetropolisChain.take_step  gibbs.py:303-323   proposals + posterior calls until one is accepted (e evaluations),
   GibbsChain.take_step       gibbs.py:643-672   then add_sample for EVERY parameter, probs.append, chain_length += 1:
   PcaChain.take_step         pca.py:152-185                           col_step n e
       (Gibbs / PCA: the evaluations of all parameters / directions come first; e is their total)
   HamiltonianChain.take_step hmc/__init__.py:127-162   gradient + posterior calls of all attempts, then theta.append,
                                                        probs.append, chain_length += 1          row_step e
   EnsembleSampler.__advance_all  ensemble.py:211-214   one posterior call per proposal of every walker, then
                                                        n_iterations += 1                         ens_iter e
   EnsembleSampler.take_step      ensemble.py:216-229   __advance_all, concatenate (n_walkers rows), chain_length =
                                                        sample_probs.size                         ens_step nw e
   EnsembleSampler.advance(m)     ensemble.py:231-254   m times __advance_all (blocks kept in local lists), ONE
                                                        concatenate at the very end               ens_advance nw es
       (for m = 0 the code skips / repeats the assignment of unchanged arrays; the model pushes 0 rows)
   MarkovChain.advance(m)         base.py:31-46         m calls of take_step (C15_advance_is_m_steps): the step
                                                        programs one after another                flat_map (step) es

   srun k prog st       executes prog on st; k = 0: to the end; k >= 1: the k-th Eval raises and nothing
                        after it is executed (the exception propagates out of take_step / advance: there
                        is no try / finally in these methods)
   strace k prog st     the state as seen by every executed Eval (incl. the raising one): what the harness
                        observes from inside the real posterior
   run_calls kd hist st any history of calls, each with its own crash point (0 = not interrupted)

   gibbs_interleaved    NOT the pinned code: the variant of GibbsChain.take_step that stores each parameter's
                        new value straight after that parameter's own update (kept for the counterexample
                        C15_nonatomic_step_refuted: storing only after the last evaluation is necessary)
*)
From Coq Require Import List Arith Bool ZArith.
From IT Require Import Model.Advance.
Import ListNotations.

Record sst := mkS { s_cols : list nat; s_probs : nat; s_len : nat; s_iter : nat }.

Inductive sop :=
| Eval
| Push (i k : nat)          (* k more values in storage list i *)
| PushProbs (k : nat)
| IncLen
| LenFromProbs
| IncIter.

Fixpoint bump (i k : nat) (l : list nat) : list nat :=
  match l with
  | [] => []
  | c :: t => match i with
              | O => (c + k) :: t
              | S i' => c :: bump i' k t
              end
  end.

Definition sexec (o : sop) (st : sst) : sst :=
  match o with
  | Eval => st
  | Push i k => mkS (bump i k (s_cols st)) (s_probs st) (s_len st) (s_iter st)
  | PushProbs k => mkS (s_cols st) (s_probs st + k) (s_len st) (s_iter st)
  | IncLen => mkS (s_cols st) (s_probs st) (S (s_len st)) (s_iter st)
  | LenFromProbs => mkS (s_cols st) (s_probs st) (s_probs st) (s_iter st)
  | IncIter => mkS (s_cols st) (s_probs st) (s_len st) (S (s_iter st))
  end.

Definition sexec_all (prog : list sop) (st : sst) : sst :=
  fold_left (fun s o => sexec o s) prog st.

(* k = 0: run to the end.  k >= 1: the k-th Eval raises. *)
Fixpoint srun (k : nat) (prog : list sop) (st : sst) : sst :=
  match prog with
  | [] => st
  | Eval :: t => match k with
                 | O => srun O t st
                 | S O => st
                 | S k' => srun k' t st
                 end
  | o :: t => srun k t (sexec o st)
  end.

Fixpoint strace (k : nat) (prog : list sop) (st : sst) : list sst :=
  match prog with
  | [] => []
  | Eval :: t => st :: match k with
                       | O => strace O t st
                       | S O => []
                       | S k' => strace k' t st
                       end
  | o :: t => strace k t (sexec o st)
  end.

(* number of evaluations of user code in a program *)
Fixpoint evals (prog : list sop) : nat :=
  match prog with
  | [] => 0
  | Eval :: t => S (evals t)
  | _ :: t => evals t
  end.

(* ---------------------------------------------------------------- the samplers *)
Inductive kind :=
| KCol (npar : nat)      (* MetropolisChain / GibbsChain / PcaChain: one list per parameter *)
| KRow                   (* HamiltonianChain: a list of vectors *)
| KEns (nw : nat).       (* EnsembleSampler: n_walkers rows per iteration *)

Definition width (kd : kind) : nat := match kd with KCol n => n | _ => 1 end.
(* samples stored by one completed step *)
Definition per_step (kd : kind) : nat := match kd with KEns nw => nw | _ => 1 end.

Definition col_writes (n : nat) : list sop := map (fun i => Push i 1) (seq 0 n) ++ [PushProbs 1; IncLen].
Definition col_step (n e : nat) : list sop := repeat Eval e ++ col_writes n.
Definition row_step (e : nat) : list sop := repeat Eval e ++ [Push 0 1; PushProbs 1; IncLen].
Definition ens_iter (e : nat) : list sop := repeat Eval e ++ [IncIter].
Definition ens_writes (k : nat) : list sop := [Push 0 k; PushProbs k; LenFromProbs].
Definition ens_step (nw e : nat) : list sop := ens_iter e ++ ens_writes nw.
Definition ens_advance (nw : nat) (es : list nat) : list sop :=
  flat_map ens_iter es ++ ens_writes (length es * nw).

(* one call: take_step() with e evaluations, or advance(length es) whose j-th step makes
   nth j es evaluations *)
Inductive call := CStep (e : nat) | CAdvance (es : list nat).

Definition step_prog (kd : kind) (e : nat) : list sop :=
  match kd with
  | KCol n => col_step n e
  | KRow => row_step e
  | KEns nw => ens_step nw e
  end.

Definition call_prog (kd : kind) (c : call) : list sop :=
  match c with
  | CStep e => step_prog kd e
  | CAdvance es => match kd with
                   | KEns nw => ens_advance nw es
                   | _ => flat_map (step_prog kd) es
                   end
  end.

Definition run_call (kd : kind) (st : sst) (ck : call * nat) : sst :=
  srun (snd ck) (call_prog kd (fst ck)) st.

Definition run_calls (kd : kind) (hist : list (call * nat)) (st : sst) : sst :=
  fold_left (run_call kd) hist st.

(* ---- what a history is entitled to *)
Definition list_sum (l : list nat) : nat := fold_right Nat.add 0 l.

Definition evals_of (c : call) : nat := match c with CStep e => e | CAdvance es => list_sum es end.
Definition requested (c : call) : nat := match c with CStep _ => 1 | CAdvance es => length es end.

(* the call returned normally *)
Definition returned (c : call) (k : nat) : bool := (k =? 0) || (evals_of c <? k).

(* steps of a call all of whose evaluations returned, when the k-th evaluation of the call raises *)
Fixpoint done_steps (es : list nat) (k : nat) : nat :=
  match es with
  | [] => 0
  | e :: t => if (k =? 0) || (e <? k) then S (done_steps t (k - e)) else 0
  end.

Definition steps_list (c : call) : list nat := match c with CStep e => [e] | CAdvance es => es end.

(* samples (and log-probabilities) a call adds to the stored chain *)
Definition added (kd : kind) (ck : call * nat) : nat :=
  match kd with
  | KEns nw => if returned (fst ck) (snd ck) then requested (fst ck) * nw else 0
  | _ => done_steps (steps_list (fst ck)) (snd ck)
  end.

Definition added_total (kd : kind) (hist : list (call * nat)) : nat := list_sum (map (added kd) hist).

(* iterations counted by EnsembleSampler.n_iterations *)
Definition iterated (ck : call * nat) : nat := done_steps (steps_list (fst ck)) (snd ck).

(* ---- not the pinned code: each parameter's value stored inside the update loop *)
Fixpoint interleaved (i : nat) (es : list nat) : list sop :=
  match es with
  | [] => []
  | e :: t => repeat Eval e ++ Push i 1 :: interleaved (S i) t
  end.

Definition gibbs_interleaved (es : list nat) : list sop := interleaved 0 es ++ [PushProbs 1; IncLen].

(* ---------------------------------------------------------------- correspondence interface *)
Definition sobs := (list nat * nat * nat * nat)%type.

Definition obs_of (st : sst) : sobs := (s_cols st, s_probs st, s_len st, s_iter st).
Definition st_of (o : sobs) : sst := let '(c, p, l, i) := o in mkS c p l i.

Definition sobs_eqb (a b : sobs) : bool :=
  let '(a1, a2, a3, a4) := a in let '(b1, b2, b3, b4) := b in
  list_eqb Nat.eqb a1 b1 && Nat.eqb a2 b2 && Nat.eqb a3 b3 && Nat.eqb a4 b4.

(* The generated case files write every number in binary (Z): stored-sample counts of a few
   hundred as unary nat literals make the files needlessly heavy. *)
Definition zobs := (list Z * Z * Z * Z)%type.

Definition zobs_of (st : sst) : zobs :=
  (map Z.of_nat (s_cols st), Z.of_nat (s_probs st), Z.of_nat (s_len st), Z.of_nat (s_iter st)).
Definition st_ofz (o : zobs) : sst :=
  let '(c, p, l, i) := o in mkS (map Z.to_nat c) (Z.to_nat p) (Z.to_nat l) (Z.to_nat i).

Definition zobs_eqb (a b : zobs) : bool :=
  let '(a1, a2, a3, a4) := a in let '(b1, b2, b3, b4) := b in
  list_eqb Z.eqb a1 b1 && Z.eqb a2 b2 && Z.eqb a3 b3 && Z.eqb a4 b4.

(* take_step() making e evaluations / advance(length es) *)
Inductive zcall := ZStep (e : Z) | ZAdvance (es : list Z).
Definition call_ofz (c : zcall) : call :=
  match c with ZStep e => CStep (Z.to_nat e) | ZAdvance es => CAdvance (map Z.to_nat es) end.

(* an observed call: the call, its crash point, the states seen from inside its evaluations,
   the state after it (returned or raised) *)
Definition hcall := (zcall * Z * list zobs * zobs)%type.

(* a real sampler: its state after construction and a history of observed calls *)
Definition icase := (kind * zobs * list hcall)%type.

Fixpoint icase_failures_from (kd : kind) (st : sst) (hs : list hcall) (i : nat) : list nat :=
  match hs with
  | [] => []
  | (c, k, seen, after) :: t =>
      let prog := call_prog kd (call_ofz c) in
      let st' := srun (Z.to_nat k) prog st in
      (if list_eqb zobs_eqb (map zobs_of (strace (Z.to_nat k) prog st)) seen && zobs_eqb (zobs_of st') after
       then [] else [i]) ++ icase_failures_from kd st' t (S i)
  end.

(* indices of the calls whose observed states are not the model's *)
Definition icase_failures (c : icase) : list nat :=
  let '(kd, o, hs) := c in icase_failures_from kd (st_ofz o) hs 0.

Definition check_icase (c : icase) : bool :=
  match icase_failures c with [] => true | _ => false end.
