(* Executable model (over Q / nat) of the index routing in inference/priors.py and of
   inference/posterior.py  (property C06).  No proofs here.

   A prior component is (kind, par1, par2, variables):
     GaussianPrior     par1 = mean,  par2 = sigma
     ExponentialPrior  par1 = beta,  par2 = padding (one 0 per parameter, unused)
     UniformPrior      par1 = lower, par2 = upper
   `variables` = the indices of theta the component applies to (priors.py:254,336,429).

   priors.py                                              model
   ---------                                              -----
   theta[self.variables]                                  gather
   grad[c.variables] = ... / sample[c.variables] = ...    scatter (sequential writes)
   JointPrior.__init__ 136-143  same-type merging,        merged  (Gaussian, Exponential,
        cls.combine 301-313, 384-394, 477-489                      Uniform order; combine_comps
                                                                   concatenates every array)
   JointPrior.__init__ 146-178  validity checks           joint_valid
   JointPrior.__init__ 180-185  bounds sorted by index    joint_bounds (stable sort on the index)
   JointPrior.__call__ 187-199  sum(c(theta))             joint_plan (what each merged component is
                                                            evaluated on; the real-valued sum is
                                                            RealModel/Priors.v : plan_logp)
   JointPrior.gradient 201-214                            joint_grad
   JointPrior.sample 216-227                              joint_sample (script = the draws, in the
                                                            order the components make them)
   GaussianPrior.gradient 285  (mean - t)*inv_sigma**2    coord_grad KGauss
   ExponentialPrior.gradient 368  where(t >= 0, -lam, 0)  coord_grad KExp
   UniformPrior.gradient 461  zeros                       coord_grad KUnif
   *.sample  rng.normal(loc=mean, scale=sigma) /          coord_sample (loc + scale*z, scale*e,
             rng.exponential(scale=beta) /                  low + (high-low)*u : the arithmetic of the
             rng.uniform(low, high)                         scripted generator), sample_calls
   *.bounds 264, 346, 437                                 coord_bounds
   ExponentialPrior.__call__ 358  (t < 0).any()           comp_inside KExp
   UniformPrior.__call__ 448-452  all(lower<=t<=upper)    comp_inside KUnif
   posterior.py 105-108  sorted(samples, key=cost)[:n]    guesses (stable sort by cost, take n)
*)
From Coq Require Import List QArith Qabs ZArith Bool Arith.
Import ListNotations.

Inductive kind := KGauss | KExp | KUnif.

Definition kind_eqb (a b : kind) : bool :=
  match a, b with
  | KGauss, KGauss | KExp, KExp | KUnif, KUnif => true
  | _, _ => false
  end.

Record comp := mkComp { ckind : kind; cpar1 : list Q; cpar2 : list Q; cvars : list nat }.

(* ---------- lists ---------- *)
Fixpoint zip2 {A B C} (g : A -> B -> C) (xs : list A) (ys : list B) : list C :=
  match xs, ys with
  | x :: xs', y :: ys' => g x y :: zip2 g xs' ys'
  | _, _ => []
  end.

Fixpoint zip3 {A B C D} (g : A -> B -> C -> D) (xs : list A) (ys : list B) (zs : list C) : list D :=
  match xs, ys, zs with
  | x :: xs', y :: ys', z :: zs' => g x y z :: zip3 g xs' ys' zs'
  | _, _, _ => []
  end.

(* theta[variables] *)
Definition gather {A} (d : A) (theta : list A) (vars : list nat) : list A :=
  map (fun i => nth i theta d) vars.

Fixpoint upd {A} (l : list A) (i : nat) (x : A) : list A :=
  match l, i with
  | [], _ => []
  | _ :: t, O => x :: t
  | h :: t, S i' => h :: upd t i' x
  end.

(* out[variables] = values *)
Fixpoint scatter {A} (out : list A) (vars : list nat) (vals : list A) : list A :=
  match vars, vals with
  | i :: vs, x :: xs => scatter (upd out i x) vs xs
  | _, _ => out
  end.

(* ---------- same-type merging ---------- *)
Definition combine_comps (k : kind) (L : list comp) : comp :=
  mkComp k (concat (map cpar1 L)) (concat (map cpar2 L)) (concat (map cvars L)).

Definition of_kind (k : kind) (comps : list comp) : list comp :=
  filter (fun c => kind_eqb (ckind c) k) comps.

Definition merge_kind (k : kind) (comps : list comp) : list comp :=
  match of_kind k comps with
  | [] => []
  | [c] => [c]
  | L => [combine_comps k L]
  end.

Definition merged (comps : list comp) : list comp :=
  merge_kind KGauss comps ++ merge_kind KExp comps ++ merge_kind KUnif comps.

Definition all_vars (cs : list comp) : list nat := concat (map cvars cs).

(* ---------- constructor checks ---------- *)
Fixpoint nodupb (l : list nat) : bool :=
  match l with
  | [] => true
  | x :: t => negb (existsb (Nat.eqb x) t) && nodupb t
  end.

Definition joint_valid (comps : list comp) (n : nat) : bool :=
  let vs := all_vars (merged comps) in
  nodupb vs && Nat.eqb (length vs) n && forallb (fun i => i <? n) vs.

(* ---------- per-coordinate behaviour ---------- *)
Definition Qlt_bool (x y : Q) : bool := negb (Qle_bool y x).

Definition coord_grad (k : kind) (p1 p2 t : Q) : Q :=
  match k with
  | KGauss => (p1 - t) * ((1 / p2) * (1 / p2))
  | KExp => if Qle_bool 0 t then - (1 / p1) else 0
  | KUnif => 0
  end.

Definition coord_sample (k : kind) (p1 p2 d : Q) : Q :=
  match k with
  | KGauss => p1 + p2 * d
  | KExp => p1 * d
  | KUnif => p1 + (p2 - p1) * d
  end.

Definition bound := (option Q * option Q)%type.

Definition coord_bounds (k : kind) (p1 p2 : Q) : bound :=
  match k with
  | KGauss => (None, None)
  | KExp => (Some 0, None)
  | KUnif => (Some p1, Some p2)
  end.

Definition coord_inside (k : kind) (p1 p2 t : Q) : bool :=
  match k with
  | KGauss => true
  | KExp => negb (Qlt_bool t 0)
  | KUnif => Qle_bool p1 t && Qle_bool t p2
  end.

(* ---------- components ---------- *)
Definition comp_grad (c : comp) (theta : list Q) : list Q :=
  zip3 (coord_grad (ckind c)) (cpar1 c) (cpar2 c) (gather 0 theta (cvars c)).

Definition comp_sample (c : comp) (draws : list Q) : list Q :=
  zip3 (coord_sample (ckind c)) (cpar1 c) (cpar2 c) draws.

Definition comp_bounds (c : comp) : list bound :=
  zip2 (coord_bounds (ckind c)) (cpar1 c) (cpar2 c).

Definition comp_inside (c : comp) (theta : list Q) : bool :=
  forallb (fun b : bool => b)
          (zip3 (coord_inside (ckind c)) (cpar1 c) (cpar2 c) (gather 0 theta (cvars c))).

(* ---------- the joint prior ---------- *)
Definition joint_grad (comps : list comp) (n : nat) (theta : list Q) : list Q :=
  fold_left (fun g c => scatter g (cvars c) (comp_grad c theta)) (merged comps) (repeat 0 n).

Fixpoint sample_loop (cs : list comp) (script : list Q) (out : list Q) : list Q :=
  match cs with
  | [] => out
  | c :: cs' =>
      let k := length (cpar1 c) in
      sample_loop cs' (skipn k script) (scatter out (cvars c) (comp_sample c (firstn k script)))
  end.

Definition joint_sample (comps : list comp) (n : nat) (script : list Q) : list Q :=
  sample_loop (merged comps) script (repeat 0 n).

(* the arguments the generator is called with, in call order *)
Definition sample_calls (comps : list comp) : list (kind * list Q * list Q) :=
  map (fun c => (ckind c, cpar1 c, cpar2 c)) (merged comps).

(* stable insertion sort on a nat key *)
Fixpoint insert_nat {A} (key : A -> nat) (x : A) (l : list A) : list A :=
  match l with
  | [] => [x]
  | y :: t => if key x <=? key y then x :: l else y :: insert_nat key x t
  end.

Definition sort_nat {A} (key : A -> nat) (l : list A) : list A :=
  fold_right (insert_nat key) [] l.

Definition joint_bounds (comps : list comp) : list bound :=
  let M := merged comps in
  map fst (sort_nat snd (combine (concat (map comp_bounds M)) (all_vars M))).

(* what each (merged) component is evaluated on by JointPrior.__call__ *)
Record plan_item := mkItem { pk : kind; pin : bool; pp1 : list Q; pp2 : list Q; pts : list Q }.

Definition joint_plan (comps : list comp) (theta : list Q) : list plan_item :=
  map (fun c => mkItem (ckind c) (comp_inside c theta) (cpar1 c) (cpar2 c) (gather 0 theta (cvars c)))
      (merged comps).

(* ---------- per-coordinate view used by the theorems ---------- *)
Definition assigns (c : comp) : list (nat * (kind * Q * Q)) :=
  combine (cvars c) (zip2 (fun a b => (ckind c, a, b)) (cpar1 c) (cpar2 c)).

Definition all_assigns (cs : list comp) : list (nat * (kind * Q * Q)) := concat (map assigns cs).

Definition wf_comp (c : comp) : Prop :=
  length (cpar1 c) = length (cvars c) /\ length (cpar2 c) = length (cvars c).

(* ---------- posterior.py : generate_initial_guesses ---------- *)
Fixpoint insert_q {A} (key : A -> Q) (x : A) (l : list A) : list A :=
  match l with
  | [] => [x]
  | y :: t => if Qle_bool (key x) (key y) then x :: l else y :: insert_q key x t
  end.

Definition sort_q {A} (key : A -> Q) (l : list A) : list A := fold_right (insert_q key) [] l.

Definition guesses {A} (cost : A -> Q) (samples : list A) (n : nat) : list A :=
  firstn n (sort_q cost samples).

(* ---------- D26 : UniformPrior.gradient hands out its own buffer ----------
   The pinned code returns `self.grad` itself; a caller that updates the returned
   array in place (g += ...) changes what every later call returns.  State = the
   buffer; ops = a call followed by the caller adding v to what it received. *)
Definition unif_grad_pinned (buf : list Q) (caller_adds : list Q) : list Q * list Q :=
  let returned := zip2 Qplus buf caller_adds in   (* the caller's array IS the buffer *)
  (returned, returned).                            (* (what the caller holds, new buffer) *)

Definition unif_grad (buf : list Q) (caller_adds : list Q) : list Q * list Q :=
  (zip2 Qplus buf caller_adds, buf).               (* repaired: the caller gets a copy *)

(* ---------- correspondence interface ---------- *)
Definition Qlist_eqb (a b : list Q) : bool :=
  Nat.eqb (length a) (length b) && forallb (fun b => b) (zip2 Qeq_bool a b).

Definition Qclose (tol a b : Q) : bool := Qle_bool (Qabs (a - b)) (tol * (Qabs a + Qabs b) + tol * tol).

Definition Qlist_close (tol : Q) (a b : list Q) : bool :=
  Nat.eqb (length a) (length b) && forallb (fun b => b) (zip2 (Qclose tol) a b).

Definition optq_eqb (a b : option Q) : bool :=
  match a, b with
  | None, None => true
  | Some x, Some y => Qeq_bool x y
  | _, _ => false
  end.

Definition bounds_eqb (a b : list bound) : bool :=
  Nat.eqb (length a) (length b) &&
  forallb (fun b => b) (zip2 (fun x y => optq_eqb (fst x) (fst y) && optq_eqb (snd x) (snd y)) a b).

Definition call_eqb (a b : kind * list Q * list Q) : bool :=
  let '(k1, p1, q1) := a in let '(k2, p2, q2) := b in
  kind_eqb k1 k2 && Qlist_eqb p1 p2 && Qlist_eqb q1 q2.

Definition calls_eqb (a b : list (kind * list Q * list Q)) : bool :=
  Nat.eqb (length a) (length b) && forallb (fun b => b) (zip2 call_eqb a b).

(* one routing case: components, n, theta, then what the real JointPrior returned *)
Record jcase := mkCase {
  j_comps : list comp; j_n : nat; j_theta : list Q;
  j_valid : bool;                                  (* constructor accepted *)
  j_grad : list Q; j_bounds : list bound;
  j_script : list Q; j_sample : list Q; j_calls : list (kind * list Q * list Q);
  j_tol : Q                                         (* 0 : gradient compared exactly *)
}.

Definition check_jcase (c : jcase) : bool :=
  if negb (j_valid c) then negb (joint_valid (j_comps c) (j_n c))
  else
    joint_valid (j_comps c) (j_n c) &&
    (if Qeq_bool (j_tol c) 0
     then Qlist_eqb (joint_grad (j_comps c) (j_n c) (j_theta c)) (j_grad c)
     else Qlist_close (j_tol c) (joint_grad (j_comps c) (j_n c) (j_theta c)) (j_grad c)) &&
    bounds_eqb (joint_bounds (j_comps c)) (j_bounds c) &&
    Qlist_eqb (joint_sample (j_comps c) (j_n c) (j_script c)) (j_sample c) &&
    calls_eqb (sample_calls (j_comps c)) (j_calls c).

(* which sub-check fails (for the report): 1 valid, 2 grad, 3 bounds, 4 sample, 5 calls *)
Definition diagnose_jcase (c : jcase) : list nat :=
  if negb (j_valid c) then (if joint_valid (j_comps c) (j_n c) then [1%nat] else [])
  else
    (if joint_valid (j_comps c) (j_n c) then [] else [1%nat]) ++
    (if (if Qeq_bool (j_tol c) 0
         then Qlist_eqb (joint_grad (j_comps c) (j_n c) (j_theta c)) (j_grad c)
         else Qlist_close (j_tol c) (joint_grad (j_comps c) (j_n c) (j_theta c)) (j_grad c))
     then [] else [2%nat]) ++
    (if bounds_eqb (joint_bounds (j_comps c)) (j_bounds c) then [] else [3%nat]) ++
    (if Qlist_eqb (joint_sample (j_comps c) (j_n c) (j_script c)) (j_sample c) then [] else [4%nat]) ++
    (if calls_eqb (sample_calls (j_comps c)) (j_calls c) then [] else [5%nat]).

Fixpoint failing {A} (chk : A -> bool) (l : list A) (i : nat) : list nat :=
  match l with
  | [] => []
  | x :: t => if chk x then failing chk t (S i) else i :: failing chk t (S i)
  end.

(* generate_initial_guesses: samples with their costs (as the code computed them), n, observed *)
Definition check_guesses (c : list (list Q * Q) * nat * list (list Q)) : bool :=
  let '(sc, n, obs) := c in
  let g := map fst (guesses snd sc n) in
  Nat.eqb (length g) (length obs) && forallb (fun b => b) (zip2 Qlist_eqb g obs).

(* one stand-alone prior object: component, theta, observed gradient, observed bounds, tolerance *)
Definition check_ccase (c : comp * list Q * list Q * list bound * Q) : bool :=
  let '(cp, theta, g, b, tol) := c in
  (if Qeq_bool tol 0 then Qlist_eqb (comp_grad cp theta) g else Qlist_close tol (comp_grad cp theta) g)
  && bounds_eqb (comp_bounds cp) b.

(* generate_initial_guesses end to end: components, n, one script per prior draw, the cost the
   code assigns to each sample, n_guesses, observed guesses *)
Definition check_guesses_full (c : list comp * nat * list (list Q) * list Q * nat * list (list Q)) : bool :=
  let '(comps, n, scripts, costs, k, obs) := c in
  let samples := map (joint_sample comps n) scripts in
  check_guesses (combine samples costs, k, obs).
