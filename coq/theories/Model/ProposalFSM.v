(* Model of the proposal selector of inference/mcmc/gibbs.py : Parameter (property C04).

   Executable model, no proofs.  A Parameter carries two switches (bounded,
   _non_negative), the limits (lower, upper, width) and the bound method stored
   in `proposal` (standard_proposal / abs_proposal / boundary_proposal).  The
   public calls that touch them are the operations of a state machine:

   gibbs.py                                             model
   ---------------------------------------------------  --------------------------
   Parameter.__init__                      :49-54       init
   Parameter.set_boundaries(lower, upper)  :56-64       SetBoundaries lo hi
     (GibbsChain.set_boundaries(i, (lo,hi)) :388-403)     incl. the warning branch
   Parameter.remove_boundaries()           :66-71       RemoveBoundaries
     (GibbsChain.set_boundaries(i, None, remove=True))
   Parameter.non_negative = b  (setter)    :77-86       SetNonNegative b
     (GibbsChain.set_non_negative(i, b)     :379-386)
   ... with a value that is not a bool (warning)        SetNonNegativeInvalid
   get_items -> savez -> load -> Parameter.load :188-217  Load
   Parameter.proposal()                                 propose st x   (x = the raw
                                                        normal draw, Reflect.raw_draw)

   Two machines are given.

   * step_pinned / propose_pinned: the pinned tree.  Every setter overwrites
     `proposal` on its own (set_boundaries -> boundary, remove_boundaries ->
     standard, non_negative setter -> abs / standard) while Parameter.load picks
     it from the switches (bounded, else non_negative, else standard).  This is
     defect D6: the switches and the active proposal drift apart
     (fsm_limits_in_force_pinned_refuted in Properties/C04.v).

   * step / propose: the repaired tree (fixes/D06-parameter-proposal-selection.patch).
     One function, Parameter.update_proposal, recomputes `proposal` from the
     switches after every setter and in load, in load's order (bounded wins, then
     non_negative, else standard).  When both switches are on, boundary_proposal
     folds into the intersection [max(lower,0), upper] so that both limits hold;
     a call that would make that intersection empty or a single point (a
     non-negative parameter with upper <= 0) is refused with a warning and
     changes nothing, exactly like set_boundaries with lower >= upper.
*)
From Coq Require Import QArith Qround Qabs Qminmax ZArith List Bool.
From IT Require Import Model.Reflect.
Import ListNotations.
Open Scope Q_scope.

Inductive prop_kind := Std | Abs | Bnd.

Record pstate := mk_pstate {
  bounded : bool;
  nonneg : bool;
  lower : Q;
  upper : Q;
  width : Q;
  active : prop_kind }.

Inductive op :=
| SetBoundaries (lo hi : Q)
| RemoveBoundaries
| SetNonNegative (b : bool)
| SetNonNegativeInvalid
| Load.

Definition init : pstate := mk_pstate false false 0 0 0 Std.

Definition Qltb (a b : Q) : bool := negb (Qle_bool b a).

(* Parameter.load :211-216 (and, after the repair, Parameter.update_proposal) *)
Definition select (b nn : bool) : prop_kind :=
  if b then Bnd else if nn then Abs else Std.

(* ------------------------------------------------------------------ pinned *)
Definition step_pinned (st : pstate) (o : op) : pstate :=
  match o with
  | SetBoundaries lo hi =>
      if Qltb lo hi
      then mk_pstate true (nonneg st) lo hi (hi - lo) Bnd
      else st
  | RemoveBoundaries => mk_pstate false (nonneg st) 0 0 0 Std
  | SetNonNegative b =>
      mk_pstate (bounded st) b (lower st) (upper st) (width st) (if b then Abs else Std)
  | SetNonNegativeInvalid => st
  | Load =>
      mk_pstate (bounded st) (nonneg st) (lower st) (upper st) (width st)
                (select (bounded st) (nonneg st))
  end.

Definition propose_pinned (st : pstate) (x : Q) : Q :=
  match active st with
  | Std => x
  | Abs => abs_fold x
  | Bnd => gibbs_fold (lower st) (upper st) (width st) x
  end.

(* ---------------------------------------------------------------- repaired *)
Definition update (st : pstate) : pstate :=
  mk_pstate (bounded st) (nonneg st) (lower st) (upper st) (width st)
            (select (bounded st) (nonneg st)).

Definition step (st : pstate) (o : op) : pstate :=
  match o with
  | SetBoundaries lo hi =>
      if Qltb lo hi
      then if nonneg st && negb (Qltb 0 hi)
           then st
           else update (mk_pstate true (nonneg st) lo hi (hi - lo) (active st))
      else st
  | RemoveBoundaries => update (mk_pstate false (nonneg st) 0 0 0 (active st))
  | SetNonNegative b =>
      if b && bounded st && negb (Qltb 0 (upper st))
      then st
      else update (mk_pstate (bounded st) b (lower st) (upper st) (width st) (active st))
  | SetNonNegativeInvalid => st
  | Load => update st
  end.

(* lower end of the interval boundary_proposal folds into *)
Definition eff_lower (st : pstate) : Q :=
  if nonneg st then Qmax (lower st) 0 else lower st.

Definition propose (st : pstate) (x : Q) : Q :=
  match active st with
  | Std => x
  | Abs => abs_fold x
  | Bnd => gibbs_fold (eff_lower st) (upper st) (upper st - eff_lower st) x
  end.

Definition run_pinned (ops : list op) (st : pstate) : pstate := fold_left step_pinned ops st.
Definition run (ops : list op) (st : pstate) : pstate := fold_left step ops st.

(* the property, as a predicate on a state and its proposal function *)
Definition limits_in_force (prop : pstate -> Q -> Q) (st : pstate) : Prop :=
  (bounded st = true -> forall x, lower st <= prop st x /\ prop st x <= upper st) /\
  (nonneg st = true -> forall x, 0 <= prop st x).

(* decidable version at one draw, used for the refutation witnesses and by the
   harness when it classifies a disagreement *)
Definition limits_hold_at (prop : pstate -> Q -> Q) (st : pstate) (x : Q) : bool :=
  (negb (bounded st) || (Qle_bool (lower st) (prop st x) && Qle_bool (prop st x) (upper st))) &&
  (negb (nonneg st) || Qle_bool 0 (prop st x)).

(* --- correspondence interface --------------------------------------------- *)
Definition kind_code (k : prop_kind) : Z :=
  match k with Std => 0 | Abs => 1 | Bnd => 2 end%Z.

(* what the harness observes of a real Parameter after a call sequence:
   (bounded, _non_negative, lower, upper, width, code of proposal.__name__ --
   or -1 when the method has a name the harness does not know, so that a mere
   renaming is not a disagreement; the proposal value is compared in any case),
   then one proposal: raw draw x (exact) and the value proposal() returned *)
Definition obs := (bool * bool * Q * Q * Q * Z * Q * Q)%type.

Definition check_state (prop : pstate -> Q -> Q) (st : pstate) (o : obs) : bool :=
  let '(b, nn, lo, hi, w, k, x, y) := o in
  Bool.eqb (bounded st) b && Bool.eqb (nonneg st) nn &&
  Qeqb (lower st) lo && Qeqb (upper st) hi && Qeqb (width st) w &&
  ((k =? -1)%Z || (kind_code (active st) =? k)%Z) &&
  Qeqb (prop st x) y.

(* all call sequences of length <= n over an alphabet, depth first, the state
   after each prefix listed before its extensions (the harness walks the real
   object in the same order) *)
Fixpoint enum (stp : pstate -> op -> pstate) (alphabet : list op) (n : nat) (st : pstate)
  : list pstate :=
  st :: match n with
        | O => []
        | S n' => flat_map (fun o => enum stp alphabet n' (stp st o)) alphabet
        end.

Fixpoint failing2 {A B} (f : A -> B -> bool) (l : list A) (m : list B) (i : nat) : list nat :=
  match l, m with
  | x :: t, y :: u => if f x y then failing2 f t u (S i) else i :: failing2 f t u (S i)
  | [], [] => []
  | _, _ => [i]      (* length mismatch: reported as a failure at the first missing index *)
  end.

(* compact form of the same comparison for the exhaustive enumeration (tens of
   thousands of nodes): the distinct observed attribute tuples are listed once
   in `table`; per node the harness gives the index into the table and 64*y (the
   proposals are dyadic with denominator <= 64 on the inputs used); the raw draw
   of node i is xof i (an input chosen by the harness, not an observation) *)
Definition obs_state := (bool * bool * Q * Q * Q * Z)%type.

Definition check_state_code (prop : pstate -> Q -> Q) (table : list obs_state)
           (st : pstate) (x : Q) (idx y64 : Z) : bool :=
  match nth_error table (Z.to_nat idx) with
  | Some (b, nn, lo, hi, w, k) =>
      (0 <=? idx)%Z && check_state prop st (b, nn, lo, hi, w, k, x, Qmake y64 64)
  | None => false
  end.

Fixpoint failing_codes (prop : pstate -> Q -> Q) (table : list obs_state) (xof : nat -> Q)
         (l : list pstate) (codes : list Z) (i : nat) : list nat :=
  match l, codes with
  | st :: t, idx :: y64 :: u =>
      if check_state_code prop table st (xof i) idx y64
      then failing_codes prop table xof t u (S i)
      else i :: failing_codes prop table xof t u (S i)
  | [], [] => []
  | _, _ => [i]
  end.

(* explicit call sequences (GibbsChain runs): (ops, observation) *)
Definition check_seq (stp : pstate -> op -> pstate) (prop : pstate -> Q -> Q)
           (c : list op * obs) : bool :=
  check_state prop (fold_left stp (fst c) init) (snd c).
