(* The read-outs of Model/Readouts.v in a world that also holds the CALLER's objects,
   with the rarely used options of the read-outs, and on chains of any size (property C14).

   Executable model, no proofs.

   Part 1 -- memory shared with the caller.
   The arguments of a constructor (start, widths, bounds, starting_positions, inverse_mass) are
   arrays / lists the caller owns and may go on modifying IN PLACE after the constructor has
   returned (`start += step` to make the next chain from the same buffer, a buffer that is
   reused, ...).  Whether that reaches the chain depends on whether a stored entry IS the
   caller's object or a copy of it.

   code                                                        model
   ----                                                        -----
   the caller's array objects (flattened row-major)            heap = list (list Z)
   a memory cell of the stored history                         loc: LData r c = entry c of data[r], LProb k
   "store cell l is the same memory as entry j of the          link = (l, (b, j))
    caller's array b"
   the sampler object + the caller's arrays                    world = (heap, store, links)
   buf_b.flat[j] = v executed by the caller                    CallerWrite b j v: heap entry (b, j) := v, and every
                                                               store cell linked to (b, j) := v
   take_step() / advance()                                     Call s  (run_step of Model/ReadoutsSteps.v on the store)

   constructors (the only place where caller objects enter the history):
   gibbs.py:277   Parameter(value=v, ...) for v in start       the value start[i] (a float / numpy scalar: immutable)
                  self.samples = [value]                       -> a copy, no link
   hmc/__init__.py:87-91  start.astype(float64) ; theta = [start]
                  (`start.dtype is float64` is never true, so astype always runs and always makes a new
                   array)                                      -> a copy, no link
   ensemble.py:127-129  positions.astype(float) -> walker_positions; nothing is stored before the first step,
                  take_step / advance store walker_positions.copy() / concatenate(...)
                                                               -> no stored row, no link
   All of them:   construct lay npar h starts ps -- one stored row per start buffer, holding the VALUES the
                  buffer has at construction time, links = [].
   construct_shared   NOT the pinned code: the row-major constructor that keeps the caller's array object
                  itself as the stored row (seeded change: `start.dtype == float64` -> a float64 start is
                  stored as-is in theta[0]); kept for the counterexample C14_shared_start_refuted.

   Part 2 -- options and sizes.
   base.py:104-107  if unimodal: UnimodalPdf(self.get_parameter(index, burn, thin))
                    else:        GaussianKDE(self.get_parameter(index, burn, thin))
                                                               marginal_input_opt unimodal (both branches)
   decimate m / marginal_input_decimated m   NOT the pinned code: a size-dependent shortcut that hands
                  every (size // m)-th retained value to the estimator (seeded change, m = 10000, on the
                  unimodal branch); the identity below 2m retained values.

   Part 3 -- correspondence interface: long observed arrays are handed over packed (three 20-bit values
   per 63-bit machine integer, `unpack`), because a list literal of 10^5 numbers of type Z takes minutes
   to read. *)
From Coq Require Import List ZArith Bool Arith Uint63.
From IT Require Import Model.Readouts Model.ReadoutsSteps.
Import ListNotations.

(* ---------------------------------------------------------------- part 1: the caller's memory *)
Definition heap := list (list Z).

Inductive loc :=
| LData (r c : nat)      (* entry c of data[r]: ColMajor = step c of parameter r, RowMajor = parameter c of step r *)
| LProb (k : nat).

Definition link := (loc * (nat * nat))%type.

Fixpoint set_nth {A : Type} (i : nat) (v : A) (l : list A) : list A :=
  match l with
  | [] => []
  | x :: t => match i with
              | O => v :: t
              | S i' => x :: set_nth i' v t
              end
  end.

Definition set_cell (r c : nat) (v : Z) (t : list (list Z)) : list (list Z) :=
  set_nth r (set_nth c v (nth r t [])) t.

Definition write_loc (l : loc) (v : Z) (st : store) : store :=
  match l with
  | LData r c => (set_cell r c v (fst st), snd st)
  | LProb k => (fst st, set_nth k v (snd st))
  end.

Record world := mkWorld { w_heap : heap; w_store : store; w_links : list link }.

Inductive event :=
| Call (s : step)
| CallerWrite (b j : nat) (v : Z).

Definition linked (b j : nat) (lk : link) : bool :=
  (fst (snd lk) =? b) && (snd (snd lk) =? j).

Definition caller_write (b j : nat) (v : Z) (w : world) : world :=
  mkWorld (set_cell b j v (w_heap w))
          (fold_left (fun st lk => if linked b j lk then write_loc (fst lk) v st else st)
                     (w_links w) (w_store w))
          (w_links w).

Definition run_event (lay : layout) (w : world) (e : event) : world :=
  match e with
  | Call s => mkWorld (w_heap w) (run_step lay (w_store w) s) (w_links w)
  | CallerWrite b j v => caller_write b j v w
  end.

Definition run_events (lay : layout) (evs : list event) (w : world) : world :=
  fold_left (run_event lay) evs w.

(* the calls of a history, without what the caller does to its own objects in between *)
Definition calls (evs : list event) : list step :=
  flat_map (fun e => match e with Call s => [s] | CallerWrite _ _ _ => [] end) evs.

(* the store holding the rows `rows` (one entry per parameter each) *)
Definition init_store (lay : layout) (npar : nat) (rows : list (list Z)) (ps : list Z) : store :=
  match lay with
  | ColMajor => (map (fun i => map (fun r => nth i r 0%Z) rows) (seq 0 npar), ps)
  | RowMajor => (rows, ps)
  end.

Definition start_rows (h : heap) (starts : list nat) : list (list Z) :=
  map (fun b => nth b h []) starts.

(* the pinned constructors: copies *)
Definition construct (lay : layout) (npar : nat) (h : heap) (starts : list nat) (ps : list Z) : world :=
  mkWorld h (init_store lay npar (start_rows h starts) ps) [].

(* NOT the pinned code: stored row k is the caller's array starts[k] itself *)
Definition row_links (npar : nat) (kb : nat * nat) : list link :=
  map (fun j => (LData (fst kb) j, (snd kb, j))) (seq 0 npar).

Definition construct_shared (npar : nat) (h : heap) (starts : list nat) (ps : list Z) : world :=
  mkWorld h (init_store RowMajor npar (start_rows h starts) ps)
          (flat_map (row_links npar) (combine (seq 0 (length starts)) starts)).

(* ---------------------------------------------------------------- part 2: options, sizes *)
Definition marginal_input_opt (unimodal : bool) (lay : layout) (data : list (list Z))
           (i burn thin : nat) : list Z :=
  if unimodal then get_parameter lay data i burn thin      (* UnimodalPdf(...) *)
  else get_parameter lay data i burn thin.                 (* GaussianKDE(...) *)

(* NOT the pinned code: l[:: max(len(l) // m, 1)] *)
Definition decimate {A : Type} (m : nat) (l : list A) : list A :=
  slice 0 (Nat.max (length l / m) 1) l.

Definition marginal_input_decimated (m : nat) (unimodal : bool) (lay : layout)
           (data : list (list Z)) (i burn thin : nat) : list Z :=
  if unimodal then decimate m (get_parameter lay data i burn thin)
  else get_parameter lay data i burn thin.

(* ---------------------------------------------------------------- part 3: correspondence interface *)
(* three values 0 <= v < 2^20 per machine integer, most significant first; (count, words) *)
Fixpoint low_bits (k : nat) (x : int) : Z :=       (* the k lowest bits of x *)
  match k with
  | O => 0%Z
  | S k' => let r := low_bits k' (Uint63.lsr x 1) in
            if Uint63.is_even x then Z.double r else Z.succ_double r
  end.

Definition unpack3 (x : int) : list Z :=
  [low_bits 20 (Uint63.lsr x 40); low_bits 20 (Uint63.lsr x 20); low_bits 20 x].

Definition packed := list (nat * list int).

Definition unpack (p : packed) : list Z :=
  flat_map (fun c => firstn (fst c) (flat_map unpack3 (snd c))) p.

Inductive xquery :=
| XQ (q : query)
| XMarginal (unimodal : bool) (i burn thin : nat).     (* get_marginal(i, burn, thin, unimodal) -> .sample *)

Definition xanswer (s : sampler) (npar : nat) (data : list (list Z)) (probs : list Z)
           (q : xquery) : list ndarray :=
  match q with
  | XQ q' => answer s npar data probs q'
  | XMarginal u i b t => [arr1 (marginal_input_opt u (layout_of s) data i b t)]
  end.

(* an observed ndarray: shape, and the contents either literally or packed *)
Inductive contents := Lit (l : list Z) | Packed (p : packed).
Definition xarray := (list nat * contents)%type.

Definition contents_list (c : contents) : list Z :=
  match c with Lit l => l | Packed p => unpack p end.

Definition xarray_eqb (a : ndarray) (b : xarray) : bool :=
  list_eqb Nat.eqb (fst a) (fst b) && list_eqb Z.eqb (snd a) (contents_list (snd b)).

Fixpoint list_eqb2 {A B : Type} (eqb : A -> B -> bool) (a : list A) (b : list B) : bool :=
  match a, b with
  | [], [] => true
  | x :: a', y :: b' => eqb x y && list_eqb2 eqb a' b'
  | _, _ => false
  end.

Definition check_xquery (s : sampler) (npar : nat) (data : list (list Z)) (probs : list Z)
           (qo : xquery * list xarray) : bool :=
  list_eqb2 xarray_eqb (xanswer s npar data probs (fst qo)) (snd qo).

(* how the chain of a case comes about *)
Inductive origin :=
| Constructed (h : heap) (starts : list nat) (ps : list Z)    (* a real constructor call on the caller's arrays *)
| Injected (data : list (list Z)) (probs : list Z)            (* history written into the object's attributes *)
| InjectedPacked (cols : list packed) (probs : packed)         (* ... packed, one column per parameter (ColMajor) *)
| InjectedPackedRows (n : nat) (flat : packed) (probs : packed).   (* ... packed, n rows flattened (RowMajor) *)

Fixpoint rows_of (n npar : nat) (flat : list Z) : list (list Z) :=
  match n with
  | O => []
  | S n' => firstn npar flat :: rows_of n' npar (skipn npar flat)
  end.

Definition origin_world (lay : layout) (npar : nat) (o : origin) : world :=
  match o with
  | Constructed h starts ps => construct lay npar h starts ps
  | Injected data probs => mkWorld [] (data, probs) []
  | InjectedPacked cols probs => mkWorld [] (map unpack cols, unpack probs) []
  | InjectedPackedRows n flat probs => mkWorld [] (rows_of n npar (unpack flat), unpack probs) []
  end.

(* a stretch of events (calls with the store shapes observed from inside their evaluations, writes of
   the caller to its own arrays), followed by read-out queries on the chain as it then is *)
Definition xsegment := (list (event * list shape) * list (xquery * list xarray))%type.

Definition xcase := (sampler * nat * origin * list xsegment)%type.

Fixpoint check_events (lay : layout) (w : world) (eos : list (event * list shape)) : bool * world :=
  match eos with
  | [] => (true, w)
  | eo :: t =>
      let b := match fst eo with
               | Call s => list_eqb shape_eqb (trace lay (s_crash s) (step_prog lay s) (w_store w)) (snd eo)
               | CallerWrite _ _ _ => true
               end in
      let r := check_events lay (run_event lay w (fst eo)) t in
      (b && fst r, snd r)
  end.

(* failures of a case: segment * 1000 + index of the failing query; 999 = the observed store shapes *)
Fixpoint xcase_failures_from (s : sampler) (npar : nat) (w : world) (segs : list xsegment) (i : nat)
  : list nat :=
  match segs with
  | [] => []
  | seg :: t =>
      let r := check_events (layout_of s) w (fst seg) in
      let w' := snd r in
      (if fst r then [] else [i * 1000 + 999]) ++
      map (fun j => i * 1000 + j)
          (failing (check_xquery s npar (fst (w_store w')) (snd (w_store w'))) (snd seg) 0) ++
      xcase_failures_from s npar w' t (S i)
  end.

Definition xcase_failures (c : xcase) : list nat :=
  let '(s, npar, o, segs) := c in
  xcase_failures_from s npar (origin_world (layout_of s) npar o) segs 0.

Definition check_xcase (c : xcase) : bool :=
  match xcase_failures c with [] => true | _ => false end.
